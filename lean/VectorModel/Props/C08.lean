import VectorModel.Gen.Sym.All
import VectorModel.Spec.Basic
import Mathlib.Tactic.Ring
import Mathlib.Tactic.Linarith
import Mathlib.Tactic.Positivity
import Mathlib.Tactic.NormNum

set_option linter.unusedVariables false
set_option linter.unusedSimpArgs false
set_option maxRecDepth 4096

open VK VR VR.Spec

namespace C08

/-! ### the dropped primitives are inactive on the regular domain -/

/-- `copysign(a, b) = a` when both are non-negative. -/
theorem c08_copysign_nonneg {a b : ℝ} (ha : 0 ≤ a) (hb : 0 ≤ b) : VR.P.copysign a b = a := by
  unfold VR.P.copysign; rw [if_pos hb, abs_of_nonneg ha]

/-- `copysign(τ², τ) = τ²` for `0 ≤ τ`. -/
theorem c08_copysign_sq {b : ℝ} (hb : 0 ≤ b) : VR.P.copysign (b ^ 2) b = b ^ 2 :=
  c08_copysign_nonneg (sq_nonneg b) hb

/-- if the numeric result of `copysign(a, b)` (`0 ≤ a`) is non-negative, the sign transfer was inactive. -/
theorem c08_copysign_of_result_nonneg {a b : ℝ} (ha : 0 ≤ a) (h : 0 ≤ VR.P.copysign a b) :
    VR.P.copysign a b = a := by
  unfold VR.P.copysign at h ⊢
  split_ifs at h ⊢ with hb
  · exact abs_of_nonneg ha
  · rw [abs_of_nonneg ha] at h ⊢; linarith

theorem c08_copysign_sqrt_abs {s : ℝ} (hs : 0 ≤ s) : VR.P.copysign (Real.sqrt |s|) s = Real.sqrt |s| :=
  c08_copysign_nonneg (Real.sqrt_nonneg _) hs

/-- the clamp `max(-1, min(1, c))` is inactive for `-1 ≤ c ≤ 1` -/
theorem c08_clamp {c : ℝ} (h1 : -1 ≤ c) (h2 : c ≤ 1) : max (-(1:ℝ)) (min (1:ℝ) c) = c := by
  rw [min_eq_right h2, max_eq_right h1]


/-! ### `lorentz_tau` -/

theorem c08_lorentz_tau_rhophi_eta_t (rho phi eta t : ℝ) (hs : 0 ≤ VR.lorentz_tau2.rhophi_eta_t rho phi eta t) :
    VS.lorentz_tau.rhophi_eta_t rho phi eta t = VR.lorentz_tau.rhophi_eta_t rho phi eta t := by
  simp only [VS.lorentz_tau.rhophi_eta_t, VR.lorentz_tau.rhophi_eta_t, VS.lorentz_tau2.rhophi_eta_t_eq, hs, VR.P.nanToNum_eq]
  exact (c08_copysign_sqrt_abs hs).symm

theorem c08_lorentz_tau_rhophi_eta_t_of_result (rho phi eta t : ℝ) (h : 0 ≤ VR.lorentz_tau.rhophi_eta_t rho phi eta t) :
    VS.lorentz_tau.rhophi_eta_t rho phi eta t = VR.lorentz_tau.rhophi_eta_t rho phi eta t := by
  simp only [VS.lorentz_tau.rhophi_eta_t, VR.lorentz_tau.rhophi_eta_t, VS.lorentz_tau2.rhophi_eta_t_eq] at h ⊢
  exact (c08_copysign_of_result_nonneg (Real.sqrt_nonneg _) h).symm

theorem c08_lorentz_tau_rhophi_theta_t (rho phi theta t : ℝ) (hs : 0 ≤ VR.lorentz_tau2.rhophi_theta_t rho phi theta t) :
    VS.lorentz_tau.rhophi_theta_t rho phi theta t = VR.lorentz_tau.rhophi_theta_t rho phi theta t := by
  simp only [VS.lorentz_tau.rhophi_theta_t, VR.lorentz_tau.rhophi_theta_t, VS.lorentz_tau2.rhophi_theta_t_eq, hs, VR.P.nanToNum_eq]
  exact (c08_copysign_sqrt_abs hs).symm

theorem c08_lorentz_tau_rhophi_theta_t_of_result (rho phi theta t : ℝ) (h : 0 ≤ VR.lorentz_tau.rhophi_theta_t rho phi theta t) :
    VS.lorentz_tau.rhophi_theta_t rho phi theta t = VR.lorentz_tau.rhophi_theta_t rho phi theta t := by
  simp only [VS.lorentz_tau.rhophi_theta_t, VR.lorentz_tau.rhophi_theta_t, VS.lorentz_tau2.rhophi_theta_t_eq] at h ⊢
  exact (c08_copysign_of_result_nonneg (Real.sqrt_nonneg _) h).symm

theorem c08_lorentz_tau_rhophi_z_t (rho phi z t : ℝ) (hs : 0 ≤ VR.lorentz_tau2.rhophi_z_t rho phi z t) :
    VS.lorentz_tau.rhophi_z_t rho phi z t = VR.lorentz_tau.rhophi_z_t rho phi z t := by
  simp only [VS.lorentz_tau.rhophi_z_t, VR.lorentz_tau.rhophi_z_t, VS.lorentz_tau2.rhophi_z_t_eq, hs, VR.P.nanToNum_eq]
  exact (c08_copysign_sqrt_abs hs).symm

theorem c08_lorentz_tau_rhophi_z_t_of_result (rho phi z t : ℝ) (h : 0 ≤ VR.lorentz_tau.rhophi_z_t rho phi z t) :
    VS.lorentz_tau.rhophi_z_t rho phi z t = VR.lorentz_tau.rhophi_z_t rho phi z t := by
  simp only [VS.lorentz_tau.rhophi_z_t, VR.lorentz_tau.rhophi_z_t, VS.lorentz_tau2.rhophi_z_t_eq] at h ⊢
  exact (c08_copysign_of_result_nonneg (Real.sqrt_nonneg _) h).symm

theorem c08_lorentz_tau_xy_eta_t (x y eta t : ℝ) (hs : 0 ≤ VR.lorentz_tau2.xy_eta_t x y eta t) :
    VS.lorentz_tau.xy_eta_t x y eta t = VR.lorentz_tau.xy_eta_t x y eta t := by
  simp only [VS.lorentz_tau.xy_eta_t, VR.lorentz_tau.xy_eta_t, VS.lorentz_tau2.xy_eta_t_eq, hs, VR.P.nanToNum_eq]
  exact (c08_copysign_sqrt_abs hs).symm

theorem c08_lorentz_tau_xy_eta_t_of_result (x y eta t : ℝ) (h : 0 ≤ VR.lorentz_tau.xy_eta_t x y eta t) :
    VS.lorentz_tau.xy_eta_t x y eta t = VR.lorentz_tau.xy_eta_t x y eta t := by
  simp only [VS.lorentz_tau.xy_eta_t, VR.lorentz_tau.xy_eta_t, VS.lorentz_tau2.xy_eta_t_eq] at h ⊢
  exact (c08_copysign_of_result_nonneg (Real.sqrt_nonneg _) h).symm

theorem c08_lorentz_tau_xy_theta_t (x y theta t : ℝ) (hs : 0 ≤ VR.lorentz_tau2.xy_theta_t x y theta t) :
    VS.lorentz_tau.xy_theta_t x y theta t = VR.lorentz_tau.xy_theta_t x y theta t := by
  simp only [VS.lorentz_tau.xy_theta_t, VR.lorentz_tau.xy_theta_t, VS.lorentz_tau2.xy_theta_t_eq, hs, VR.P.nanToNum_eq]
  exact (c08_copysign_sqrt_abs hs).symm

theorem c08_lorentz_tau_xy_theta_t_of_result (x y theta t : ℝ) (h : 0 ≤ VR.lorentz_tau.xy_theta_t x y theta t) :
    VS.lorentz_tau.xy_theta_t x y theta t = VR.lorentz_tau.xy_theta_t x y theta t := by
  simp only [VS.lorentz_tau.xy_theta_t, VR.lorentz_tau.xy_theta_t, VS.lorentz_tau2.xy_theta_t_eq] at h ⊢
  exact (c08_copysign_of_result_nonneg (Real.sqrt_nonneg _) h).symm

theorem c08_lorentz_tau_xy_z_t (x y z t : ℝ) (hs : 0 ≤ VR.lorentz_tau2.xy_z_t x y z t) :
    VS.lorentz_tau.xy_z_t x y z t = VR.lorentz_tau.xy_z_t x y z t := by
  simp only [VS.lorentz_tau.xy_z_t, VR.lorentz_tau.xy_z_t, VS.lorentz_tau2.xy_z_t_eq, hs, VR.P.nanToNum_eq]
  exact (c08_copysign_sqrt_abs hs).symm

theorem c08_lorentz_tau_xy_z_t_of_result (x y z t : ℝ) (h : 0 ≤ VR.lorentz_tau.xy_z_t x y z t) :
    VS.lorentz_tau.xy_z_t x y z t = VR.lorentz_tau.xy_z_t x y z t := by
  simp only [VS.lorentz_tau.xy_z_t, VR.lorentz_tau.xy_z_t, VS.lorentz_tau2.xy_z_t_eq] at h ⊢
  exact (c08_copysign_of_result_nonneg (Real.sqrt_nonneg _) h).symm


/-! ### `lorentz_tau2` -/

theorem c08_lorentz_tau2_rhophi_eta_tau (rho phi eta tau : ℝ) (htau : 0 ≤ tau) :
    VS.lorentz_tau2.rhophi_eta_tau rho phi eta tau = VR.lorentz_tau2.rhophi_eta_tau rho phi eta tau := by
  simp only [VS.lorentz_tau2.rhophi_eta_tau, VR.lorentz_tau2.rhophi_eta_tau]; exact (c08_copysign_sq htau).symm

theorem c08_lorentz_tau2_rhophi_theta_tau (rho phi theta tau : ℝ) (htau : 0 ≤ tau) :
    VS.lorentz_tau2.rhophi_theta_tau rho phi theta tau = VR.lorentz_tau2.rhophi_theta_tau rho phi theta tau := by
  simp only [VS.lorentz_tau2.rhophi_theta_tau, VR.lorentz_tau2.rhophi_theta_tau]; exact (c08_copysign_sq htau).symm

theorem c08_lorentz_tau2_rhophi_z_tau (rho phi z tau : ℝ) (htau : 0 ≤ tau) :
    VS.lorentz_tau2.rhophi_z_tau rho phi z tau = VR.lorentz_tau2.rhophi_z_tau rho phi z tau := by
  simp only [VS.lorentz_tau2.rhophi_z_tau, VR.lorentz_tau2.rhophi_z_tau]; exact (c08_copysign_sq htau).symm

theorem c08_lorentz_tau2_xy_eta_tau (x y eta tau : ℝ) (htau : 0 ≤ tau) :
    VS.lorentz_tau2.xy_eta_tau x y eta tau = VR.lorentz_tau2.xy_eta_tau x y eta tau := by
  simp only [VS.lorentz_tau2.xy_eta_tau, VR.lorentz_tau2.xy_eta_tau]; exact (c08_copysign_sq htau).symm

theorem c08_lorentz_tau2_xy_theta_tau (x y theta tau : ℝ) (htau : 0 ≤ tau) :
    VS.lorentz_tau2.xy_theta_tau x y theta tau = VR.lorentz_tau2.xy_theta_tau x y theta tau := by
  simp only [VS.lorentz_tau2.xy_theta_tau, VR.lorentz_tau2.xy_theta_tau]; exact (c08_copysign_sq htau).symm

theorem c08_lorentz_tau2_xy_z_tau (x y z tau : ℝ) (htau : 0 ≤ tau) :
    VS.lorentz_tau2.xy_z_tau x y z tau = VR.lorentz_tau2.xy_z_tau x y z tau := by
  simp only [VS.lorentz_tau2.xy_z_tau, VR.lorentz_tau2.xy_z_tau]; exact (c08_copysign_sq htau).symm


/-! ### `lorentz_unit` -/

theorem c08_lorentz_unit_rhophi_eta_tau (rho phi eta tau : ℝ) (htau : 0 ≤ tau) :
    VS.lorentz_unit.rhophi_eta_tau rho phi eta tau = VR.lorentz_unit.rhophi_eta_tau rho phi eta tau := by
  simp only [VS.lorentz_unit.rhophi_eta_tau, VR.lorentz_unit.rhophi_eta_tau, htau, c08_copysign_nonneg zero_le_one htau, VR.P.nanToNum_eq]

theorem c08_lorentz_unit_rhophi_theta_tau (rho phi theta tau : ℝ) (htau : 0 ≤ tau) :
    VS.lorentz_unit.rhophi_theta_tau rho phi theta tau = VR.lorentz_unit.rhophi_theta_tau rho phi theta tau := by
  simp only [VS.lorentz_unit.rhophi_theta_tau, VR.lorentz_unit.rhophi_theta_tau, htau, c08_copysign_nonneg zero_le_one htau, VR.P.nanToNum_eq]

theorem c08_lorentz_unit_rhophi_z_tau (rho phi z tau : ℝ) (htau : 0 ≤ tau) :
    VS.lorentz_unit.rhophi_z_tau rho phi z tau = VR.lorentz_unit.rhophi_z_tau rho phi z tau := by
  simp only [VS.lorentz_unit.rhophi_z_tau, VR.lorentz_unit.rhophi_z_tau, htau, c08_copysign_nonneg zero_le_one htau, VR.P.nanToNum_eq]

theorem c08_lorentz_unit_xy_eta_tau (x y eta tau : ℝ) (htau : 0 ≤ tau) :
    VS.lorentz_unit.xy_eta_tau x y eta tau = VR.lorentz_unit.xy_eta_tau x y eta tau := by
  simp only [VS.lorentz_unit.xy_eta_tau, VR.lorentz_unit.xy_eta_tau, htau, c08_copysign_nonneg zero_le_one htau, VR.P.nanToNum_eq]

theorem c08_lorentz_unit_xy_theta_tau (x y theta tau : ℝ) (htau : 0 ≤ tau) :
    VS.lorentz_unit.xy_theta_tau x y theta tau = VR.lorentz_unit.xy_theta_tau x y theta tau := by
  simp only [VS.lorentz_unit.xy_theta_tau, VR.lorentz_unit.xy_theta_tau, htau, c08_copysign_nonneg zero_le_one htau, VR.P.nanToNum_eq]

theorem c08_lorentz_unit_xy_z_tau (x y z tau : ℝ) (htau : 0 ≤ tau) :
    VS.lorentz_unit.xy_z_tau x y z tau = VR.lorentz_unit.xy_z_tau x y z tau := by
  simp only [VS.lorentz_unit.xy_z_tau, VR.lorentz_unit.xy_z_tau, htau, c08_copysign_nonneg zero_le_one htau, VR.P.nanToNum_eq]


/-! ### `planar_scale` -/

theorem c08_planar_scale_rhophi (factor rho phi : ℝ) :
    VS.planar_scale.rhophi factor rho phi = VR.planar_scale.rhophi factor rho phi := by
  simp only [VS.planar_scale.rhophi, VR.planar_scale.rhophi, VS.planar_scale.rectify_eq, VR.P.nanToNum_eq]


/-! ### `spatial_deltaangle` -/

theorem c08_spatial_deltaangle_rhophi_eta_rhophi_eta (rho1 phi1 eta1 rho2 phi2 eta2 : ℝ) (hlo : -1 ≤ VR.spatial_dot.rhophi_eta_rhophi_eta rho1 phi1 eta1 rho2 phi2 eta2 / VR.spatial_mag.rhophi_eta rho1 phi1 eta1 / VR.spatial_mag.rhophi_eta rho2 phi2 eta2) (hhi : VR.spatial_dot.rhophi_eta_rhophi_eta rho1 phi1 eta1 rho2 phi2 eta2 / VR.spatial_mag.rhophi_eta rho1 phi1 eta1 / VR.spatial_mag.rhophi_eta rho2 phi2 eta2 ≤ 1) :
    VS.spatial_deltaangle.rhophi_eta_rhophi_eta rho1 phi1 eta1 rho2 phi2 eta2 = VR.spatial_deltaangle.rhophi_eta_rhophi_eta rho1 phi1 eta1 rho2 phi2 eta2 := by
  simp only [VS.spatial_deltaangle.rhophi_eta_rhophi_eta, VR.spatial_deltaangle.rhophi_eta_rhophi_eta, VS.spatial_mag.rhophi_eta_eq, VS.spatial_dot.rhophi_eta_rhophi_eta_eq, hlo, hhi, c08_clamp hlo hhi, VR.P.nanToNum_eq]

theorem c08_spatial_deltaangle_rhophi_eta_rhophi_theta (rho1 phi1 eta1 rho2 phi2 theta2 : ℝ) (hlo : -1 ≤ VR.spatial_dot.rhophi_eta_rhophi_theta rho1 phi1 eta1 rho2 phi2 theta2 / VR.spatial_mag.rhophi_eta rho1 phi1 eta1 / VR.spatial_mag.rhophi_theta rho2 phi2 theta2) (hhi : VR.spatial_dot.rhophi_eta_rhophi_theta rho1 phi1 eta1 rho2 phi2 theta2 / VR.spatial_mag.rhophi_eta rho1 phi1 eta1 / VR.spatial_mag.rhophi_theta rho2 phi2 theta2 ≤ 1) :
    VS.spatial_deltaangle.rhophi_eta_rhophi_theta rho1 phi1 eta1 rho2 phi2 theta2 = VR.spatial_deltaangle.rhophi_eta_rhophi_theta rho1 phi1 eta1 rho2 phi2 theta2 := by
  simp only [VS.spatial_deltaangle.rhophi_eta_rhophi_theta, VR.spatial_deltaangle.rhophi_eta_rhophi_theta, VS.spatial_mag.rhophi_eta_eq, VS.spatial_mag.rhophi_theta_eq, VS.spatial_dot.rhophi_eta_rhophi_theta_eq, hlo, hhi, c08_clamp hlo hhi, VR.P.nanToNum_eq]

theorem c08_spatial_deltaangle_rhophi_eta_rhophi_z (rho1 phi1 eta1 rho2 phi2 z2 : ℝ) (hlo : -1 ≤ VR.spatial_dot.rhophi_eta_rhophi_z rho1 phi1 eta1 rho2 phi2 z2 / VR.spatial_mag.rhophi_eta rho1 phi1 eta1 / VR.spatial_mag.rhophi_z rho2 phi2 z2) (hhi : VR.spatial_dot.rhophi_eta_rhophi_z rho1 phi1 eta1 rho2 phi2 z2 / VR.spatial_mag.rhophi_eta rho1 phi1 eta1 / VR.spatial_mag.rhophi_z rho2 phi2 z2 ≤ 1) :
    VS.spatial_deltaangle.rhophi_eta_rhophi_z rho1 phi1 eta1 rho2 phi2 z2 = VR.spatial_deltaangle.rhophi_eta_rhophi_z rho1 phi1 eta1 rho2 phi2 z2 := by
  simp only [VS.spatial_deltaangle.rhophi_eta_rhophi_z, VR.spatial_deltaangle.rhophi_eta_rhophi_z, VS.spatial_mag.rhophi_eta_eq, VS.spatial_mag.rhophi_z_eq, VS.spatial_dot.rhophi_eta_rhophi_z_eq, hlo, hhi, c08_clamp hlo hhi, VR.P.nanToNum_eq]

theorem c08_spatial_deltaangle_rhophi_eta_xy_eta (rho1 phi1 eta1 x2 y2 eta2 : ℝ) (hlo : -1 ≤ VR.spatial_dot.rhophi_eta_xy_eta rho1 phi1 eta1 x2 y2 eta2 / VR.spatial_mag.rhophi_eta rho1 phi1 eta1 / VR.spatial_mag.xy_eta x2 y2 eta2) (hhi : VR.spatial_dot.rhophi_eta_xy_eta rho1 phi1 eta1 x2 y2 eta2 / VR.spatial_mag.rhophi_eta rho1 phi1 eta1 / VR.spatial_mag.xy_eta x2 y2 eta2 ≤ 1) :
    VS.spatial_deltaangle.rhophi_eta_xy_eta rho1 phi1 eta1 x2 y2 eta2 = VR.spatial_deltaangle.rhophi_eta_xy_eta rho1 phi1 eta1 x2 y2 eta2 := by
  simp only [VS.spatial_deltaangle.rhophi_eta_xy_eta, VR.spatial_deltaangle.rhophi_eta_xy_eta, VS.spatial_mag.rhophi_eta_eq, VS.spatial_mag.xy_eta_eq, VS.spatial_dot.rhophi_eta_xy_eta_eq, hlo, hhi, c08_clamp hlo hhi, VR.P.nanToNum_eq]

theorem c08_spatial_deltaangle_rhophi_eta_xy_theta (rho1 phi1 eta1 x2 y2 theta2 : ℝ) (hlo : -1 ≤ VR.spatial_dot.rhophi_eta_xy_theta rho1 phi1 eta1 x2 y2 theta2 / VR.spatial_mag.rhophi_eta rho1 phi1 eta1 / VR.spatial_mag.xy_theta x2 y2 theta2) (hhi : VR.spatial_dot.rhophi_eta_xy_theta rho1 phi1 eta1 x2 y2 theta2 / VR.spatial_mag.rhophi_eta rho1 phi1 eta1 / VR.spatial_mag.xy_theta x2 y2 theta2 ≤ 1) :
    VS.spatial_deltaangle.rhophi_eta_xy_theta rho1 phi1 eta1 x2 y2 theta2 = VR.spatial_deltaangle.rhophi_eta_xy_theta rho1 phi1 eta1 x2 y2 theta2 := by
  simp only [VS.spatial_deltaangle.rhophi_eta_xy_theta, VR.spatial_deltaangle.rhophi_eta_xy_theta, VS.spatial_mag.rhophi_eta_eq, VS.spatial_mag.xy_theta_eq, VS.spatial_dot.rhophi_eta_xy_theta_eq, hlo, hhi, c08_clamp hlo hhi, VR.P.nanToNum_eq]

theorem c08_spatial_deltaangle_rhophi_eta_xy_z (rho1 phi1 eta1 x2 y2 z2 : ℝ) (hlo : -1 ≤ VR.spatial_dot.rhophi_eta_xy_z rho1 phi1 eta1 x2 y2 z2 / VR.spatial_mag.rhophi_eta rho1 phi1 eta1 / VR.spatial_mag.xy_z x2 y2 z2) (hhi : VR.spatial_dot.rhophi_eta_xy_z rho1 phi1 eta1 x2 y2 z2 / VR.spatial_mag.rhophi_eta rho1 phi1 eta1 / VR.spatial_mag.xy_z x2 y2 z2 ≤ 1) :
    VS.spatial_deltaangle.rhophi_eta_xy_z rho1 phi1 eta1 x2 y2 z2 = VR.spatial_deltaangle.rhophi_eta_xy_z rho1 phi1 eta1 x2 y2 z2 := by
  simp only [VS.spatial_deltaangle.rhophi_eta_xy_z, VR.spatial_deltaangle.rhophi_eta_xy_z, VS.spatial_mag.rhophi_eta_eq, VS.spatial_mag.xy_z_eq, VS.spatial_dot.rhophi_eta_xy_z_eq, hlo, hhi, c08_clamp hlo hhi, VR.P.nanToNum_eq]

theorem c08_spatial_deltaangle_rhophi_theta_rhophi_eta (rho1 phi1 theta1 rho2 phi2 eta2 : ℝ) (hlo : -1 ≤ VR.spatial_dot.rhophi_theta_rhophi_eta rho1 phi1 theta1 rho2 phi2 eta2 / VR.spatial_mag.rhophi_theta rho1 phi1 theta1 / VR.spatial_mag.rhophi_eta rho2 phi2 eta2) (hhi : VR.spatial_dot.rhophi_theta_rhophi_eta rho1 phi1 theta1 rho2 phi2 eta2 / VR.spatial_mag.rhophi_theta rho1 phi1 theta1 / VR.spatial_mag.rhophi_eta rho2 phi2 eta2 ≤ 1) :
    VS.spatial_deltaangle.rhophi_theta_rhophi_eta rho1 phi1 theta1 rho2 phi2 eta2 = VR.spatial_deltaangle.rhophi_theta_rhophi_eta rho1 phi1 theta1 rho2 phi2 eta2 := by
  simp only [VS.spatial_deltaangle.rhophi_theta_rhophi_eta, VR.spatial_deltaangle.rhophi_theta_rhophi_eta, VS.spatial_mag.rhophi_theta_eq, VS.spatial_mag.rhophi_eta_eq, VS.spatial_dot.rhophi_theta_rhophi_eta_eq, hlo, hhi, c08_clamp hlo hhi, VR.P.nanToNum_eq]

theorem c08_spatial_deltaangle_rhophi_theta_rhophi_theta (rho1 phi1 theta1 rho2 phi2 theta2 : ℝ) (hlo : -1 ≤ VR.spatial_dot.rhophi_theta_rhophi_theta rho1 phi1 theta1 rho2 phi2 theta2 / VR.spatial_mag.rhophi_theta rho1 phi1 theta1 / VR.spatial_mag.rhophi_theta rho2 phi2 theta2) (hhi : VR.spatial_dot.rhophi_theta_rhophi_theta rho1 phi1 theta1 rho2 phi2 theta2 / VR.spatial_mag.rhophi_theta rho1 phi1 theta1 / VR.spatial_mag.rhophi_theta rho2 phi2 theta2 ≤ 1) :
    VS.spatial_deltaangle.rhophi_theta_rhophi_theta rho1 phi1 theta1 rho2 phi2 theta2 = VR.spatial_deltaangle.rhophi_theta_rhophi_theta rho1 phi1 theta1 rho2 phi2 theta2 := by
  simp only [VS.spatial_deltaangle.rhophi_theta_rhophi_theta, VR.spatial_deltaangle.rhophi_theta_rhophi_theta, VS.spatial_mag.rhophi_theta_eq, VS.spatial_dot.rhophi_theta_rhophi_theta_eq, hlo, hhi, c08_clamp hlo hhi, VR.P.nanToNum_eq]

theorem c08_spatial_deltaangle_rhophi_theta_rhophi_z (rho1 phi1 theta1 rho2 phi2 z2 : ℝ) (hlo : -1 ≤ VR.spatial_dot.rhophi_theta_rhophi_z rho1 phi1 theta1 rho2 phi2 z2 / VR.spatial_mag.rhophi_theta rho1 phi1 theta1 / VR.spatial_mag.rhophi_z rho2 phi2 z2) (hhi : VR.spatial_dot.rhophi_theta_rhophi_z rho1 phi1 theta1 rho2 phi2 z2 / VR.spatial_mag.rhophi_theta rho1 phi1 theta1 / VR.spatial_mag.rhophi_z rho2 phi2 z2 ≤ 1) :
    VS.spatial_deltaangle.rhophi_theta_rhophi_z rho1 phi1 theta1 rho2 phi2 z2 = VR.spatial_deltaangle.rhophi_theta_rhophi_z rho1 phi1 theta1 rho2 phi2 z2 := by
  simp only [VS.spatial_deltaangle.rhophi_theta_rhophi_z, VR.spatial_deltaangle.rhophi_theta_rhophi_z, VS.spatial_mag.rhophi_theta_eq, VS.spatial_mag.rhophi_z_eq, VS.spatial_dot.rhophi_theta_rhophi_z_eq, hlo, hhi, c08_clamp hlo hhi, VR.P.nanToNum_eq]

theorem c08_spatial_deltaangle_rhophi_theta_xy_eta (rho1 phi1 theta1 x2 y2 eta2 : ℝ) (hlo : -1 ≤ VR.spatial_dot.rhophi_theta_xy_eta rho1 phi1 theta1 x2 y2 eta2 / VR.spatial_mag.rhophi_theta rho1 phi1 theta1 / VR.spatial_mag.xy_eta x2 y2 eta2) (hhi : VR.spatial_dot.rhophi_theta_xy_eta rho1 phi1 theta1 x2 y2 eta2 / VR.spatial_mag.rhophi_theta rho1 phi1 theta1 / VR.spatial_mag.xy_eta x2 y2 eta2 ≤ 1) :
    VS.spatial_deltaangle.rhophi_theta_xy_eta rho1 phi1 theta1 x2 y2 eta2 = VR.spatial_deltaangle.rhophi_theta_xy_eta rho1 phi1 theta1 x2 y2 eta2 := by
  simp only [VS.spatial_deltaangle.rhophi_theta_xy_eta, VR.spatial_deltaangle.rhophi_theta_xy_eta, VS.spatial_mag.rhophi_theta_eq, VS.spatial_mag.xy_eta_eq, VS.spatial_dot.rhophi_theta_xy_eta_eq, hlo, hhi, c08_clamp hlo hhi, VR.P.nanToNum_eq]

theorem c08_spatial_deltaangle_rhophi_theta_xy_theta (rho1 phi1 theta1 x2 y2 theta2 : ℝ) (hlo : -1 ≤ VR.spatial_dot.rhophi_theta_xy_theta rho1 phi1 theta1 x2 y2 theta2 / VR.spatial_mag.rhophi_theta rho1 phi1 theta1 / VR.spatial_mag.xy_theta x2 y2 theta2) (hhi : VR.spatial_dot.rhophi_theta_xy_theta rho1 phi1 theta1 x2 y2 theta2 / VR.spatial_mag.rhophi_theta rho1 phi1 theta1 / VR.spatial_mag.xy_theta x2 y2 theta2 ≤ 1) :
    VS.spatial_deltaangle.rhophi_theta_xy_theta rho1 phi1 theta1 x2 y2 theta2 = VR.spatial_deltaangle.rhophi_theta_xy_theta rho1 phi1 theta1 x2 y2 theta2 := by
  simp only [VS.spatial_deltaangle.rhophi_theta_xy_theta, VR.spatial_deltaangle.rhophi_theta_xy_theta, VS.spatial_mag.rhophi_theta_eq, VS.spatial_mag.xy_theta_eq, VS.spatial_dot.rhophi_theta_xy_theta_eq, hlo, hhi, c08_clamp hlo hhi, VR.P.nanToNum_eq]

theorem c08_spatial_deltaangle_rhophi_theta_xy_z (rho1 phi1 theta1 x2 y2 z2 : ℝ) (hlo : -1 ≤ VR.spatial_dot.rhophi_theta_xy_z rho1 phi1 theta1 x2 y2 z2 / VR.spatial_mag.rhophi_theta rho1 phi1 theta1 / VR.spatial_mag.xy_z x2 y2 z2) (hhi : VR.spatial_dot.rhophi_theta_xy_z rho1 phi1 theta1 x2 y2 z2 / VR.spatial_mag.rhophi_theta rho1 phi1 theta1 / VR.spatial_mag.xy_z x2 y2 z2 ≤ 1) :
    VS.spatial_deltaangle.rhophi_theta_xy_z rho1 phi1 theta1 x2 y2 z2 = VR.spatial_deltaangle.rhophi_theta_xy_z rho1 phi1 theta1 x2 y2 z2 := by
  simp only [VS.spatial_deltaangle.rhophi_theta_xy_z, VR.spatial_deltaangle.rhophi_theta_xy_z, VS.spatial_mag.rhophi_theta_eq, VS.spatial_mag.xy_z_eq, VS.spatial_dot.rhophi_theta_xy_z_eq, hlo, hhi, c08_clamp hlo hhi, VR.P.nanToNum_eq]

theorem c08_spatial_deltaangle_rhophi_z_rhophi_eta (rho1 phi1 z1 rho2 phi2 eta2 : ℝ) (hlo : -1 ≤ VR.spatial_dot.rhophi_z_rhophi_eta rho1 phi1 z1 rho2 phi2 eta2 / VR.spatial_mag.rhophi_z rho1 phi1 z1 / VR.spatial_mag.rhophi_eta rho2 phi2 eta2) (hhi : VR.spatial_dot.rhophi_z_rhophi_eta rho1 phi1 z1 rho2 phi2 eta2 / VR.spatial_mag.rhophi_z rho1 phi1 z1 / VR.spatial_mag.rhophi_eta rho2 phi2 eta2 ≤ 1) :
    VS.spatial_deltaangle.rhophi_z_rhophi_eta rho1 phi1 z1 rho2 phi2 eta2 = VR.spatial_deltaangle.rhophi_z_rhophi_eta rho1 phi1 z1 rho2 phi2 eta2 := by
  simp only [VS.spatial_deltaangle.rhophi_z_rhophi_eta, VR.spatial_deltaangle.rhophi_z_rhophi_eta, VS.spatial_mag.rhophi_z_eq, VS.spatial_mag.rhophi_eta_eq, VS.spatial_dot.rhophi_z_rhophi_eta_eq, hlo, hhi, c08_clamp hlo hhi, VR.P.nanToNum_eq]

theorem c08_spatial_deltaangle_rhophi_z_rhophi_theta (rho1 phi1 z1 rho2 phi2 theta2 : ℝ) (hlo : -1 ≤ VR.spatial_dot.rhophi_z_rhophi_theta rho1 phi1 z1 rho2 phi2 theta2 / VR.spatial_mag.rhophi_z rho1 phi1 z1 / VR.spatial_mag.rhophi_theta rho2 phi2 theta2) (hhi : VR.spatial_dot.rhophi_z_rhophi_theta rho1 phi1 z1 rho2 phi2 theta2 / VR.spatial_mag.rhophi_z rho1 phi1 z1 / VR.spatial_mag.rhophi_theta rho2 phi2 theta2 ≤ 1) :
    VS.spatial_deltaangle.rhophi_z_rhophi_theta rho1 phi1 z1 rho2 phi2 theta2 = VR.spatial_deltaangle.rhophi_z_rhophi_theta rho1 phi1 z1 rho2 phi2 theta2 := by
  simp only [VS.spatial_deltaangle.rhophi_z_rhophi_theta, VR.spatial_deltaangle.rhophi_z_rhophi_theta, VS.spatial_mag.rhophi_z_eq, VS.spatial_mag.rhophi_theta_eq, VS.spatial_dot.rhophi_z_rhophi_theta_eq, hlo, hhi, c08_clamp hlo hhi, VR.P.nanToNum_eq]

theorem c08_spatial_deltaangle_rhophi_z_rhophi_z (rho1 phi1 z1 rho2 phi2 z2 : ℝ) (hlo : -1 ≤ VR.spatial_dot.rhophi_z_rhophi_z rho1 phi1 z1 rho2 phi2 z2 / VR.spatial_mag.rhophi_z rho1 phi1 z1 / VR.spatial_mag.rhophi_z rho2 phi2 z2) (hhi : VR.spatial_dot.rhophi_z_rhophi_z rho1 phi1 z1 rho2 phi2 z2 / VR.spatial_mag.rhophi_z rho1 phi1 z1 / VR.spatial_mag.rhophi_z rho2 phi2 z2 ≤ 1) :
    VS.spatial_deltaangle.rhophi_z_rhophi_z rho1 phi1 z1 rho2 phi2 z2 = VR.spatial_deltaangle.rhophi_z_rhophi_z rho1 phi1 z1 rho2 phi2 z2 := by
  simp only [VS.spatial_deltaangle.rhophi_z_rhophi_z, VR.spatial_deltaangle.rhophi_z_rhophi_z, VS.spatial_mag.rhophi_z_eq, VS.spatial_dot.rhophi_z_rhophi_z_eq, hlo, hhi, c08_clamp hlo hhi, VR.P.nanToNum_eq]

theorem c08_spatial_deltaangle_rhophi_z_xy_eta (rho1 phi1 z1 x2 y2 eta2 : ℝ) (hlo : -1 ≤ VR.spatial_dot.rhophi_z_xy_eta rho1 phi1 z1 x2 y2 eta2 / VR.spatial_mag.rhophi_z rho1 phi1 z1 / VR.spatial_mag.xy_eta x2 y2 eta2) (hhi : VR.spatial_dot.rhophi_z_xy_eta rho1 phi1 z1 x2 y2 eta2 / VR.spatial_mag.rhophi_z rho1 phi1 z1 / VR.spatial_mag.xy_eta x2 y2 eta2 ≤ 1) :
    VS.spatial_deltaangle.rhophi_z_xy_eta rho1 phi1 z1 x2 y2 eta2 = VR.spatial_deltaangle.rhophi_z_xy_eta rho1 phi1 z1 x2 y2 eta2 := by
  simp only [VS.spatial_deltaangle.rhophi_z_xy_eta, VR.spatial_deltaangle.rhophi_z_xy_eta, VS.spatial_mag.rhophi_z_eq, VS.spatial_mag.xy_eta_eq, VS.spatial_dot.rhophi_z_xy_eta_eq, hlo, hhi, c08_clamp hlo hhi, VR.P.nanToNum_eq]

theorem c08_spatial_deltaangle_rhophi_z_xy_theta (rho1 phi1 z1 x2 y2 theta2 : ℝ) (hlo : -1 ≤ VR.spatial_dot.rhophi_z_xy_theta rho1 phi1 z1 x2 y2 theta2 / VR.spatial_mag.rhophi_z rho1 phi1 z1 / VR.spatial_mag.xy_theta x2 y2 theta2) (hhi : VR.spatial_dot.rhophi_z_xy_theta rho1 phi1 z1 x2 y2 theta2 / VR.spatial_mag.rhophi_z rho1 phi1 z1 / VR.spatial_mag.xy_theta x2 y2 theta2 ≤ 1) :
    VS.spatial_deltaangle.rhophi_z_xy_theta rho1 phi1 z1 x2 y2 theta2 = VR.spatial_deltaangle.rhophi_z_xy_theta rho1 phi1 z1 x2 y2 theta2 := by
  simp only [VS.spatial_deltaangle.rhophi_z_xy_theta, VR.spatial_deltaangle.rhophi_z_xy_theta, VS.spatial_mag.rhophi_z_eq, VS.spatial_mag.xy_theta_eq, VS.spatial_dot.rhophi_z_xy_theta_eq, hlo, hhi, c08_clamp hlo hhi, VR.P.nanToNum_eq]

theorem c08_spatial_deltaangle_rhophi_z_xy_z (rho1 phi1 z1 x2 y2 z2 : ℝ) (hlo : -1 ≤ VR.spatial_dot.rhophi_z_xy_z rho1 phi1 z1 x2 y2 z2 / VR.spatial_mag.rhophi_z rho1 phi1 z1 / VR.spatial_mag.xy_z x2 y2 z2) (hhi : VR.spatial_dot.rhophi_z_xy_z rho1 phi1 z1 x2 y2 z2 / VR.spatial_mag.rhophi_z rho1 phi1 z1 / VR.spatial_mag.xy_z x2 y2 z2 ≤ 1) :
    VS.spatial_deltaangle.rhophi_z_xy_z rho1 phi1 z1 x2 y2 z2 = VR.spatial_deltaangle.rhophi_z_xy_z rho1 phi1 z1 x2 y2 z2 := by
  simp only [VS.spatial_deltaangle.rhophi_z_xy_z, VR.spatial_deltaangle.rhophi_z_xy_z, VS.spatial_mag.rhophi_z_eq, VS.spatial_mag.xy_z_eq, VS.spatial_dot.rhophi_z_xy_z_eq, hlo, hhi, c08_clamp hlo hhi, VR.P.nanToNum_eq]

theorem c08_spatial_deltaangle_xy_eta_rhophi_eta (x1 y1 eta1 rho2 phi2 eta2 : ℝ) (hlo : -1 ≤ VR.spatial_dot.xy_eta_rhophi_eta x1 y1 eta1 rho2 phi2 eta2 / VR.spatial_mag.xy_eta x1 y1 eta1 / VR.spatial_mag.rhophi_eta rho2 phi2 eta2) (hhi : VR.spatial_dot.xy_eta_rhophi_eta x1 y1 eta1 rho2 phi2 eta2 / VR.spatial_mag.xy_eta x1 y1 eta1 / VR.spatial_mag.rhophi_eta rho2 phi2 eta2 ≤ 1) :
    VS.spatial_deltaangle.xy_eta_rhophi_eta x1 y1 eta1 rho2 phi2 eta2 = VR.spatial_deltaangle.xy_eta_rhophi_eta x1 y1 eta1 rho2 phi2 eta2 := by
  simp only [VS.spatial_deltaangle.xy_eta_rhophi_eta, VR.spatial_deltaangle.xy_eta_rhophi_eta, VS.spatial_mag.xy_eta_eq, VS.spatial_mag.rhophi_eta_eq, VS.spatial_dot.xy_eta_rhophi_eta_eq, hlo, hhi, c08_clamp hlo hhi, VR.P.nanToNum_eq]

theorem c08_spatial_deltaangle_xy_eta_rhophi_theta (x1 y1 eta1 rho2 phi2 theta2 : ℝ) (hlo : -1 ≤ VR.spatial_dot.xy_eta_rhophi_theta x1 y1 eta1 rho2 phi2 theta2 / VR.spatial_mag.xy_eta x1 y1 eta1 / VR.spatial_mag.rhophi_theta rho2 phi2 theta2) (hhi : VR.spatial_dot.xy_eta_rhophi_theta x1 y1 eta1 rho2 phi2 theta2 / VR.spatial_mag.xy_eta x1 y1 eta1 / VR.spatial_mag.rhophi_theta rho2 phi2 theta2 ≤ 1) :
    VS.spatial_deltaangle.xy_eta_rhophi_theta x1 y1 eta1 rho2 phi2 theta2 = VR.spatial_deltaangle.xy_eta_rhophi_theta x1 y1 eta1 rho2 phi2 theta2 := by
  simp only [VS.spatial_deltaangle.xy_eta_rhophi_theta, VR.spatial_deltaangle.xy_eta_rhophi_theta, VS.spatial_mag.xy_eta_eq, VS.spatial_mag.rhophi_theta_eq, VS.spatial_dot.xy_eta_rhophi_theta_eq, hlo, hhi, c08_clamp hlo hhi, VR.P.nanToNum_eq]

theorem c08_spatial_deltaangle_xy_eta_rhophi_z (x1 y1 eta1 rho2 phi2 z2 : ℝ) (hlo : -1 ≤ VR.spatial_dot.xy_eta_rhophi_z x1 y1 eta1 rho2 phi2 z2 / VR.spatial_mag.xy_eta x1 y1 eta1 / VR.spatial_mag.rhophi_z rho2 phi2 z2) (hhi : VR.spatial_dot.xy_eta_rhophi_z x1 y1 eta1 rho2 phi2 z2 / VR.spatial_mag.xy_eta x1 y1 eta1 / VR.spatial_mag.rhophi_z rho2 phi2 z2 ≤ 1) :
    VS.spatial_deltaangle.xy_eta_rhophi_z x1 y1 eta1 rho2 phi2 z2 = VR.spatial_deltaangle.xy_eta_rhophi_z x1 y1 eta1 rho2 phi2 z2 := by
  simp only [VS.spatial_deltaangle.xy_eta_rhophi_z, VR.spatial_deltaangle.xy_eta_rhophi_z, VS.spatial_mag.xy_eta_eq, VS.spatial_mag.rhophi_z_eq, VS.spatial_dot.xy_eta_rhophi_z_eq, hlo, hhi, c08_clamp hlo hhi, VR.P.nanToNum_eq]

theorem c08_spatial_deltaangle_xy_eta_xy_eta (x1 y1 eta1 x2 y2 eta2 : ℝ) (hlo : -1 ≤ VR.spatial_dot.xy_eta_xy_eta x1 y1 eta1 x2 y2 eta2 / VR.spatial_mag.xy_eta x1 y1 eta1 / VR.spatial_mag.xy_eta x2 y2 eta2) (hhi : VR.spatial_dot.xy_eta_xy_eta x1 y1 eta1 x2 y2 eta2 / VR.spatial_mag.xy_eta x1 y1 eta1 / VR.spatial_mag.xy_eta x2 y2 eta2 ≤ 1) :
    VS.spatial_deltaangle.xy_eta_xy_eta x1 y1 eta1 x2 y2 eta2 = VR.spatial_deltaangle.xy_eta_xy_eta x1 y1 eta1 x2 y2 eta2 := by
  simp only [VS.spatial_deltaangle.xy_eta_xy_eta, VR.spatial_deltaangle.xy_eta_xy_eta, VS.spatial_mag.xy_eta_eq, VS.spatial_dot.xy_eta_xy_eta_eq, hlo, hhi, c08_clamp hlo hhi, VR.P.nanToNum_eq]

theorem c08_spatial_deltaangle_xy_eta_xy_theta (x1 y1 eta1 x2 y2 theta2 : ℝ) (hlo : -1 ≤ VR.spatial_dot.xy_eta_xy_theta x1 y1 eta1 x2 y2 theta2 / VR.spatial_mag.xy_eta x1 y1 eta1 / VR.spatial_mag.xy_theta x2 y2 theta2) (hhi : VR.spatial_dot.xy_eta_xy_theta x1 y1 eta1 x2 y2 theta2 / VR.spatial_mag.xy_eta x1 y1 eta1 / VR.spatial_mag.xy_theta x2 y2 theta2 ≤ 1) :
    VS.spatial_deltaangle.xy_eta_xy_theta x1 y1 eta1 x2 y2 theta2 = VR.spatial_deltaangle.xy_eta_xy_theta x1 y1 eta1 x2 y2 theta2 := by
  simp only [VS.spatial_deltaangle.xy_eta_xy_theta, VR.spatial_deltaangle.xy_eta_xy_theta, VS.spatial_mag.xy_eta_eq, VS.spatial_mag.xy_theta_eq, VS.spatial_dot.xy_eta_xy_theta_eq, hlo, hhi, c08_clamp hlo hhi, VR.P.nanToNum_eq]

theorem c08_spatial_deltaangle_xy_eta_xy_z (x1 y1 eta1 x2 y2 z2 : ℝ) (hlo : -1 ≤ VR.spatial_dot.xy_eta_xy_z x1 y1 eta1 x2 y2 z2 / VR.spatial_mag.xy_eta x1 y1 eta1 / VR.spatial_mag.xy_z x2 y2 z2) (hhi : VR.spatial_dot.xy_eta_xy_z x1 y1 eta1 x2 y2 z2 / VR.spatial_mag.xy_eta x1 y1 eta1 / VR.spatial_mag.xy_z x2 y2 z2 ≤ 1) :
    VS.spatial_deltaangle.xy_eta_xy_z x1 y1 eta1 x2 y2 z2 = VR.spatial_deltaangle.xy_eta_xy_z x1 y1 eta1 x2 y2 z2 := by
  simp only [VS.spatial_deltaangle.xy_eta_xy_z, VR.spatial_deltaangle.xy_eta_xy_z, VS.spatial_mag.xy_eta_eq, VS.spatial_mag.xy_z_eq, VS.spatial_dot.xy_eta_xy_z_eq, hlo, hhi, c08_clamp hlo hhi, VR.P.nanToNum_eq]

theorem c08_spatial_deltaangle_xy_theta_rhophi_eta (x1 y1 theta1 rho2 phi2 eta2 : ℝ) (hlo : -1 ≤ VR.spatial_dot.xy_theta_rhophi_eta x1 y1 theta1 rho2 phi2 eta2 / VR.spatial_mag.xy_theta x1 y1 theta1 / VR.spatial_mag.rhophi_eta rho2 phi2 eta2) (hhi : VR.spatial_dot.xy_theta_rhophi_eta x1 y1 theta1 rho2 phi2 eta2 / VR.spatial_mag.xy_theta x1 y1 theta1 / VR.spatial_mag.rhophi_eta rho2 phi2 eta2 ≤ 1) :
    VS.spatial_deltaangle.xy_theta_rhophi_eta x1 y1 theta1 rho2 phi2 eta2 = VR.spatial_deltaangle.xy_theta_rhophi_eta x1 y1 theta1 rho2 phi2 eta2 := by
  simp only [VS.spatial_deltaangle.xy_theta_rhophi_eta, VR.spatial_deltaangle.xy_theta_rhophi_eta, VS.spatial_mag.xy_theta_eq, VS.spatial_mag.rhophi_eta_eq, VS.spatial_dot.xy_theta_rhophi_eta_eq, hlo, hhi, c08_clamp hlo hhi, VR.P.nanToNum_eq]

theorem c08_spatial_deltaangle_xy_theta_rhophi_theta (x1 y1 theta1 rho2 phi2 theta2 : ℝ) (hlo : -1 ≤ VR.spatial_dot.xy_theta_rhophi_theta x1 y1 theta1 rho2 phi2 theta2 / VR.spatial_mag.xy_theta x1 y1 theta1 / VR.spatial_mag.rhophi_theta rho2 phi2 theta2) (hhi : VR.spatial_dot.xy_theta_rhophi_theta x1 y1 theta1 rho2 phi2 theta2 / VR.spatial_mag.xy_theta x1 y1 theta1 / VR.spatial_mag.rhophi_theta rho2 phi2 theta2 ≤ 1) :
    VS.spatial_deltaangle.xy_theta_rhophi_theta x1 y1 theta1 rho2 phi2 theta2 = VR.spatial_deltaangle.xy_theta_rhophi_theta x1 y1 theta1 rho2 phi2 theta2 := by
  simp only [VS.spatial_deltaangle.xy_theta_rhophi_theta, VR.spatial_deltaangle.xy_theta_rhophi_theta, VS.spatial_mag.xy_theta_eq, VS.spatial_mag.rhophi_theta_eq, VS.spatial_dot.xy_theta_rhophi_theta_eq, hlo, hhi, c08_clamp hlo hhi, VR.P.nanToNum_eq]

theorem c08_spatial_deltaangle_xy_theta_rhophi_z (x1 y1 theta1 rho2 phi2 z2 : ℝ) (hlo : -1 ≤ VR.spatial_dot.xy_theta_rhophi_z x1 y1 theta1 rho2 phi2 z2 / VR.spatial_mag.xy_theta x1 y1 theta1 / VR.spatial_mag.rhophi_z rho2 phi2 z2) (hhi : VR.spatial_dot.xy_theta_rhophi_z x1 y1 theta1 rho2 phi2 z2 / VR.spatial_mag.xy_theta x1 y1 theta1 / VR.spatial_mag.rhophi_z rho2 phi2 z2 ≤ 1) :
    VS.spatial_deltaangle.xy_theta_rhophi_z x1 y1 theta1 rho2 phi2 z2 = VR.spatial_deltaangle.xy_theta_rhophi_z x1 y1 theta1 rho2 phi2 z2 := by
  simp only [VS.spatial_deltaangle.xy_theta_rhophi_z, VR.spatial_deltaangle.xy_theta_rhophi_z, VS.spatial_mag.xy_theta_eq, VS.spatial_mag.rhophi_z_eq, VS.spatial_dot.xy_theta_rhophi_z_eq, hlo, hhi, c08_clamp hlo hhi, VR.P.nanToNum_eq]

theorem c08_spatial_deltaangle_xy_theta_xy_eta (x1 y1 theta1 x2 y2 eta2 : ℝ) (hlo : -1 ≤ VR.spatial_dot.xy_theta_xy_eta x1 y1 theta1 x2 y2 eta2 / VR.spatial_mag.xy_theta x1 y1 theta1 / VR.spatial_mag.xy_eta x2 y2 eta2) (hhi : VR.spatial_dot.xy_theta_xy_eta x1 y1 theta1 x2 y2 eta2 / VR.spatial_mag.xy_theta x1 y1 theta1 / VR.spatial_mag.xy_eta x2 y2 eta2 ≤ 1) :
    VS.spatial_deltaangle.xy_theta_xy_eta x1 y1 theta1 x2 y2 eta2 = VR.spatial_deltaangle.xy_theta_xy_eta x1 y1 theta1 x2 y2 eta2 := by
  simp only [VS.spatial_deltaangle.xy_theta_xy_eta, VR.spatial_deltaangle.xy_theta_xy_eta, VS.spatial_mag.xy_theta_eq, VS.spatial_mag.xy_eta_eq, VS.spatial_dot.xy_theta_xy_eta_eq, hlo, hhi, c08_clamp hlo hhi, VR.P.nanToNum_eq]

theorem c08_spatial_deltaangle_xy_theta_xy_theta (x1 y1 theta1 x2 y2 theta2 : ℝ) (hlo : -1 ≤ VR.spatial_dot.xy_theta_xy_theta x1 y1 theta1 x2 y2 theta2 / VR.spatial_mag.xy_theta x1 y1 theta1 / VR.spatial_mag.xy_theta x2 y2 theta2) (hhi : VR.spatial_dot.xy_theta_xy_theta x1 y1 theta1 x2 y2 theta2 / VR.spatial_mag.xy_theta x1 y1 theta1 / VR.spatial_mag.xy_theta x2 y2 theta2 ≤ 1) :
    VS.spatial_deltaangle.xy_theta_xy_theta x1 y1 theta1 x2 y2 theta2 = VR.spatial_deltaangle.xy_theta_xy_theta x1 y1 theta1 x2 y2 theta2 := by
  simp only [VS.spatial_deltaangle.xy_theta_xy_theta, VR.spatial_deltaangle.xy_theta_xy_theta, VS.spatial_mag.xy_theta_eq, VS.spatial_dot.xy_theta_xy_theta_eq, hlo, hhi, c08_clamp hlo hhi, VR.P.nanToNum_eq]

theorem c08_spatial_deltaangle_xy_theta_xy_z (x1 y1 theta1 x2 y2 z2 : ℝ) (hlo : -1 ≤ VR.spatial_dot.xy_theta_xy_z x1 y1 theta1 x2 y2 z2 / VR.spatial_mag.xy_theta x1 y1 theta1 / VR.spatial_mag.xy_z x2 y2 z2) (hhi : VR.spatial_dot.xy_theta_xy_z x1 y1 theta1 x2 y2 z2 / VR.spatial_mag.xy_theta x1 y1 theta1 / VR.spatial_mag.xy_z x2 y2 z2 ≤ 1) :
    VS.spatial_deltaangle.xy_theta_xy_z x1 y1 theta1 x2 y2 z2 = VR.spatial_deltaangle.xy_theta_xy_z x1 y1 theta1 x2 y2 z2 := by
  simp only [VS.spatial_deltaangle.xy_theta_xy_z, VR.spatial_deltaangle.xy_theta_xy_z, VS.spatial_mag.xy_theta_eq, VS.spatial_mag.xy_z_eq, VS.spatial_dot.xy_theta_xy_z_eq, hlo, hhi, c08_clamp hlo hhi, VR.P.nanToNum_eq]

theorem c08_spatial_deltaangle_xy_z_rhophi_eta (x1 y1 z1 rho2 phi2 eta2 : ℝ) (hlo : -1 ≤ VR.spatial_dot.xy_z_rhophi_eta x1 y1 z1 rho2 phi2 eta2 / VR.spatial_mag.xy_z x1 y1 z1 / VR.spatial_mag.rhophi_eta rho2 phi2 eta2) (hhi : VR.spatial_dot.xy_z_rhophi_eta x1 y1 z1 rho2 phi2 eta2 / VR.spatial_mag.xy_z x1 y1 z1 / VR.spatial_mag.rhophi_eta rho2 phi2 eta2 ≤ 1) :
    VS.spatial_deltaangle.xy_z_rhophi_eta x1 y1 z1 rho2 phi2 eta2 = VR.spatial_deltaangle.xy_z_rhophi_eta x1 y1 z1 rho2 phi2 eta2 := by
  simp only [VS.spatial_deltaangle.xy_z_rhophi_eta, VR.spatial_deltaangle.xy_z_rhophi_eta, VS.spatial_mag.xy_z_eq, VS.spatial_mag.rhophi_eta_eq, VS.spatial_dot.xy_z_rhophi_eta_eq, hlo, hhi, c08_clamp hlo hhi, VR.P.nanToNum_eq]

theorem c08_spatial_deltaangle_xy_z_rhophi_theta (x1 y1 z1 rho2 phi2 theta2 : ℝ) (hlo : -1 ≤ VR.spatial_dot.xy_z_rhophi_theta x1 y1 z1 rho2 phi2 theta2 / VR.spatial_mag.xy_z x1 y1 z1 / VR.spatial_mag.rhophi_theta rho2 phi2 theta2) (hhi : VR.spatial_dot.xy_z_rhophi_theta x1 y1 z1 rho2 phi2 theta2 / VR.spatial_mag.xy_z x1 y1 z1 / VR.spatial_mag.rhophi_theta rho2 phi2 theta2 ≤ 1) :
    VS.spatial_deltaangle.xy_z_rhophi_theta x1 y1 z1 rho2 phi2 theta2 = VR.spatial_deltaangle.xy_z_rhophi_theta x1 y1 z1 rho2 phi2 theta2 := by
  simp only [VS.spatial_deltaangle.xy_z_rhophi_theta, VR.spatial_deltaangle.xy_z_rhophi_theta, VS.spatial_mag.xy_z_eq, VS.spatial_mag.rhophi_theta_eq, VS.spatial_dot.xy_z_rhophi_theta_eq, hlo, hhi, c08_clamp hlo hhi, VR.P.nanToNum_eq]

theorem c08_spatial_deltaangle_xy_z_rhophi_z (x1 y1 z1 rho2 phi2 z2 : ℝ) (hlo : -1 ≤ VR.spatial_dot.xy_z_rhophi_z x1 y1 z1 rho2 phi2 z2 / VR.spatial_mag.xy_z x1 y1 z1 / VR.spatial_mag.rhophi_z rho2 phi2 z2) (hhi : VR.spatial_dot.xy_z_rhophi_z x1 y1 z1 rho2 phi2 z2 / VR.spatial_mag.xy_z x1 y1 z1 / VR.spatial_mag.rhophi_z rho2 phi2 z2 ≤ 1) :
    VS.spatial_deltaangle.xy_z_rhophi_z x1 y1 z1 rho2 phi2 z2 = VR.spatial_deltaangle.xy_z_rhophi_z x1 y1 z1 rho2 phi2 z2 := by
  simp only [VS.spatial_deltaangle.xy_z_rhophi_z, VR.spatial_deltaangle.xy_z_rhophi_z, VS.spatial_mag.xy_z_eq, VS.spatial_mag.rhophi_z_eq, VS.spatial_dot.xy_z_rhophi_z_eq, hlo, hhi, c08_clamp hlo hhi, VR.P.nanToNum_eq]

theorem c08_spatial_deltaangle_xy_z_xy_eta (x1 y1 z1 x2 y2 eta2 : ℝ) (hlo : -1 ≤ VR.spatial_dot.xy_z_xy_eta x1 y1 z1 x2 y2 eta2 / VR.spatial_mag.xy_z x1 y1 z1 / VR.spatial_mag.xy_eta x2 y2 eta2) (hhi : VR.spatial_dot.xy_z_xy_eta x1 y1 z1 x2 y2 eta2 / VR.spatial_mag.xy_z x1 y1 z1 / VR.spatial_mag.xy_eta x2 y2 eta2 ≤ 1) :
    VS.spatial_deltaangle.xy_z_xy_eta x1 y1 z1 x2 y2 eta2 = VR.spatial_deltaangle.xy_z_xy_eta x1 y1 z1 x2 y2 eta2 := by
  simp only [VS.spatial_deltaangle.xy_z_xy_eta, VR.spatial_deltaangle.xy_z_xy_eta, VS.spatial_mag.xy_z_eq, VS.spatial_mag.xy_eta_eq, VS.spatial_dot.xy_z_xy_eta_eq, hlo, hhi, c08_clamp hlo hhi, VR.P.nanToNum_eq]

theorem c08_spatial_deltaangle_xy_z_xy_theta (x1 y1 z1 x2 y2 theta2 : ℝ) (hlo : -1 ≤ VR.spatial_dot.xy_z_xy_theta x1 y1 z1 x2 y2 theta2 / VR.spatial_mag.xy_z x1 y1 z1 / VR.spatial_mag.xy_theta x2 y2 theta2) (hhi : VR.spatial_dot.xy_z_xy_theta x1 y1 z1 x2 y2 theta2 / VR.spatial_mag.xy_z x1 y1 z1 / VR.spatial_mag.xy_theta x2 y2 theta2 ≤ 1) :
    VS.spatial_deltaangle.xy_z_xy_theta x1 y1 z1 x2 y2 theta2 = VR.spatial_deltaangle.xy_z_xy_theta x1 y1 z1 x2 y2 theta2 := by
  simp only [VS.spatial_deltaangle.xy_z_xy_theta, VR.spatial_deltaangle.xy_z_xy_theta, VS.spatial_mag.xy_z_eq, VS.spatial_mag.xy_theta_eq, VS.spatial_dot.xy_z_xy_theta_eq, hlo, hhi, c08_clamp hlo hhi, VR.P.nanToNum_eq]

theorem c08_spatial_deltaangle_xy_z_xy_z (x1 y1 z1 x2 y2 z2 : ℝ) (hlo : -1 ≤ VR.spatial_dot.xy_z_xy_z x1 y1 z1 x2 y2 z2 / VR.spatial_mag.xy_z x1 y1 z1 / VR.spatial_mag.xy_z x2 y2 z2) (hhi : VR.spatial_dot.xy_z_xy_z x1 y1 z1 x2 y2 z2 / VR.spatial_mag.xy_z x1 y1 z1 / VR.spatial_mag.xy_z x2 y2 z2 ≤ 1) :
    VS.spatial_deltaangle.xy_z_xy_z x1 y1 z1 x2 y2 z2 = VR.spatial_deltaangle.xy_z_xy_z x1 y1 z1 x2 y2 z2 := by
  simp only [VS.spatial_deltaangle.xy_z_xy_z, VR.spatial_deltaangle.xy_z_xy_z, VS.spatial_mag.xy_z_eq, VS.spatial_dot.xy_z_xy_z_eq, hlo, hhi, c08_clamp hlo hhi, VR.P.nanToNum_eq]


/-! ### `spatial_scale` -/

theorem c08_spatial_scale_rhophi_eta (factor rho phi eta : ℝ) :
    VS.spatial_scale.rhophi_eta factor rho phi eta = VR.spatial_scale.rhophi_eta factor rho phi eta := by
  simp only [VS.spatial_scale.rhophi_eta, VR.spatial_scale.rhophi_eta, VS.spatial_scale.rectify_eq, VR.P.nanToNum_eq]

theorem c08_spatial_scale_rhophi_theta (factor rho phi theta : ℝ) :
    VS.spatial_scale.rhophi_theta factor rho phi theta = VR.spatial_scale.rhophi_theta factor rho phi theta := by
  simp only [VS.spatial_scale.rhophi_theta, VR.spatial_scale.rhophi_theta, VS.spatial_scale.rectify_eq, VR.P.nanToNum_eq]

theorem c08_spatial_scale_rhophi_z (factor rho phi z : ℝ) :
    VS.spatial_scale.rhophi_z factor rho phi z = VR.spatial_scale.rhophi_z factor rho phi z := by
  simp only [VS.spatial_scale.rhophi_z, VR.spatial_scale.rhophi_z, VS.spatial_scale.rectify_eq, VR.P.nanToNum_eq]

theorem c08_spatial_scale_xy_eta (factor x y eta : ℝ) :
    VS.spatial_scale.xy_eta factor x y eta = VR.spatial_scale.xy_eta factor x y eta := by
  simp only [VS.spatial_scale.xy_eta, VR.spatial_scale.xy_eta, VR.P.nanToNum_eq]

theorem c08_spatial_scale_xy_theta (factor x y theta : ℝ) :
    VS.spatial_scale.xy_theta factor x y theta = VR.spatial_scale.xy_theta factor x y theta := by
  simp only [VS.spatial_scale.xy_theta, VR.spatial_scale.xy_theta, VR.P.nanToNum_eq]


/-! ### `lorentz_Mt2` -/

theorem c08_lorentz_Mt2_rhophi_eta_tau (rho phi eta tau : ℝ) (htau : 0 ≤ tau) :
    VS.lorentz_Mt2.rhophi_eta_tau rho phi eta tau = VR.lorentz_Mt2.rhophi_eta_tau rho phi eta tau := by
  simp only [VS.lorentz_Mt2.rhophi_eta_tau, VR.lorentz_Mt2.rhophi_eta_tau, c08_lorentz_tau2_rhophi_eta_tau, htau, VR.P.nanToNum_eq]
  refine (max_eq_left ?_).symm
  simp only [VR.lorentz_tau2.rhophi_eta_tau, c08_copysign_sq htau, VR.spatial_mag2.rhophi_eta]
  positivity

theorem c08_lorentz_Mt2_rhophi_theta_tau (rho phi theta tau : ℝ) (htau : 0 ≤ tau) :
    VS.lorentz_Mt2.rhophi_theta_tau rho phi theta tau = VR.lorentz_Mt2.rhophi_theta_tau rho phi theta tau := by
  simp only [VS.lorentz_Mt2.rhophi_theta_tau, VR.lorentz_Mt2.rhophi_theta_tau, c08_lorentz_tau2_rhophi_theta_tau, htau, VR.P.nanToNum_eq]
  refine (max_eq_left ?_).symm
  simp only [VR.lorentz_tau2.rhophi_theta_tau, c08_copysign_sq htau, VR.spatial_mag2.rhophi_theta]
  positivity

theorem c08_lorentz_Mt2_rhophi_z_tau (rho phi z tau : ℝ) (htau : 0 ≤ tau) :
    VS.lorentz_Mt2.rhophi_z_tau rho phi z tau = VR.lorentz_Mt2.rhophi_z_tau rho phi z tau := by
  simp only [VS.lorentz_Mt2.rhophi_z_tau, VR.lorentz_Mt2.rhophi_z_tau, c08_lorentz_tau2_rhophi_z_tau, htau, VR.P.nanToNum_eq]
  refine (max_eq_left ?_).symm
  simp only [VR.lorentz_tau2.rhophi_z_tau, c08_copysign_sq htau, VR.spatial_mag2.rhophi_z]
  positivity

theorem c08_lorentz_Mt2_xy_eta_tau (x y eta tau : ℝ) (htau : 0 ≤ tau) :
    VS.lorentz_Mt2.xy_eta_tau x y eta tau = VR.lorentz_Mt2.xy_eta_tau x y eta tau := by
  simp only [VS.lorentz_Mt2.xy_eta_tau, VR.lorentz_Mt2.xy_eta_tau, c08_lorentz_tau2_xy_eta_tau, htau, VR.P.nanToNum_eq]
  refine (max_eq_left ?_).symm
  simp only [VR.lorentz_tau2.xy_eta_tau, c08_copysign_sq htau, VR.spatial_mag2.xy_eta]
  positivity

theorem c08_lorentz_Mt2_xy_theta_tau (x y theta tau : ℝ) (htau : 0 ≤ tau) :
    VS.lorentz_Mt2.xy_theta_tau x y theta tau = VR.lorentz_Mt2.xy_theta_tau x y theta tau := by
  simp only [VS.lorentz_Mt2.xy_theta_tau, VR.lorentz_Mt2.xy_theta_tau, c08_lorentz_tau2_xy_theta_tau, htau, VR.P.nanToNum_eq]
  refine (max_eq_left ?_).symm
  simp only [VR.lorentz_tau2.xy_theta_tau, c08_copysign_sq htau, VR.spatial_mag2.xy_theta]
  positivity

theorem c08_lorentz_Mt2_xy_z_tau (x y z tau : ℝ) (htau : 0 ≤ tau) :
    VS.lorentz_Mt2.xy_z_tau x y z tau = VR.lorentz_Mt2.xy_z_tau x y z tau := by
  simp only [VS.lorentz_Mt2.xy_z_tau, VR.lorentz_Mt2.xy_z_tau, c08_lorentz_tau2_xy_z_tau, htau, VR.P.nanToNum_eq]
  refine (max_eq_left ?_).symm
  simp only [VR.lorentz_tau2.xy_z_tau, c08_copysign_sq htau, VR.spatial_mag2.xy_z]
  positivity


/-! ### `lorentz_scale` -/

theorem c08_lorentz_scale_rhophi_eta_t (factor rho phi eta t : ℝ) :
    VS.lorentz_scale.rhophi_eta_t factor rho phi eta t = VR.lorentz_scale.rhophi_eta_t factor rho phi eta t := by
  simp only [VS.lorentz_scale.rhophi_eta_t, VR.lorentz_scale.rhophi_eta_t, c08_spatial_scale_rhophi_eta, VR.P.nanToNum_eq]

theorem c08_lorentz_scale_rhophi_eta_tau (factor rho phi eta tau : ℝ) :
    VS.lorentz_scale.rhophi_eta_tau factor rho phi eta tau = VR.lorentz_scale.rhophi_eta_tau factor rho phi eta tau := by
  simp only [VS.lorentz_scale.rhophi_eta_tau, VR.lorentz_scale.rhophi_eta_tau, c08_spatial_scale_rhophi_eta, VR.P.nanToNum_eq]

theorem c08_lorentz_scale_rhophi_theta_t (factor rho phi theta t : ℝ) :
    VS.lorentz_scale.rhophi_theta_t factor rho phi theta t = VR.lorentz_scale.rhophi_theta_t factor rho phi theta t := by
  simp only [VS.lorentz_scale.rhophi_theta_t, VR.lorentz_scale.rhophi_theta_t, c08_spatial_scale_rhophi_theta, VR.P.nanToNum_eq]

theorem c08_lorentz_scale_rhophi_theta_tau (factor rho phi theta tau : ℝ) :
    VS.lorentz_scale.rhophi_theta_tau factor rho phi theta tau = VR.lorentz_scale.rhophi_theta_tau factor rho phi theta tau := by
  simp only [VS.lorentz_scale.rhophi_theta_tau, VR.lorentz_scale.rhophi_theta_tau, c08_spatial_scale_rhophi_theta, VR.P.nanToNum_eq]

theorem c08_lorentz_scale_rhophi_z_t (factor rho phi z t : ℝ) :
    VS.lorentz_scale.rhophi_z_t factor rho phi z t = VR.lorentz_scale.rhophi_z_t factor rho phi z t := by
  simp only [VS.lorentz_scale.rhophi_z_t, VR.lorentz_scale.rhophi_z_t, c08_spatial_scale_rhophi_z, VR.P.nanToNum_eq]

theorem c08_lorentz_scale_rhophi_z_tau (factor rho phi z tau : ℝ) :
    VS.lorentz_scale.rhophi_z_tau factor rho phi z tau = VR.lorentz_scale.rhophi_z_tau factor rho phi z tau := by
  simp only [VS.lorentz_scale.rhophi_z_tau, VR.lorentz_scale.rhophi_z_tau, c08_spatial_scale_rhophi_z, VR.P.nanToNum_eq]

theorem c08_lorentz_scale_xy_eta_t (factor x y eta t : ℝ) :
    VS.lorentz_scale.xy_eta_t factor x y eta t = VR.lorentz_scale.xy_eta_t factor x y eta t := by
  simp only [VS.lorentz_scale.xy_eta_t, VR.lorentz_scale.xy_eta_t, c08_spatial_scale_xy_eta, VR.P.nanToNum_eq]

theorem c08_lorentz_scale_xy_eta_tau (factor x y eta tau : ℝ) :
    VS.lorentz_scale.xy_eta_tau factor x y eta tau = VR.lorentz_scale.xy_eta_tau factor x y eta tau := by
  simp only [VS.lorentz_scale.xy_eta_tau, VR.lorentz_scale.xy_eta_tau, c08_spatial_scale_xy_eta, VR.P.nanToNum_eq]

theorem c08_lorentz_scale_xy_theta_t (factor x y theta t : ℝ) :
    VS.lorentz_scale.xy_theta_t factor x y theta t = VR.lorentz_scale.xy_theta_t factor x y theta t := by
  simp only [VS.lorentz_scale.xy_theta_t, VR.lorentz_scale.xy_theta_t, c08_spatial_scale_xy_theta, VR.P.nanToNum_eq]

theorem c08_lorentz_scale_xy_theta_tau (factor x y theta tau : ℝ) :
    VS.lorentz_scale.xy_theta_tau factor x y theta tau = VR.lorentz_scale.xy_theta_tau factor x y theta tau := by
  simp only [VS.lorentz_scale.xy_theta_tau, VR.lorentz_scale.xy_theta_tau, c08_spatial_scale_xy_theta, VR.P.nanToNum_eq]


/-! ### `lorentz_t2` -/

theorem c08_lorentz_t2_rhophi_eta_tau (rho phi eta tau : ℝ) (htau : 0 ≤ tau) :
    VS.lorentz_t2.rhophi_eta_tau rho phi eta tau = VR.lorentz_t2.rhophi_eta_tau rho phi eta tau := by
  simp only [VS.lorentz_t2.rhophi_eta_tau, VR.lorentz_t2.rhophi_eta_tau, c08_lorentz_tau2_rhophi_eta_tau, VS.spatial_mag2.rhophi_eta_eq, htau, VR.P.nanToNum_eq]
  refine (max_eq_left ?_).symm
  simp only [VR.lorentz_tau2.rhophi_eta_tau, c08_copysign_sq htau, VR.spatial_mag2.rhophi_eta]
  positivity

theorem c08_lorentz_t2_rhophi_theta_tau (rho phi theta tau : ℝ) (htau : 0 ≤ tau) :
    VS.lorentz_t2.rhophi_theta_tau rho phi theta tau = VR.lorentz_t2.rhophi_theta_tau rho phi theta tau := by
  simp only [VS.lorentz_t2.rhophi_theta_tau, VR.lorentz_t2.rhophi_theta_tau, c08_lorentz_tau2_rhophi_theta_tau, VS.spatial_mag2.rhophi_theta_eq, htau, VR.P.nanToNum_eq]
  refine (max_eq_left ?_).symm
  simp only [VR.lorentz_tau2.rhophi_theta_tau, c08_copysign_sq htau, VR.spatial_mag2.rhophi_theta]
  positivity

theorem c08_lorentz_t2_rhophi_z_tau (rho phi z tau : ℝ) (htau : 0 ≤ tau) :
    VS.lorentz_t2.rhophi_z_tau rho phi z tau = VR.lorentz_t2.rhophi_z_tau rho phi z tau := by
  simp only [VS.lorentz_t2.rhophi_z_tau, VR.lorentz_t2.rhophi_z_tau, c08_lorentz_tau2_rhophi_z_tau, VS.spatial_mag2.rhophi_z_eq, htau, VR.P.nanToNum_eq]
  refine (max_eq_left ?_).symm
  simp only [VR.lorentz_tau2.rhophi_z_tau, c08_copysign_sq htau, VR.spatial_mag2.rhophi_z]
  positivity

theorem c08_lorentz_t2_xy_eta_tau (x y eta tau : ℝ) (htau : 0 ≤ tau) :
    VS.lorentz_t2.xy_eta_tau x y eta tau = VR.lorentz_t2.xy_eta_tau x y eta tau := by
  simp only [VS.lorentz_t2.xy_eta_tau, VR.lorentz_t2.xy_eta_tau, c08_lorentz_tau2_xy_eta_tau, VS.spatial_mag2.xy_eta_eq, htau, VR.P.nanToNum_eq]
  refine (max_eq_left ?_).symm
  simp only [VR.lorentz_tau2.xy_eta_tau, c08_copysign_sq htau, VR.spatial_mag2.xy_eta]
  positivity

theorem c08_lorentz_t2_xy_theta_tau (x y theta tau : ℝ) (htau : 0 ≤ tau) :
    VS.lorentz_t2.xy_theta_tau x y theta tau = VR.lorentz_t2.xy_theta_tau x y theta tau := by
  simp only [VS.lorentz_t2.xy_theta_tau, VR.lorentz_t2.xy_theta_tau, c08_lorentz_tau2_xy_theta_tau, VS.spatial_mag2.xy_theta_eq, htau, VR.P.nanToNum_eq]
  refine (max_eq_left ?_).symm
  simp only [VR.lorentz_tau2.xy_theta_tau, c08_copysign_sq htau, VR.spatial_mag2.xy_theta]
  positivity

theorem c08_lorentz_t2_xy_z_tau (x y z tau : ℝ) (htau : 0 ≤ tau) :
    VS.lorentz_t2.xy_z_tau x y z tau = VR.lorentz_t2.xy_z_tau x y z tau := by
  simp only [VS.lorentz_t2.xy_z_tau, VR.lorentz_t2.xy_z_tau, c08_lorentz_tau2_xy_z_tau, VS.spatial_mag2.xy_z_eq, htau, VR.P.nanToNum_eq]
  refine (max_eq_left ?_).symm
  simp only [VR.lorentz_tau2.xy_z_tau, c08_copysign_sq htau, VR.spatial_mag2.xy_z]
  positivity


/-! ### `lorentz_Mt` -/

theorem c08_lorentz_Mt_rhophi_eta_tau (rho phi eta tau : ℝ) (h0 : 0 ≤ tau) :
    VS.lorentz_Mt.rhophi_eta_tau rho phi eta tau = VR.lorentz_Mt.rhophi_eta_tau rho phi eta tau := by
  simp only [VS.lorentz_Mt.rhophi_eta_tau, VR.lorentz_Mt.rhophi_eta_tau, c08_lorentz_Mt2_rhophi_eta_tau, h0, VR.P.nanToNum_eq]

theorem c08_lorentz_Mt_rhophi_theta_tau (rho phi theta tau : ℝ) (h0 : 0 ≤ tau) :
    VS.lorentz_Mt.rhophi_theta_tau rho phi theta tau = VR.lorentz_Mt.rhophi_theta_tau rho phi theta tau := by
  simp only [VS.lorentz_Mt.rhophi_theta_tau, VR.lorentz_Mt.rhophi_theta_tau, c08_lorentz_Mt2_rhophi_theta_tau, h0, VR.P.nanToNum_eq]

theorem c08_lorentz_Mt_rhophi_z_tau (rho phi z tau : ℝ) (h0 : 0 ≤ tau) :
    VS.lorentz_Mt.rhophi_z_tau rho phi z tau = VR.lorentz_Mt.rhophi_z_tau rho phi z tau := by
  simp only [VS.lorentz_Mt.rhophi_z_tau, VR.lorentz_Mt.rhophi_z_tau, c08_lorentz_Mt2_rhophi_z_tau, h0, VR.P.nanToNum_eq]

theorem c08_lorentz_Mt_xy_eta_tau (x y eta tau : ℝ) (h0 : 0 ≤ tau) :
    VS.lorentz_Mt.xy_eta_tau x y eta tau = VR.lorentz_Mt.xy_eta_tau x y eta tau := by
  simp only [VS.lorentz_Mt.xy_eta_tau, VR.lorentz_Mt.xy_eta_tau, c08_lorentz_Mt2_xy_eta_tau, h0, VR.P.nanToNum_eq]

theorem c08_lorentz_Mt_xy_theta_tau (x y theta tau : ℝ) (h0 : 0 ≤ tau) :
    VS.lorentz_Mt.xy_theta_tau x y theta tau = VR.lorentz_Mt.xy_theta_tau x y theta tau := by
  simp only [VS.lorentz_Mt.xy_theta_tau, VR.lorentz_Mt.xy_theta_tau, c08_lorentz_Mt2_xy_theta_tau, h0, VR.P.nanToNum_eq]

theorem c08_lorentz_Mt_xy_z_tau (x y z tau : ℝ) (h0 : 0 ≤ tau) :
    VS.lorentz_Mt.xy_z_tau x y z tau = VR.lorentz_Mt.xy_z_tau x y z tau := by
  simp only [VS.lorentz_Mt.xy_z_tau, VR.lorentz_Mt.xy_z_tau, c08_lorentz_Mt2_xy_z_tau, h0, VR.P.nanToNum_eq]


/-! ### `lorentz_t` -/

theorem c08_lorentz_t_rhophi_eta_tau (rho phi eta tau : ℝ) (h0 : 0 ≤ tau) :
    VS.lorentz_t.rhophi_eta_tau rho phi eta tau = VR.lorentz_t.rhophi_eta_tau rho phi eta tau := by
  simp only [VS.lorentz_t.rhophi_eta_tau, VR.lorentz_t.rhophi_eta_tau, c08_lorentz_t2_rhophi_eta_tau, h0, VR.P.nanToNum_eq]

theorem c08_lorentz_t_rhophi_theta_tau (rho phi theta tau : ℝ) (h0 : 0 ≤ tau) :
    VS.lorentz_t.rhophi_theta_tau rho phi theta tau = VR.lorentz_t.rhophi_theta_tau rho phi theta tau := by
  simp only [VS.lorentz_t.rhophi_theta_tau, VR.lorentz_t.rhophi_theta_tau, c08_lorentz_t2_rhophi_theta_tau, h0, VR.P.nanToNum_eq]

theorem c08_lorentz_t_rhophi_z_tau (rho phi z tau : ℝ) (h0 : 0 ≤ tau) :
    VS.lorentz_t.rhophi_z_tau rho phi z tau = VR.lorentz_t.rhophi_z_tau rho phi z tau := by
  simp only [VS.lorentz_t.rhophi_z_tau, VR.lorentz_t.rhophi_z_tau, c08_lorentz_t2_rhophi_z_tau, h0, VR.P.nanToNum_eq]

theorem c08_lorentz_t_xy_eta_tau (x y eta tau : ℝ) (h0 : 0 ≤ tau) :
    VS.lorentz_t.xy_eta_tau x y eta tau = VR.lorentz_t.xy_eta_tau x y eta tau := by
  simp only [VS.lorentz_t.xy_eta_tau, VR.lorentz_t.xy_eta_tau, c08_lorentz_t2_xy_eta_tau, h0, VR.P.nanToNum_eq]

theorem c08_lorentz_t_xy_theta_tau (x y theta tau : ℝ) (h0 : 0 ≤ tau) :
    VS.lorentz_t.xy_theta_tau x y theta tau = VR.lorentz_t.xy_theta_tau x y theta tau := by
  simp only [VS.lorentz_t.xy_theta_tau, VR.lorentz_t.xy_theta_tau, c08_lorentz_t2_xy_theta_tau, h0, VR.P.nanToNum_eq]

theorem c08_lorentz_t_xy_z_tau (x y z tau : ℝ) (h0 : 0 ≤ tau) :
    VS.lorentz_t.xy_z_tau x y z tau = VR.lorentz_t.xy_z_tau x y z tau := by
  simp only [VS.lorentz_t.xy_z_tau, VR.lorentz_t.xy_z_tau, c08_lorentz_t2_xy_z_tau, h0, VR.P.nanToNum_eq]


/-! ### `lorentz_to_beta3` -/

theorem c08_lorentz_to_beta3_rhophi_eta_tau (rho phi eta tau : ℝ) (h0 : 0 ≤ tau) :
    VS.lorentz_to_beta3.rhophi_eta_tau rho phi eta tau = VR.lorentz_to_beta3.rhophi_eta_tau rho phi eta tau := by
  simp only [VS.lorentz_to_beta3.rhophi_eta_tau, VR.lorentz_to_beta3.rhophi_eta_tau, VS.lorentz_to_beta3.rhophi_eta_t_eq, c08_lorentz_t_rhophi_eta_tau, h0, VR.P.nanToNum_eq]

theorem c08_lorentz_to_beta3_rhophi_theta_tau (rho phi theta tau : ℝ) (h0 : 0 ≤ tau) :
    VS.lorentz_to_beta3.rhophi_theta_tau rho phi theta tau = VR.lorentz_to_beta3.rhophi_theta_tau rho phi theta tau := by
  simp only [VS.lorentz_to_beta3.rhophi_theta_tau, VR.lorentz_to_beta3.rhophi_theta_tau, VS.lorentz_to_beta3.rhophi_theta_t_eq, c08_lorentz_t_rhophi_theta_tau, h0, VR.P.nanToNum_eq]

theorem c08_lorentz_to_beta3_rhophi_z_tau (rho phi z tau : ℝ) (h0 : 0 ≤ tau) :
    VS.lorentz_to_beta3.rhophi_z_tau rho phi z tau = VR.lorentz_to_beta3.rhophi_z_tau rho phi z tau := by
  simp only [VS.lorentz_to_beta3.rhophi_z_tau, VR.lorentz_to_beta3.rhophi_z_tau, VS.lorentz_to_beta3.rhophi_z_t_eq, c08_lorentz_t_rhophi_z_tau, h0, VR.P.nanToNum_eq]

theorem c08_lorentz_to_beta3_xy_eta_tau (x y eta tau : ℝ) (h0 : 0 ≤ tau) :
    VS.lorentz_to_beta3.xy_eta_tau x y eta tau = VR.lorentz_to_beta3.xy_eta_tau x y eta tau := by
  simp only [VS.lorentz_to_beta3.xy_eta_tau, VR.lorentz_to_beta3.xy_eta_tau, VS.lorentz_to_beta3.xy_eta_t_eq, c08_lorentz_t_xy_eta_tau, h0, VR.P.nanToNum_eq]

theorem c08_lorentz_to_beta3_xy_theta_tau (x y theta tau : ℝ) (h0 : 0 ≤ tau) :
    VS.lorentz_to_beta3.xy_theta_tau x y theta tau = VR.lorentz_to_beta3.xy_theta_tau x y theta tau := by
  simp only [VS.lorentz_to_beta3.xy_theta_tau, VR.lorentz_to_beta3.xy_theta_tau, VS.lorentz_to_beta3.xy_theta_t_eq, c08_lorentz_t_xy_theta_tau, h0, VR.P.nanToNum_eq]

theorem c08_lorentz_to_beta3_xy_z_tau (x y z tau : ℝ) (h0 : 0 ≤ tau) :
    VS.lorentz_to_beta3.xy_z_tau x y z tau = VR.lorentz_to_beta3.xy_z_tau x y z tau := by
  simp only [VS.lorentz_to_beta3.xy_z_tau, VR.lorentz_to_beta3.xy_z_tau, VS.lorentz_to_beta3.xy_z_t_eq, c08_lorentz_t_xy_z_tau, h0, VR.P.nanToNum_eq]


/-! ### `lorentz_transform4D` -/

theorem c08_lorentz_transform4D_cartesian_tau (xx xy xz xt yx yy yz yt zx zy zz zt x y z tau : ℝ) (h0 : 0 ≤ tau) :
    VS.lorentz_transform4D.cartesian_tau xx xy xz xt yx yy yz yt zx zy zz zt x y z tau = VR.lorentz_transform4D.cartesian_tau xx xy xz xt yx yy yz yt zx zy zz zt x y z tau := by
  simp only [VS.lorentz_transform4D.cartesian_tau, VR.lorentz_transform4D.cartesian_tau, c08_lorentz_t_xy_z_tau, h0, VR.P.nanToNum_eq]

theorem c08_lorentz_transform4D_k_rhophi_eta_tau (xx xy xz xt yx yy yz yt zx zy zz zt tx ty tz tt coord1 coord2 coord3 coord4 : ℝ) (h0 : 0 ≤ coord4) :
    VS.lorentz_transform4D.k_rhophi_eta_tau xx xy xz xt yx yy yz yt zx zy zz zt tx ty tz tt coord1 coord2 coord3 coord4 = VR.lorentz_transform4D.k_rhophi_eta_tau xx xy xz xt yx yy yz yt zx zy zz zt tx ty tz tt coord1 coord2 coord3 coord4 := by
  simp only [VS.lorentz_transform4D.k_rhophi_eta_tau, VR.lorentz_transform4D.k_rhophi_eta_tau, VS.lorentz_transform4D.cartesian_t_eq, VS.planar_x.rhophi_eq, VS.planar_y.rhophi_eq, VS.spatial_z.rhophi_eta_eq, c08_lorentz_t_rhophi_eta_tau, h0, VR.P.nanToNum_eq]

theorem c08_lorentz_transform4D_k_rhophi_theta_tau (xx xy xz xt yx yy yz yt zx zy zz zt tx ty tz tt coord1 coord2 coord3 coord4 : ℝ) (h0 : 0 ≤ coord4) :
    VS.lorentz_transform4D.k_rhophi_theta_tau xx xy xz xt yx yy yz yt zx zy zz zt tx ty tz tt coord1 coord2 coord3 coord4 = VR.lorentz_transform4D.k_rhophi_theta_tau xx xy xz xt yx yy yz yt zx zy zz zt tx ty tz tt coord1 coord2 coord3 coord4 := by
  simp only [VS.lorentz_transform4D.k_rhophi_theta_tau, VR.lorentz_transform4D.k_rhophi_theta_tau, VS.lorentz_transform4D.cartesian_t_eq, VS.planar_x.rhophi_eq, VS.planar_y.rhophi_eq, VS.spatial_z.rhophi_theta_eq, c08_lorentz_t_rhophi_theta_tau, h0, VR.P.nanToNum_eq]

theorem c08_lorentz_transform4D_k_rhophi_z_tau (xx xy xz xt yx yy yz yt zx zy zz zt tx ty tz tt coord1 coord2 coord3 coord4 : ℝ) (h0 : 0 ≤ coord4) :
    VS.lorentz_transform4D.k_rhophi_z_tau xx xy xz xt yx yy yz yt zx zy zz zt tx ty tz tt coord1 coord2 coord3 coord4 = VR.lorentz_transform4D.k_rhophi_z_tau xx xy xz xt yx yy yz yt zx zy zz zt tx ty tz tt coord1 coord2 coord3 coord4 := by
  simp only [VS.lorentz_transform4D.k_rhophi_z_tau, VR.lorentz_transform4D.k_rhophi_z_tau, VS.lorentz_transform4D.cartesian_t_eq, VS.planar_x.rhophi_eq, VS.planar_y.rhophi_eq, VS.spatial_z.rhophi_z_eq, c08_lorentz_t_rhophi_z_tau, h0, VR.P.nanToNum_eq]

theorem c08_lorentz_transform4D_k_xy_eta_tau (xx xy xz xt yx yy yz yt zx zy zz zt tx ty tz tt coord1 coord2 coord3 coord4 : ℝ) (h0 : 0 ≤ coord4) :
    VS.lorentz_transform4D.k_xy_eta_tau xx xy xz xt yx yy yz yt zx zy zz zt tx ty tz tt coord1 coord2 coord3 coord4 = VR.lorentz_transform4D.k_xy_eta_tau xx xy xz xt yx yy yz yt zx zy zz zt tx ty tz tt coord1 coord2 coord3 coord4 := by
  simp only [VS.lorentz_transform4D.k_xy_eta_tau, VR.lorentz_transform4D.k_xy_eta_tau, VS.lorentz_transform4D.cartesian_t_eq, VS.planar_x.xy_eq, VS.planar_y.xy_eq, VS.spatial_z.xy_eta_eq, c08_lorentz_t_xy_eta_tau, h0, VR.P.nanToNum_eq]

theorem c08_lorentz_transform4D_k_xy_theta_tau (xx xy xz xt yx yy yz yt zx zy zz zt tx ty tz tt coord1 coord2 coord3 coord4 : ℝ) (h0 : 0 ≤ coord4) :
    VS.lorentz_transform4D.k_xy_theta_tau xx xy xz xt yx yy yz yt zx zy zz zt tx ty tz tt coord1 coord2 coord3 coord4 = VR.lorentz_transform4D.k_xy_theta_tau xx xy xz xt yx yy yz yt zx zy zz zt tx ty tz tt coord1 coord2 coord3 coord4 := by
  simp only [VS.lorentz_transform4D.k_xy_theta_tau, VR.lorentz_transform4D.k_xy_theta_tau, VS.lorentz_transform4D.cartesian_t_eq, VS.planar_x.xy_eq, VS.planar_y.xy_eq, VS.spatial_z.xy_theta_eq, c08_lorentz_t_xy_theta_tau, h0, VR.P.nanToNum_eq]

theorem c08_lorentz_transform4D_k_xy_z_tau (xx xy xz xt yx yy yz yt zx zy zz zt tx ty tz tt coord1 coord2 coord3 coord4 : ℝ) (h0 : 0 ≤ coord4) :
    VS.lorentz_transform4D.k_xy_z_tau xx xy xz xt yx yy yz yt zx zy zz zt tx ty tz tt coord1 coord2 coord3 coord4 = VR.lorentz_transform4D.k_xy_z_tau xx xy xz xt yx yy yz yt zx zy zz zt tx ty tz tt coord1 coord2 coord3 coord4 := by
  simp only [VS.lorentz_transform4D.k_xy_z_tau, VR.lorentz_transform4D.k_xy_z_tau, VS.lorentz_transform4D.cartesian_t_eq, VS.planar_x.xy_eq, VS.planar_y.xy_eq, VS.spatial_z.xy_z_eq, c08_lorentz_t_xy_z_tau, h0, VR.P.nanToNum_eq]


/-! ### `lorentz_Et` -/

theorem c08_lorentz_Et_rhophi_eta_tau (rho phi eta tau : ℝ) (h0 : 0 ≤ tau) :
    VS.lorentz_Et.rhophi_eta_tau rho phi eta tau = VR.lorentz_Et.rhophi_eta_tau rho phi eta tau := by
  simp only [VS.lorentz_Et.rhophi_eta_tau, VR.lorentz_Et.rhophi_eta_tau, VS.lorentz_Et.rhophi_eta_t_eq, c08_lorentz_t_rhophi_eta_tau, h0, VR.P.nanToNum_eq]

theorem c08_lorentz_Et_rhophi_theta_tau (rho phi theta tau : ℝ) (h0 : 0 ≤ tau) :
    VS.lorentz_Et.rhophi_theta_tau rho phi theta tau = VR.lorentz_Et.rhophi_theta_tau rho phi theta tau := by
  simp only [VS.lorentz_Et.rhophi_theta_tau, VR.lorentz_Et.rhophi_theta_tau, VS.lorentz_Et.rhophi_theta_t_eq, c08_lorentz_t_rhophi_theta_tau, h0, VR.P.nanToNum_eq]

theorem c08_lorentz_Et_rhophi_z_tau (rho phi z tau : ℝ) (h0 : 0 ≤ tau) :
    VS.lorentz_Et.rhophi_z_tau rho phi z tau = VR.lorentz_Et.rhophi_z_tau rho phi z tau := by
  simp only [VS.lorentz_Et.rhophi_z_tau, VR.lorentz_Et.rhophi_z_tau, VS.lorentz_Et.rhophi_z_t_eq, c08_lorentz_t_rhophi_z_tau, h0, VR.P.nanToNum_eq]

theorem c08_lorentz_Et_xy_eta_tau (x y eta tau : ℝ) (h0 : 0 ≤ tau) :
    VS.lorentz_Et.xy_eta_tau x y eta tau = VR.lorentz_Et.xy_eta_tau x y eta tau := by
  simp only [VS.lorentz_Et.xy_eta_tau, VR.lorentz_Et.xy_eta_tau, VS.lorentz_Et.xy_eta_t_eq, c08_lorentz_t_xy_eta_tau, h0, VR.P.nanToNum_eq]

theorem c08_lorentz_Et_xy_theta_tau (x y theta tau : ℝ) (h0 : 0 ≤ tau) :
    VS.lorentz_Et.xy_theta_tau x y theta tau = VR.lorentz_Et.xy_theta_tau x y theta tau := by
  simp only [VS.lorentz_Et.xy_theta_tau, VR.lorentz_Et.xy_theta_tau, VS.lorentz_Et.xy_theta_t_eq, c08_lorentz_t_xy_theta_tau, h0, VR.P.nanToNum_eq]

theorem c08_lorentz_Et_xy_z_tau (x y z tau : ℝ) (h0 : 0 ≤ tau) :
    VS.lorentz_Et.xy_z_tau x y z tau = VR.lorentz_Et.xy_z_tau x y z tau := by
  simp only [VS.lorentz_Et.xy_z_tau, VR.lorentz_Et.xy_z_tau, VS.lorentz_Et.xy_z_t_eq, c08_lorentz_t_xy_z_tau, h0, VR.P.nanToNum_eq]


/-! ### `lorentz_Et2` -/

theorem c08_lorentz_Et2_rhophi_eta_tau (rho phi eta tau : ℝ) (h0 : 0 ≤ tau) :
    VS.lorentz_Et2.rhophi_eta_tau rho phi eta tau = VR.lorentz_Et2.rhophi_eta_tau rho phi eta tau := by
  simp only [VS.lorentz_Et2.rhophi_eta_tau, VR.lorentz_Et2.rhophi_eta_tau, VS.lorentz_Et2.rhophi_eta_t_eq, c08_lorentz_t_rhophi_eta_tau, h0, VR.P.nanToNum_eq]

theorem c08_lorentz_Et2_rhophi_theta_tau (rho phi theta tau : ℝ) (h0 : 0 ≤ tau) :
    VS.lorentz_Et2.rhophi_theta_tau rho phi theta tau = VR.lorentz_Et2.rhophi_theta_tau rho phi theta tau := by
  simp only [VS.lorentz_Et2.rhophi_theta_tau, VR.lorentz_Et2.rhophi_theta_tau, VS.lorentz_Et2.rhophi_theta_t_eq, c08_lorentz_t_rhophi_theta_tau, h0, VR.P.nanToNum_eq]

theorem c08_lorentz_Et2_rhophi_z_tau (rho phi z tau : ℝ) (h0 : 0 ≤ tau) :
    VS.lorentz_Et2.rhophi_z_tau rho phi z tau = VR.lorentz_Et2.rhophi_z_tau rho phi z tau := by
  simp only [VS.lorentz_Et2.rhophi_z_tau, VR.lorentz_Et2.rhophi_z_tau, VS.lorentz_Et2.rhophi_z_t_eq, c08_lorentz_t_rhophi_z_tau, h0, VR.P.nanToNum_eq]

theorem c08_lorentz_Et2_xy_eta_tau (x y eta tau : ℝ) (h0 : 0 ≤ tau) :
    VS.lorentz_Et2.xy_eta_tau x y eta tau = VR.lorentz_Et2.xy_eta_tau x y eta tau := by
  simp only [VS.lorentz_Et2.xy_eta_tau, VR.lorentz_Et2.xy_eta_tau, VS.lorentz_Et2.xy_eta_t_eq, c08_lorentz_t_xy_eta_tau, h0, VR.P.nanToNum_eq]

theorem c08_lorentz_Et2_xy_theta_tau (x y theta tau : ℝ) (h0 : 0 ≤ tau) :
    VS.lorentz_Et2.xy_theta_tau x y theta tau = VR.lorentz_Et2.xy_theta_tau x y theta tau := by
  simp only [VS.lorentz_Et2.xy_theta_tau, VR.lorentz_Et2.xy_theta_tau, VS.lorentz_Et2.xy_theta_t_eq, c08_lorentz_t_xy_theta_tau, h0, VR.P.nanToNum_eq]

theorem c08_lorentz_Et2_xy_z_tau (x y z tau : ℝ) (h0 : 0 ≤ tau) :
    VS.lorentz_Et2.xy_z_tau x y z tau = VR.lorentz_Et2.xy_z_tau x y z tau := by
  simp only [VS.lorentz_Et2.xy_z_tau, VR.lorentz_Et2.xy_z_tau, VS.lorentz_Et2.xy_z_t_eq, c08_lorentz_t_xy_z_tau, h0, VR.P.nanToNum_eq]


/-! ### `lorentz_add` -/

theorem c08_lorentz_add_k_rhophi_eta_t_rhophi_eta_tau (coord11 coord12 coord13 coord14 coord21 coord22 coord23 coord24 : ℝ) (h0 : 0 ≤ coord24) :
    VS.lorentz_add.k_rhophi_eta_t_rhophi_eta_tau coord11 coord12 coord13 coord14 coord21 coord22 coord23 coord24 = VR.lorentz_add.k_rhophi_eta_t_rhophi_eta_tau coord11 coord12 coord13 coord14 coord21 coord22 coord23 coord24 := by
  simp only [VS.lorentz_add.k_rhophi_eta_t_rhophi_eta_tau, VR.lorentz_add.k_rhophi_eta_t_rhophi_eta_tau, VS.spatial_add.rhophi_eta_rhophi_eta_eq, VS.lorentz_t.rhophi_eta_t_eq, c08_lorentz_t_rhophi_eta_tau, h0, VR.P.nanToNum_eq]

theorem c08_lorentz_add_k_rhophi_eta_t_rhophi_theta_tau (coord11 coord12 coord13 coord14 coord21 coord22 coord23 coord24 : ℝ) (h0 : 0 ≤ coord24) :
    VS.lorentz_add.k_rhophi_eta_t_rhophi_theta_tau coord11 coord12 coord13 coord14 coord21 coord22 coord23 coord24 = VR.lorentz_add.k_rhophi_eta_t_rhophi_theta_tau coord11 coord12 coord13 coord14 coord21 coord22 coord23 coord24 := by
  simp only [VS.lorentz_add.k_rhophi_eta_t_rhophi_theta_tau, VR.lorentz_add.k_rhophi_eta_t_rhophi_theta_tau, VS.spatial_add.rhophi_eta_rhophi_theta_eq, VS.lorentz_t.rhophi_eta_t_eq, c08_lorentz_t_rhophi_theta_tau, h0, VR.P.nanToNum_eq]

theorem c08_lorentz_add_k_rhophi_eta_t_rhophi_z_tau (coord11 coord12 coord13 coord14 coord21 coord22 coord23 coord24 : ℝ) (h0 : 0 ≤ coord24) :
    VS.lorentz_add.k_rhophi_eta_t_rhophi_z_tau coord11 coord12 coord13 coord14 coord21 coord22 coord23 coord24 = VR.lorentz_add.k_rhophi_eta_t_rhophi_z_tau coord11 coord12 coord13 coord14 coord21 coord22 coord23 coord24 := by
  simp only [VS.lorentz_add.k_rhophi_eta_t_rhophi_z_tau, VR.lorentz_add.k_rhophi_eta_t_rhophi_z_tau, VS.spatial_add.rhophi_eta_rhophi_z_eq, VS.lorentz_t.rhophi_eta_t_eq, c08_lorentz_t_rhophi_z_tau, h0, VR.P.nanToNum_eq]

theorem c08_lorentz_add_k_rhophi_eta_t_xy_eta_tau (coord11 coord12 coord13 coord14 coord21 coord22 coord23 coord24 : ℝ) (h0 : 0 ≤ coord24) :
    VS.lorentz_add.k_rhophi_eta_t_xy_eta_tau coord11 coord12 coord13 coord14 coord21 coord22 coord23 coord24 = VR.lorentz_add.k_rhophi_eta_t_xy_eta_tau coord11 coord12 coord13 coord14 coord21 coord22 coord23 coord24 := by
  simp only [VS.lorentz_add.k_rhophi_eta_t_xy_eta_tau, VR.lorentz_add.k_rhophi_eta_t_xy_eta_tau, VS.spatial_add.rhophi_eta_xy_eta_eq, VS.lorentz_t.rhophi_eta_t_eq, c08_lorentz_t_xy_eta_tau, h0, VR.P.nanToNum_eq]

theorem c08_lorentz_add_k_rhophi_eta_t_xy_theta_tau (coord11 coord12 coord13 coord14 coord21 coord22 coord23 coord24 : ℝ) (h0 : 0 ≤ coord24) :
    VS.lorentz_add.k_rhophi_eta_t_xy_theta_tau coord11 coord12 coord13 coord14 coord21 coord22 coord23 coord24 = VR.lorentz_add.k_rhophi_eta_t_xy_theta_tau coord11 coord12 coord13 coord14 coord21 coord22 coord23 coord24 := by
  simp only [VS.lorentz_add.k_rhophi_eta_t_xy_theta_tau, VR.lorentz_add.k_rhophi_eta_t_xy_theta_tau, VS.spatial_add.rhophi_eta_xy_theta_eq, VS.lorentz_t.rhophi_eta_t_eq, c08_lorentz_t_xy_theta_tau, h0, VR.P.nanToNum_eq]

theorem c08_lorentz_add_k_rhophi_eta_t_xy_z_tau (coord11 coord12 coord13 coord14 coord21 coord22 coord23 coord24 : ℝ) (h0 : 0 ≤ coord24) :
    VS.lorentz_add.k_rhophi_eta_t_xy_z_tau coord11 coord12 coord13 coord14 coord21 coord22 coord23 coord24 = VR.lorentz_add.k_rhophi_eta_t_xy_z_tau coord11 coord12 coord13 coord14 coord21 coord22 coord23 coord24 := by
  simp only [VS.lorentz_add.k_rhophi_eta_t_xy_z_tau, VR.lorentz_add.k_rhophi_eta_t_xy_z_tau, VS.spatial_add.rhophi_eta_xy_z_eq, VS.lorentz_t.rhophi_eta_t_eq, c08_lorentz_t_xy_z_tau, h0, VR.P.nanToNum_eq]

theorem c08_lorentz_add_k_rhophi_eta_tau_rhophi_eta_t (coord11 coord12 coord13 coord14 coord21 coord22 coord23 coord24 : ℝ) (h0 : 0 ≤ coord14) :
    VS.lorentz_add.k_rhophi_eta_tau_rhophi_eta_t coord11 coord12 coord13 coord14 coord21 coord22 coord23 coord24 = VR.lorentz_add.k_rhophi_eta_tau_rhophi_eta_t coord11 coord12 coord13 coord14 coord21 coord22 coord23 coord24 := by
  simp only [VS.lorentz_add.k_rhophi_eta_tau_rhophi_eta_t, VR.lorentz_add.k_rhophi_eta_tau_rhophi_eta_t, VS.spatial_add.rhophi_eta_rhophi_eta_eq, c08_lorentz_t_rhophi_eta_tau, VS.lorentz_t.rhophi_eta_t_eq, h0, VR.P.nanToNum_eq]

theorem c08_lorentz_add_k_rhophi_eta_tau_rhophi_eta_tau (coord11 coord12 coord13 coord14 coord21 coord22 coord23 coord24 : ℝ) (h0 : 0 ≤ coord14) (h1 : 0 ≤ coord24) (hres : 0 ≤ (VR.lorentz_add.k_rhophi_eta_tau_rhophi_eta_tau coord11 coord12 coord13 coord14 coord21 coord22 coord23 coord24).2.2.2) :
    VS.lorentz_add.k_rhophi_eta_tau_rhophi_eta_tau coord11 coord12 coord13 coord14 coord21 coord22 coord23 coord24 = VR.lorentz_add.k_rhophi_eta_tau_rhophi_eta_tau coord11 coord12 coord13 coord14 coord21 coord22 coord23 coord24 := by
  simp only [VR.lorentz_add.k_rhophi_eta_tau_rhophi_eta_tau] at hres
  simp only [VS.lorentz_add.k_rhophi_eta_tau_rhophi_eta_tau, VR.lorentz_add.k_rhophi_eta_tau_rhophi_eta_tau, VS.spatial_add.rhophi_eta_rhophi_eta_eq, c08_lorentz_t_rhophi_eta_tau, c08_lorentz_tau_rhophi_eta_t, h0, h1, VR.P.nanToNum_eq]
  rw [c08_lorentz_tau_rhophi_eta_t_of_result _ _ _ _ hres]

theorem c08_lorentz_add_k_rhophi_eta_tau_rhophi_theta_t (coord11 coord12 coord13 coord14 coord21 coord22 coord23 coord24 : ℝ) (h0 : 0 ≤ coord14) :
    VS.lorentz_add.k_rhophi_eta_tau_rhophi_theta_t coord11 coord12 coord13 coord14 coord21 coord22 coord23 coord24 = VR.lorentz_add.k_rhophi_eta_tau_rhophi_theta_t coord11 coord12 coord13 coord14 coord21 coord22 coord23 coord24 := by
  simp only [VS.lorentz_add.k_rhophi_eta_tau_rhophi_theta_t, VR.lorentz_add.k_rhophi_eta_tau_rhophi_theta_t, VS.spatial_add.rhophi_eta_rhophi_theta_eq, c08_lorentz_t_rhophi_eta_tau, VS.lorentz_t.rhophi_theta_t_eq, h0, VR.P.nanToNum_eq]

theorem c08_lorentz_add_k_rhophi_eta_tau_rhophi_theta_tau (coord11 coord12 coord13 coord14 coord21 coord22 coord23 coord24 : ℝ) (h0 : 0 ≤ coord14) (h1 : 0 ≤ coord24) (hres : 0 ≤ (VR.lorentz_add.k_rhophi_eta_tau_rhophi_theta_tau coord11 coord12 coord13 coord14 coord21 coord22 coord23 coord24).2.2.2) :
    VS.lorentz_add.k_rhophi_eta_tau_rhophi_theta_tau coord11 coord12 coord13 coord14 coord21 coord22 coord23 coord24 = VR.lorentz_add.k_rhophi_eta_tau_rhophi_theta_tau coord11 coord12 coord13 coord14 coord21 coord22 coord23 coord24 := by
  simp only [VR.lorentz_add.k_rhophi_eta_tau_rhophi_theta_tau] at hres
  simp only [VS.lorentz_add.k_rhophi_eta_tau_rhophi_theta_tau, VR.lorentz_add.k_rhophi_eta_tau_rhophi_theta_tau, VS.spatial_add.rhophi_eta_rhophi_theta_eq, c08_lorentz_t_rhophi_eta_tau, c08_lorentz_t_rhophi_theta_tau, c08_lorentz_tau_xy_z_t, h0, h1, VR.P.nanToNum_eq]
  rw [c08_lorentz_tau_xy_z_t_of_result _ _ _ _ hres]

theorem c08_lorentz_add_k_rhophi_eta_tau_rhophi_z_t (coord11 coord12 coord13 coord14 coord21 coord22 coord23 coord24 : ℝ) (h0 : 0 ≤ coord14) :
    VS.lorentz_add.k_rhophi_eta_tau_rhophi_z_t coord11 coord12 coord13 coord14 coord21 coord22 coord23 coord24 = VR.lorentz_add.k_rhophi_eta_tau_rhophi_z_t coord11 coord12 coord13 coord14 coord21 coord22 coord23 coord24 := by
  simp only [VS.lorentz_add.k_rhophi_eta_tau_rhophi_z_t, VR.lorentz_add.k_rhophi_eta_tau_rhophi_z_t, VS.spatial_add.rhophi_eta_rhophi_z_eq, c08_lorentz_t_rhophi_eta_tau, VS.lorentz_t.rhophi_z_t_eq, h0, VR.P.nanToNum_eq]

theorem c08_lorentz_add_k_rhophi_eta_tau_rhophi_z_tau (coord11 coord12 coord13 coord14 coord21 coord22 coord23 coord24 : ℝ) (h0 : 0 ≤ coord14) (h1 : 0 ≤ coord24) (hres : 0 ≤ (VR.lorentz_add.k_rhophi_eta_tau_rhophi_z_tau coord11 coord12 coord13 coord14 coord21 coord22 coord23 coord24).2.2.2) :
    VS.lorentz_add.k_rhophi_eta_tau_rhophi_z_tau coord11 coord12 coord13 coord14 coord21 coord22 coord23 coord24 = VR.lorentz_add.k_rhophi_eta_tau_rhophi_z_tau coord11 coord12 coord13 coord14 coord21 coord22 coord23 coord24 := by
  simp only [VR.lorentz_add.k_rhophi_eta_tau_rhophi_z_tau] at hres
  simp only [VS.lorentz_add.k_rhophi_eta_tau_rhophi_z_tau, VR.lorentz_add.k_rhophi_eta_tau_rhophi_z_tau, VS.spatial_add.rhophi_eta_rhophi_z_eq, c08_lorentz_t_rhophi_eta_tau, c08_lorentz_t_rhophi_z_tau, c08_lorentz_tau_xy_z_t, h0, h1, VR.P.nanToNum_eq]
  rw [c08_lorentz_tau_xy_z_t_of_result _ _ _ _ hres]

theorem c08_lorentz_add_k_rhophi_eta_tau_xy_eta_t (coord11 coord12 coord13 coord14 coord21 coord22 coord23 coord24 : ℝ) (h0 : 0 ≤ coord14) :
    VS.lorentz_add.k_rhophi_eta_tau_xy_eta_t coord11 coord12 coord13 coord14 coord21 coord22 coord23 coord24 = VR.lorentz_add.k_rhophi_eta_tau_xy_eta_t coord11 coord12 coord13 coord14 coord21 coord22 coord23 coord24 := by
  simp only [VS.lorentz_add.k_rhophi_eta_tau_xy_eta_t, VR.lorentz_add.k_rhophi_eta_tau_xy_eta_t, VS.spatial_add.rhophi_eta_xy_eta_eq, c08_lorentz_t_rhophi_eta_tau, VS.lorentz_t.xy_eta_t_eq, h0, VR.P.nanToNum_eq]

theorem c08_lorentz_add_k_rhophi_eta_tau_xy_eta_tau (coord11 coord12 coord13 coord14 coord21 coord22 coord23 coord24 : ℝ) (h0 : 0 ≤ coord24) (h1 : 0 ≤ coord14) (hres : 0 ≤ (VR.lorentz_add.k_rhophi_eta_tau_xy_eta_tau coord11 coord12 coord13 coord14 coord21 coord22 coord23 coord24).2.2.2) :
    VS.lorentz_add.k_rhophi_eta_tau_xy_eta_tau coord11 coord12 coord13 coord14 coord21 coord22 coord23 coord24 = VR.lorentz_add.k_rhophi_eta_tau_xy_eta_tau coord11 coord12 coord13 coord14 coord21 coord22 coord23 coord24 := by
  simp only [VR.lorentz_add.k_rhophi_eta_tau_xy_eta_tau] at hres
  simp only [VS.lorentz_add.k_rhophi_eta_tau_xy_eta_tau, VR.lorentz_add.k_rhophi_eta_tau_xy_eta_tau, VS.spatial_add.rhophi_eta_xy_eta_eq, c08_lorentz_t_rhophi_eta_tau, c08_lorentz_t_xy_eta_tau, c08_lorentz_tau_xy_z_t, h0, h1, VR.P.nanToNum_eq]
  rw [c08_lorentz_tau_xy_z_t_of_result _ _ _ _ hres]

theorem c08_lorentz_add_k_rhophi_eta_tau_xy_theta_t (coord11 coord12 coord13 coord14 coord21 coord22 coord23 coord24 : ℝ) (h0 : 0 ≤ coord14) :
    VS.lorentz_add.k_rhophi_eta_tau_xy_theta_t coord11 coord12 coord13 coord14 coord21 coord22 coord23 coord24 = VR.lorentz_add.k_rhophi_eta_tau_xy_theta_t coord11 coord12 coord13 coord14 coord21 coord22 coord23 coord24 := by
  simp only [VS.lorentz_add.k_rhophi_eta_tau_xy_theta_t, VR.lorentz_add.k_rhophi_eta_tau_xy_theta_t, VS.spatial_add.rhophi_eta_xy_theta_eq, c08_lorentz_t_rhophi_eta_tau, VS.lorentz_t.xy_theta_t_eq, h0, VR.P.nanToNum_eq]

theorem c08_lorentz_add_k_rhophi_eta_tau_xy_theta_tau (coord11 coord12 coord13 coord14 coord21 coord22 coord23 coord24 : ℝ) (h0 : 0 ≤ coord14) (h1 : 0 ≤ coord24) (hres : 0 ≤ (VR.lorentz_add.k_rhophi_eta_tau_xy_theta_tau coord11 coord12 coord13 coord14 coord21 coord22 coord23 coord24).2.2.2) :
    VS.lorentz_add.k_rhophi_eta_tau_xy_theta_tau coord11 coord12 coord13 coord14 coord21 coord22 coord23 coord24 = VR.lorentz_add.k_rhophi_eta_tau_xy_theta_tau coord11 coord12 coord13 coord14 coord21 coord22 coord23 coord24 := by
  simp only [VR.lorentz_add.k_rhophi_eta_tau_xy_theta_tau] at hres
  simp only [VS.lorentz_add.k_rhophi_eta_tau_xy_theta_tau, VR.lorentz_add.k_rhophi_eta_tau_xy_theta_tau, VS.spatial_add.rhophi_eta_xy_theta_eq, c08_lorentz_t_rhophi_eta_tau, c08_lorentz_t_xy_theta_tau, c08_lorentz_tau_xy_z_t, h0, h1, VR.P.nanToNum_eq]
  rw [c08_lorentz_tau_xy_z_t_of_result _ _ _ _ hres]

theorem c08_lorentz_add_k_rhophi_eta_tau_xy_z_t (coord11 coord12 coord13 coord14 coord21 coord22 coord23 coord24 : ℝ) (h0 : 0 ≤ coord14) :
    VS.lorentz_add.k_rhophi_eta_tau_xy_z_t coord11 coord12 coord13 coord14 coord21 coord22 coord23 coord24 = VR.lorentz_add.k_rhophi_eta_tau_xy_z_t coord11 coord12 coord13 coord14 coord21 coord22 coord23 coord24 := by
  simp only [VS.lorentz_add.k_rhophi_eta_tau_xy_z_t, VR.lorentz_add.k_rhophi_eta_tau_xy_z_t, VS.spatial_add.rhophi_eta_xy_z_eq, c08_lorentz_t_rhophi_eta_tau, VS.lorentz_t.xy_z_t_eq, h0, VR.P.nanToNum_eq]

theorem c08_lorentz_add_k_rhophi_eta_tau_xy_z_tau (coord11 coord12 coord13 coord14 coord21 coord22 coord23 coord24 : ℝ) (h0 : 0 ≤ coord14) (h1 : 0 ≤ coord24) (hres : 0 ≤ (VR.lorentz_add.k_rhophi_eta_tau_xy_z_tau coord11 coord12 coord13 coord14 coord21 coord22 coord23 coord24).2.2.2) :
    VS.lorentz_add.k_rhophi_eta_tau_xy_z_tau coord11 coord12 coord13 coord14 coord21 coord22 coord23 coord24 = VR.lorentz_add.k_rhophi_eta_tau_xy_z_tau coord11 coord12 coord13 coord14 coord21 coord22 coord23 coord24 := by
  simp only [VR.lorentz_add.k_rhophi_eta_tau_xy_z_tau] at hres
  simp only [VS.lorentz_add.k_rhophi_eta_tau_xy_z_tau, VR.lorentz_add.k_rhophi_eta_tau_xy_z_tau, VS.spatial_add.rhophi_eta_xy_z_eq, c08_lorentz_t_rhophi_eta_tau, c08_lorentz_t_xy_z_tau, c08_lorentz_tau_xy_z_t, h0, h1, VR.P.nanToNum_eq]
  rw [c08_lorentz_tau_xy_z_t_of_result _ _ _ _ hres]

theorem c08_lorentz_add_k_rhophi_theta_t_rhophi_eta_tau (coord11 coord12 coord13 coord14 coord21 coord22 coord23 coord24 : ℝ) (h0 : 0 ≤ coord24) :
    VS.lorentz_add.k_rhophi_theta_t_rhophi_eta_tau coord11 coord12 coord13 coord14 coord21 coord22 coord23 coord24 = VR.lorentz_add.k_rhophi_theta_t_rhophi_eta_tau coord11 coord12 coord13 coord14 coord21 coord22 coord23 coord24 := by
  simp only [VS.lorentz_add.k_rhophi_theta_t_rhophi_eta_tau, VR.lorentz_add.k_rhophi_theta_t_rhophi_eta_tau, VS.spatial_add.rhophi_theta_rhophi_eta_eq, VS.lorentz_t.rhophi_theta_t_eq, c08_lorentz_t_rhophi_eta_tau, h0, VR.P.nanToNum_eq]

theorem c08_lorentz_add_k_rhophi_theta_t_rhophi_theta_tau (coord11 coord12 coord13 coord14 coord21 coord22 coord23 coord24 : ℝ) (h0 : 0 ≤ coord24) :
    VS.lorentz_add.k_rhophi_theta_t_rhophi_theta_tau coord11 coord12 coord13 coord14 coord21 coord22 coord23 coord24 = VR.lorentz_add.k_rhophi_theta_t_rhophi_theta_tau coord11 coord12 coord13 coord14 coord21 coord22 coord23 coord24 := by
  simp only [VS.lorentz_add.k_rhophi_theta_t_rhophi_theta_tau, VR.lorentz_add.k_rhophi_theta_t_rhophi_theta_tau, VS.spatial_add.rhophi_theta_rhophi_theta_eq, VS.lorentz_t.rhophi_theta_t_eq, c08_lorentz_t_rhophi_theta_tau, h0, VR.P.nanToNum_eq]

theorem c08_lorentz_add_k_rhophi_theta_t_rhophi_z_tau (coord11 coord12 coord13 coord14 coord21 coord22 coord23 coord24 : ℝ) (h0 : 0 ≤ coord24) :
    VS.lorentz_add.k_rhophi_theta_t_rhophi_z_tau coord11 coord12 coord13 coord14 coord21 coord22 coord23 coord24 = VR.lorentz_add.k_rhophi_theta_t_rhophi_z_tau coord11 coord12 coord13 coord14 coord21 coord22 coord23 coord24 := by
  simp only [VS.lorentz_add.k_rhophi_theta_t_rhophi_z_tau, VR.lorentz_add.k_rhophi_theta_t_rhophi_z_tau, VS.spatial_add.rhophi_theta_rhophi_z_eq, VS.lorentz_t.rhophi_theta_t_eq, c08_lorentz_t_rhophi_z_tau, h0, VR.P.nanToNum_eq]

theorem c08_lorentz_add_k_rhophi_theta_t_xy_eta_tau (coord11 coord12 coord13 coord14 coord21 coord22 coord23 coord24 : ℝ) (h0 : 0 ≤ coord24) :
    VS.lorentz_add.k_rhophi_theta_t_xy_eta_tau coord11 coord12 coord13 coord14 coord21 coord22 coord23 coord24 = VR.lorentz_add.k_rhophi_theta_t_xy_eta_tau coord11 coord12 coord13 coord14 coord21 coord22 coord23 coord24 := by
  simp only [VS.lorentz_add.k_rhophi_theta_t_xy_eta_tau, VR.lorentz_add.k_rhophi_theta_t_xy_eta_tau, VS.spatial_add.rhophi_theta_xy_eta_eq, VS.lorentz_t.rhophi_theta_t_eq, c08_lorentz_t_xy_eta_tau, h0, VR.P.nanToNum_eq]

theorem c08_lorentz_add_k_rhophi_theta_t_xy_theta_tau (coord11 coord12 coord13 coord14 coord21 coord22 coord23 coord24 : ℝ) (h0 : 0 ≤ coord24) :
    VS.lorentz_add.k_rhophi_theta_t_xy_theta_tau coord11 coord12 coord13 coord14 coord21 coord22 coord23 coord24 = VR.lorentz_add.k_rhophi_theta_t_xy_theta_tau coord11 coord12 coord13 coord14 coord21 coord22 coord23 coord24 := by
  simp only [VS.lorentz_add.k_rhophi_theta_t_xy_theta_tau, VR.lorentz_add.k_rhophi_theta_t_xy_theta_tau, VS.spatial_add.rhophi_theta_xy_theta_eq, VS.lorentz_t.rhophi_theta_t_eq, c08_lorentz_t_xy_theta_tau, h0, VR.P.nanToNum_eq]

theorem c08_lorentz_add_k_rhophi_theta_t_xy_z_tau (coord11 coord12 coord13 coord14 coord21 coord22 coord23 coord24 : ℝ) (h0 : 0 ≤ coord24) :
    VS.lorentz_add.k_rhophi_theta_t_xy_z_tau coord11 coord12 coord13 coord14 coord21 coord22 coord23 coord24 = VR.lorentz_add.k_rhophi_theta_t_xy_z_tau coord11 coord12 coord13 coord14 coord21 coord22 coord23 coord24 := by
  simp only [VS.lorentz_add.k_rhophi_theta_t_xy_z_tau, VR.lorentz_add.k_rhophi_theta_t_xy_z_tau, VS.spatial_add.rhophi_theta_xy_z_eq, VS.lorentz_t.rhophi_theta_t_eq, c08_lorentz_t_xy_z_tau, h0, VR.P.nanToNum_eq]

theorem c08_lorentz_add_k_rhophi_theta_tau_rhophi_eta_t (coord11 coord12 coord13 coord14 coord21 coord22 coord23 coord24 : ℝ) (h0 : 0 ≤ coord14) :
    VS.lorentz_add.k_rhophi_theta_tau_rhophi_eta_t coord11 coord12 coord13 coord14 coord21 coord22 coord23 coord24 = VR.lorentz_add.k_rhophi_theta_tau_rhophi_eta_t coord11 coord12 coord13 coord14 coord21 coord22 coord23 coord24 := by
  simp only [VS.lorentz_add.k_rhophi_theta_tau_rhophi_eta_t, VR.lorentz_add.k_rhophi_theta_tau_rhophi_eta_t, VS.spatial_add.rhophi_theta_rhophi_eta_eq, c08_lorentz_t_rhophi_theta_tau, VS.lorentz_t.rhophi_eta_t_eq, h0, VR.P.nanToNum_eq]

theorem c08_lorentz_add_k_rhophi_theta_tau_rhophi_eta_tau (coord11 coord12 coord13 coord14 coord21 coord22 coord23 coord24 : ℝ) (h0 : 0 ≤ coord14) (h1 : 0 ≤ coord24) (hres : 0 ≤ (VR.lorentz_add.k_rhophi_theta_tau_rhophi_eta_tau coord11 coord12 coord13 coord14 coord21 coord22 coord23 coord24).2.2.2) :
    VS.lorentz_add.k_rhophi_theta_tau_rhophi_eta_tau coord11 coord12 coord13 coord14 coord21 coord22 coord23 coord24 = VR.lorentz_add.k_rhophi_theta_tau_rhophi_eta_tau coord11 coord12 coord13 coord14 coord21 coord22 coord23 coord24 := by
  simp only [VR.lorentz_add.k_rhophi_theta_tau_rhophi_eta_tau] at hres
  simp only [VS.lorentz_add.k_rhophi_theta_tau_rhophi_eta_tau, VR.lorentz_add.k_rhophi_theta_tau_rhophi_eta_tau, VS.spatial_add.rhophi_theta_rhophi_eta_eq, c08_lorentz_t_rhophi_theta_tau, c08_lorentz_t_rhophi_eta_tau, c08_lorentz_tau_xy_z_t, h0, h1, VR.P.nanToNum_eq]
  rw [c08_lorentz_tau_xy_z_t_of_result _ _ _ _ hres]

theorem c08_lorentz_add_k_rhophi_theta_tau_rhophi_theta_t (coord11 coord12 coord13 coord14 coord21 coord22 coord23 coord24 : ℝ) (h0 : 0 ≤ coord14) :
    VS.lorentz_add.k_rhophi_theta_tau_rhophi_theta_t coord11 coord12 coord13 coord14 coord21 coord22 coord23 coord24 = VR.lorentz_add.k_rhophi_theta_tau_rhophi_theta_t coord11 coord12 coord13 coord14 coord21 coord22 coord23 coord24 := by
  simp only [VS.lorentz_add.k_rhophi_theta_tau_rhophi_theta_t, VR.lorentz_add.k_rhophi_theta_tau_rhophi_theta_t, VS.spatial_add.rhophi_theta_rhophi_theta_eq, c08_lorentz_t_rhophi_theta_tau, VS.lorentz_t.rhophi_theta_t_eq, h0, VR.P.nanToNum_eq]

theorem c08_lorentz_add_k_rhophi_theta_tau_rhophi_theta_tau (coord11 coord12 coord13 coord14 coord21 coord22 coord23 coord24 : ℝ) (h0 : 0 ≤ coord14) (h1 : 0 ≤ coord24) (hres : 0 ≤ (VR.lorentz_add.k_rhophi_theta_tau_rhophi_theta_tau coord11 coord12 coord13 coord14 coord21 coord22 coord23 coord24).2.2.2) :
    VS.lorentz_add.k_rhophi_theta_tau_rhophi_theta_tau coord11 coord12 coord13 coord14 coord21 coord22 coord23 coord24 = VR.lorentz_add.k_rhophi_theta_tau_rhophi_theta_tau coord11 coord12 coord13 coord14 coord21 coord22 coord23 coord24 := by
  simp only [VR.lorentz_add.k_rhophi_theta_tau_rhophi_theta_tau] at hres
  simp only [VS.lorentz_add.k_rhophi_theta_tau_rhophi_theta_tau, VR.lorentz_add.k_rhophi_theta_tau_rhophi_theta_tau, VS.spatial_add.rhophi_theta_rhophi_theta_eq, c08_lorentz_t_rhophi_theta_tau, c08_lorentz_tau_rhophi_theta_t, h0, h1, VR.P.nanToNum_eq]
  rw [c08_lorentz_tau_rhophi_theta_t_of_result _ _ _ _ hres]

theorem c08_lorentz_add_k_rhophi_theta_tau_rhophi_z_t (coord11 coord12 coord13 coord14 coord21 coord22 coord23 coord24 : ℝ) (h0 : 0 ≤ coord14) :
    VS.lorentz_add.k_rhophi_theta_tau_rhophi_z_t coord11 coord12 coord13 coord14 coord21 coord22 coord23 coord24 = VR.lorentz_add.k_rhophi_theta_tau_rhophi_z_t coord11 coord12 coord13 coord14 coord21 coord22 coord23 coord24 := by
  simp only [VS.lorentz_add.k_rhophi_theta_tau_rhophi_z_t, VR.lorentz_add.k_rhophi_theta_tau_rhophi_z_t, VS.spatial_add.rhophi_theta_rhophi_z_eq, c08_lorentz_t_rhophi_theta_tau, VS.lorentz_t.rhophi_z_t_eq, h0, VR.P.nanToNum_eq]

theorem c08_lorentz_add_k_rhophi_theta_tau_rhophi_z_tau (coord11 coord12 coord13 coord14 coord21 coord22 coord23 coord24 : ℝ) (h0 : 0 ≤ coord14) (h1 : 0 ≤ coord24) (hres : 0 ≤ (VR.lorentz_add.k_rhophi_theta_tau_rhophi_z_tau coord11 coord12 coord13 coord14 coord21 coord22 coord23 coord24).2.2.2) :
    VS.lorentz_add.k_rhophi_theta_tau_rhophi_z_tau coord11 coord12 coord13 coord14 coord21 coord22 coord23 coord24 = VR.lorentz_add.k_rhophi_theta_tau_rhophi_z_tau coord11 coord12 coord13 coord14 coord21 coord22 coord23 coord24 := by
  simp only [VR.lorentz_add.k_rhophi_theta_tau_rhophi_z_tau] at hres
  simp only [VS.lorentz_add.k_rhophi_theta_tau_rhophi_z_tau, VR.lorentz_add.k_rhophi_theta_tau_rhophi_z_tau, VS.spatial_add.rhophi_theta_rhophi_z_eq, c08_lorentz_t_rhophi_theta_tau, c08_lorentz_t_rhophi_z_tau, c08_lorentz_tau_xy_z_t, h0, h1, VR.P.nanToNum_eq]
  rw [c08_lorentz_tau_xy_z_t_of_result _ _ _ _ hres]

theorem c08_lorentz_add_k_rhophi_theta_tau_xy_eta_t (coord11 coord12 coord13 coord14 coord21 coord22 coord23 coord24 : ℝ) (h0 : 0 ≤ coord14) :
    VS.lorentz_add.k_rhophi_theta_tau_xy_eta_t coord11 coord12 coord13 coord14 coord21 coord22 coord23 coord24 = VR.lorentz_add.k_rhophi_theta_tau_xy_eta_t coord11 coord12 coord13 coord14 coord21 coord22 coord23 coord24 := by
  simp only [VS.lorentz_add.k_rhophi_theta_tau_xy_eta_t, VR.lorentz_add.k_rhophi_theta_tau_xy_eta_t, VS.spatial_add.rhophi_theta_xy_eta_eq, c08_lorentz_t_rhophi_theta_tau, VS.lorentz_t.xy_eta_t_eq, h0, VR.P.nanToNum_eq]

theorem c08_lorentz_add_k_rhophi_theta_tau_xy_eta_tau (coord11 coord12 coord13 coord14 coord21 coord22 coord23 coord24 : ℝ) (h0 : 0 ≤ coord24) (h1 : 0 ≤ coord14) (hres : 0 ≤ (VR.lorentz_add.k_rhophi_theta_tau_xy_eta_tau coord11 coord12 coord13 coord14 coord21 coord22 coord23 coord24).2.2.2) :
    VS.lorentz_add.k_rhophi_theta_tau_xy_eta_tau coord11 coord12 coord13 coord14 coord21 coord22 coord23 coord24 = VR.lorentz_add.k_rhophi_theta_tau_xy_eta_tau coord11 coord12 coord13 coord14 coord21 coord22 coord23 coord24 := by
  simp only [VR.lorentz_add.k_rhophi_theta_tau_xy_eta_tau] at hres
  simp only [VS.lorentz_add.k_rhophi_theta_tau_xy_eta_tau, VR.lorentz_add.k_rhophi_theta_tau_xy_eta_tau, VS.spatial_add.rhophi_theta_xy_eta_eq, c08_lorentz_t_rhophi_theta_tau, c08_lorentz_t_xy_eta_tau, c08_lorentz_tau_xy_z_t, h0, h1, VR.P.nanToNum_eq]
  rw [c08_lorentz_tau_xy_z_t_of_result _ _ _ _ hres]

theorem c08_lorentz_add_k_rhophi_theta_tau_xy_theta_t (coord11 coord12 coord13 coord14 coord21 coord22 coord23 coord24 : ℝ) (h0 : 0 ≤ coord14) :
    VS.lorentz_add.k_rhophi_theta_tau_xy_theta_t coord11 coord12 coord13 coord14 coord21 coord22 coord23 coord24 = VR.lorentz_add.k_rhophi_theta_tau_xy_theta_t coord11 coord12 coord13 coord14 coord21 coord22 coord23 coord24 := by
  simp only [VS.lorentz_add.k_rhophi_theta_tau_xy_theta_t, VR.lorentz_add.k_rhophi_theta_tau_xy_theta_t, VS.spatial_add.rhophi_theta_xy_theta_eq, c08_lorentz_t_rhophi_theta_tau, VS.lorentz_t.xy_theta_t_eq, h0, VR.P.nanToNum_eq]

theorem c08_lorentz_add_k_rhophi_theta_tau_xy_theta_tau (coord11 coord12 coord13 coord14 coord21 coord22 coord23 coord24 : ℝ) (h0 : 0 ≤ coord14) (h1 : 0 ≤ coord24) (hres : 0 ≤ (VR.lorentz_add.k_rhophi_theta_tau_xy_theta_tau coord11 coord12 coord13 coord14 coord21 coord22 coord23 coord24).2.2.2) :
    VS.lorentz_add.k_rhophi_theta_tau_xy_theta_tau coord11 coord12 coord13 coord14 coord21 coord22 coord23 coord24 = VR.lorentz_add.k_rhophi_theta_tau_xy_theta_tau coord11 coord12 coord13 coord14 coord21 coord22 coord23 coord24 := by
  simp only [VR.lorentz_add.k_rhophi_theta_tau_xy_theta_tau] at hres
  simp only [VS.lorentz_add.k_rhophi_theta_tau_xy_theta_tau, VR.lorentz_add.k_rhophi_theta_tau_xy_theta_tau, VS.spatial_add.rhophi_theta_xy_theta_eq, c08_lorentz_t_rhophi_theta_tau, c08_lorentz_t_xy_theta_tau, c08_lorentz_tau_xy_z_t, h0, h1, VR.P.nanToNum_eq]
  rw [c08_lorentz_tau_xy_z_t_of_result _ _ _ _ hres]

theorem c08_lorentz_add_k_rhophi_theta_tau_xy_z_t (coord11 coord12 coord13 coord14 coord21 coord22 coord23 coord24 : ℝ) (h0 : 0 ≤ coord14) :
    VS.lorentz_add.k_rhophi_theta_tau_xy_z_t coord11 coord12 coord13 coord14 coord21 coord22 coord23 coord24 = VR.lorentz_add.k_rhophi_theta_tau_xy_z_t coord11 coord12 coord13 coord14 coord21 coord22 coord23 coord24 := by
  simp only [VS.lorentz_add.k_rhophi_theta_tau_xy_z_t, VR.lorentz_add.k_rhophi_theta_tau_xy_z_t, VS.spatial_add.rhophi_theta_xy_z_eq, c08_lorentz_t_rhophi_theta_tau, VS.lorentz_t.xy_z_t_eq, h0, VR.P.nanToNum_eq]

theorem c08_lorentz_add_k_rhophi_theta_tau_xy_z_tau (coord11 coord12 coord13 coord14 coord21 coord22 coord23 coord24 : ℝ) (h0 : 0 ≤ coord14) (h1 : 0 ≤ coord24) (hres : 0 ≤ (VR.lorentz_add.k_rhophi_theta_tau_xy_z_tau coord11 coord12 coord13 coord14 coord21 coord22 coord23 coord24).2.2.2) :
    VS.lorentz_add.k_rhophi_theta_tau_xy_z_tau coord11 coord12 coord13 coord14 coord21 coord22 coord23 coord24 = VR.lorentz_add.k_rhophi_theta_tau_xy_z_tau coord11 coord12 coord13 coord14 coord21 coord22 coord23 coord24 := by
  simp only [VR.lorentz_add.k_rhophi_theta_tau_xy_z_tau] at hres
  simp only [VS.lorentz_add.k_rhophi_theta_tau_xy_z_tau, VR.lorentz_add.k_rhophi_theta_tau_xy_z_tau, VS.spatial_add.rhophi_theta_xy_z_eq, c08_lorentz_t_rhophi_theta_tau, c08_lorentz_t_xy_z_tau, c08_lorentz_tau_xy_z_t, h0, h1, VR.P.nanToNum_eq]
  rw [c08_lorentz_tau_xy_z_t_of_result _ _ _ _ hres]

theorem c08_lorentz_add_k_rhophi_z_t_rhophi_eta_tau (coord11 coord12 coord13 coord14 coord21 coord22 coord23 coord24 : ℝ) (h0 : 0 ≤ coord24) :
    VS.lorentz_add.k_rhophi_z_t_rhophi_eta_tau coord11 coord12 coord13 coord14 coord21 coord22 coord23 coord24 = VR.lorentz_add.k_rhophi_z_t_rhophi_eta_tau coord11 coord12 coord13 coord14 coord21 coord22 coord23 coord24 := by
  simp only [VS.lorentz_add.k_rhophi_z_t_rhophi_eta_tau, VR.lorentz_add.k_rhophi_z_t_rhophi_eta_tau, VS.spatial_add.rhophi_z_rhophi_eta_eq, VS.lorentz_t.rhophi_z_t_eq, c08_lorentz_t_rhophi_eta_tau, h0, VR.P.nanToNum_eq]

theorem c08_lorentz_add_k_rhophi_z_t_rhophi_theta_tau (coord11 coord12 coord13 coord14 coord21 coord22 coord23 coord24 : ℝ) (h0 : 0 ≤ coord24) :
    VS.lorentz_add.k_rhophi_z_t_rhophi_theta_tau coord11 coord12 coord13 coord14 coord21 coord22 coord23 coord24 = VR.lorentz_add.k_rhophi_z_t_rhophi_theta_tau coord11 coord12 coord13 coord14 coord21 coord22 coord23 coord24 := by
  simp only [VS.lorentz_add.k_rhophi_z_t_rhophi_theta_tau, VR.lorentz_add.k_rhophi_z_t_rhophi_theta_tau, VS.spatial_add.rhophi_z_rhophi_theta_eq, VS.lorentz_t.rhophi_z_t_eq, c08_lorentz_t_rhophi_theta_tau, h0, VR.P.nanToNum_eq]

theorem c08_lorentz_add_k_rhophi_z_t_rhophi_z_tau (coord11 coord12 coord13 coord14 coord21 coord22 coord23 coord24 : ℝ) (h0 : 0 ≤ coord24) :
    VS.lorentz_add.k_rhophi_z_t_rhophi_z_tau coord11 coord12 coord13 coord14 coord21 coord22 coord23 coord24 = VR.lorentz_add.k_rhophi_z_t_rhophi_z_tau coord11 coord12 coord13 coord14 coord21 coord22 coord23 coord24 := by
  simp only [VS.lorentz_add.k_rhophi_z_t_rhophi_z_tau, VR.lorentz_add.k_rhophi_z_t_rhophi_z_tau, VS.spatial_add.rhophi_z_rhophi_z_eq, VS.lorentz_t.rhophi_z_t_eq, c08_lorentz_t_rhophi_z_tau, h0, VR.P.nanToNum_eq]

theorem c08_lorentz_add_k_rhophi_z_t_xy_eta_tau (coord11 coord12 coord13 coord14 coord21 coord22 coord23 coord24 : ℝ) (h0 : 0 ≤ coord24) :
    VS.lorentz_add.k_rhophi_z_t_xy_eta_tau coord11 coord12 coord13 coord14 coord21 coord22 coord23 coord24 = VR.lorentz_add.k_rhophi_z_t_xy_eta_tau coord11 coord12 coord13 coord14 coord21 coord22 coord23 coord24 := by
  simp only [VS.lorentz_add.k_rhophi_z_t_xy_eta_tau, VR.lorentz_add.k_rhophi_z_t_xy_eta_tau, VS.spatial_add.rhophi_z_xy_eta_eq, VS.lorentz_t.rhophi_z_t_eq, c08_lorentz_t_xy_eta_tau, h0, VR.P.nanToNum_eq]

theorem c08_lorentz_add_k_rhophi_z_t_xy_theta_tau (coord11 coord12 coord13 coord14 coord21 coord22 coord23 coord24 : ℝ) (h0 : 0 ≤ coord24) :
    VS.lorentz_add.k_rhophi_z_t_xy_theta_tau coord11 coord12 coord13 coord14 coord21 coord22 coord23 coord24 = VR.lorentz_add.k_rhophi_z_t_xy_theta_tau coord11 coord12 coord13 coord14 coord21 coord22 coord23 coord24 := by
  simp only [VS.lorentz_add.k_rhophi_z_t_xy_theta_tau, VR.lorentz_add.k_rhophi_z_t_xy_theta_tau, VS.spatial_add.rhophi_z_xy_theta_eq, VS.lorentz_t.rhophi_z_t_eq, c08_lorentz_t_xy_theta_tau, h0, VR.P.nanToNum_eq]

theorem c08_lorentz_add_k_rhophi_z_t_xy_z_tau (coord11 coord12 coord13 coord14 coord21 coord22 coord23 coord24 : ℝ) (h0 : 0 ≤ coord24) :
    VS.lorentz_add.k_rhophi_z_t_xy_z_tau coord11 coord12 coord13 coord14 coord21 coord22 coord23 coord24 = VR.lorentz_add.k_rhophi_z_t_xy_z_tau coord11 coord12 coord13 coord14 coord21 coord22 coord23 coord24 := by
  simp only [VS.lorentz_add.k_rhophi_z_t_xy_z_tau, VR.lorentz_add.k_rhophi_z_t_xy_z_tau, VS.spatial_add.rhophi_z_xy_z_eq, VS.lorentz_t.rhophi_z_t_eq, c08_lorentz_t_xy_z_tau, h0, VR.P.nanToNum_eq]

theorem c08_lorentz_add_k_rhophi_z_tau_rhophi_eta_t (coord11 coord12 coord13 coord14 coord21 coord22 coord23 coord24 : ℝ) (h0 : 0 ≤ coord14) :
    VS.lorentz_add.k_rhophi_z_tau_rhophi_eta_t coord11 coord12 coord13 coord14 coord21 coord22 coord23 coord24 = VR.lorentz_add.k_rhophi_z_tau_rhophi_eta_t coord11 coord12 coord13 coord14 coord21 coord22 coord23 coord24 := by
  simp only [VS.lorentz_add.k_rhophi_z_tau_rhophi_eta_t, VR.lorentz_add.k_rhophi_z_tau_rhophi_eta_t, VS.spatial_add.rhophi_z_rhophi_eta_eq, c08_lorentz_t_rhophi_z_tau, VS.lorentz_t.rhophi_eta_t_eq, h0, VR.P.nanToNum_eq]

theorem c08_lorentz_add_k_rhophi_z_tau_rhophi_eta_tau (coord11 coord12 coord13 coord14 coord21 coord22 coord23 coord24 : ℝ) (h0 : 0 ≤ coord14) (h1 : 0 ≤ coord24) (hres : 0 ≤ (VR.lorentz_add.k_rhophi_z_tau_rhophi_eta_tau coord11 coord12 coord13 coord14 coord21 coord22 coord23 coord24).2.2.2) :
    VS.lorentz_add.k_rhophi_z_tau_rhophi_eta_tau coord11 coord12 coord13 coord14 coord21 coord22 coord23 coord24 = VR.lorentz_add.k_rhophi_z_tau_rhophi_eta_tau coord11 coord12 coord13 coord14 coord21 coord22 coord23 coord24 := by
  simp only [VR.lorentz_add.k_rhophi_z_tau_rhophi_eta_tau] at hres
  simp only [VS.lorentz_add.k_rhophi_z_tau_rhophi_eta_tau, VR.lorentz_add.k_rhophi_z_tau_rhophi_eta_tau, VS.spatial_add.rhophi_z_rhophi_eta_eq, c08_lorentz_t_rhophi_z_tau, c08_lorentz_t_rhophi_eta_tau, c08_lorentz_tau_xy_z_t, h0, h1, VR.P.nanToNum_eq]
  rw [c08_lorentz_tau_xy_z_t_of_result _ _ _ _ hres]

theorem c08_lorentz_add_k_rhophi_z_tau_rhophi_theta_t (coord11 coord12 coord13 coord14 coord21 coord22 coord23 coord24 : ℝ) (h0 : 0 ≤ coord14) :
    VS.lorentz_add.k_rhophi_z_tau_rhophi_theta_t coord11 coord12 coord13 coord14 coord21 coord22 coord23 coord24 = VR.lorentz_add.k_rhophi_z_tau_rhophi_theta_t coord11 coord12 coord13 coord14 coord21 coord22 coord23 coord24 := by
  simp only [VS.lorentz_add.k_rhophi_z_tau_rhophi_theta_t, VR.lorentz_add.k_rhophi_z_tau_rhophi_theta_t, VS.spatial_add.rhophi_z_rhophi_theta_eq, c08_lorentz_t_rhophi_z_tau, VS.lorentz_t.rhophi_theta_t_eq, h0, VR.P.nanToNum_eq]

theorem c08_lorentz_add_k_rhophi_z_tau_rhophi_theta_tau (coord11 coord12 coord13 coord14 coord21 coord22 coord23 coord24 : ℝ) (h0 : 0 ≤ coord14) (h1 : 0 ≤ coord24) (hres : 0 ≤ (VR.lorentz_add.k_rhophi_z_tau_rhophi_theta_tau coord11 coord12 coord13 coord14 coord21 coord22 coord23 coord24).2.2.2) :
    VS.lorentz_add.k_rhophi_z_tau_rhophi_theta_tau coord11 coord12 coord13 coord14 coord21 coord22 coord23 coord24 = VR.lorentz_add.k_rhophi_z_tau_rhophi_theta_tau coord11 coord12 coord13 coord14 coord21 coord22 coord23 coord24 := by
  simp only [VR.lorentz_add.k_rhophi_z_tau_rhophi_theta_tau] at hres
  simp only [VS.lorentz_add.k_rhophi_z_tau_rhophi_theta_tau, VR.lorentz_add.k_rhophi_z_tau_rhophi_theta_tau, VS.spatial_add.rhophi_z_rhophi_theta_eq, c08_lorentz_t_rhophi_z_tau, c08_lorentz_t_rhophi_theta_tau, c08_lorentz_tau_xy_z_t, h0, h1, VR.P.nanToNum_eq]
  rw [c08_lorentz_tau_xy_z_t_of_result _ _ _ _ hres]

theorem c08_lorentz_add_k_rhophi_z_tau_rhophi_z_t (coord11 coord12 coord13 coord14 coord21 coord22 coord23 coord24 : ℝ) (h0 : 0 ≤ coord14) :
    VS.lorentz_add.k_rhophi_z_tau_rhophi_z_t coord11 coord12 coord13 coord14 coord21 coord22 coord23 coord24 = VR.lorentz_add.k_rhophi_z_tau_rhophi_z_t coord11 coord12 coord13 coord14 coord21 coord22 coord23 coord24 := by
  simp only [VS.lorentz_add.k_rhophi_z_tau_rhophi_z_t, VR.lorentz_add.k_rhophi_z_tau_rhophi_z_t, VS.spatial_add.rhophi_z_rhophi_z_eq, c08_lorentz_t_rhophi_z_tau, VS.lorentz_t.rhophi_z_t_eq, h0, VR.P.nanToNum_eq]

theorem c08_lorentz_add_k_rhophi_z_tau_rhophi_z_tau (coord11 coord12 coord13 coord14 coord21 coord22 coord23 coord24 : ℝ) (h0 : 0 ≤ coord14) (h1 : 0 ≤ coord24) (hres : 0 ≤ (VR.lorentz_add.k_rhophi_z_tau_rhophi_z_tau coord11 coord12 coord13 coord14 coord21 coord22 coord23 coord24).2.2.2) :
    VS.lorentz_add.k_rhophi_z_tau_rhophi_z_tau coord11 coord12 coord13 coord14 coord21 coord22 coord23 coord24 = VR.lorentz_add.k_rhophi_z_tau_rhophi_z_tau coord11 coord12 coord13 coord14 coord21 coord22 coord23 coord24 := by
  simp only [VR.lorentz_add.k_rhophi_z_tau_rhophi_z_tau] at hres
  simp only [VS.lorentz_add.k_rhophi_z_tau_rhophi_z_tau, VR.lorentz_add.k_rhophi_z_tau_rhophi_z_tau, VS.spatial_add.rhophi_z_rhophi_z_eq, c08_lorentz_t_rhophi_z_tau, c08_lorentz_tau_rhophi_z_t, h0, h1, VR.P.nanToNum_eq]
  rw [c08_lorentz_tau_rhophi_z_t_of_result _ _ _ _ hres]

theorem c08_lorentz_add_k_rhophi_z_tau_xy_eta_t (coord11 coord12 coord13 coord14 coord21 coord22 coord23 coord24 : ℝ) (h0 : 0 ≤ coord14) :
    VS.lorentz_add.k_rhophi_z_tau_xy_eta_t coord11 coord12 coord13 coord14 coord21 coord22 coord23 coord24 = VR.lorentz_add.k_rhophi_z_tau_xy_eta_t coord11 coord12 coord13 coord14 coord21 coord22 coord23 coord24 := by
  simp only [VS.lorentz_add.k_rhophi_z_tau_xy_eta_t, VR.lorentz_add.k_rhophi_z_tau_xy_eta_t, VS.spatial_add.rhophi_z_xy_eta_eq, c08_lorentz_t_rhophi_z_tau, VS.lorentz_t.xy_eta_t_eq, h0, VR.P.nanToNum_eq]

theorem c08_lorentz_add_k_rhophi_z_tau_xy_eta_tau (coord11 coord12 coord13 coord14 coord21 coord22 coord23 coord24 : ℝ) (h0 : 0 ≤ coord14) (h1 : 0 ≤ coord24) (hres : 0 ≤ (VR.lorentz_add.k_rhophi_z_tau_xy_eta_tau coord11 coord12 coord13 coord14 coord21 coord22 coord23 coord24).2.2.2) :
    VS.lorentz_add.k_rhophi_z_tau_xy_eta_tau coord11 coord12 coord13 coord14 coord21 coord22 coord23 coord24 = VR.lorentz_add.k_rhophi_z_tau_xy_eta_tau coord11 coord12 coord13 coord14 coord21 coord22 coord23 coord24 := by
  simp only [VR.lorentz_add.k_rhophi_z_tau_xy_eta_tau] at hres
  simp only [VS.lorentz_add.k_rhophi_z_tau_xy_eta_tau, VR.lorentz_add.k_rhophi_z_tau_xy_eta_tau, VS.spatial_add.rhophi_z_xy_eta_eq, c08_lorentz_t_rhophi_z_tau, c08_lorentz_t_xy_eta_tau, c08_lorentz_tau_xy_z_t, h0, h1, VR.P.nanToNum_eq]
  rw [c08_lorentz_tau_xy_z_t_of_result _ _ _ _ hres]

theorem c08_lorentz_add_k_rhophi_z_tau_xy_theta_t (coord11 coord12 coord13 coord14 coord21 coord22 coord23 coord24 : ℝ) (h0 : 0 ≤ coord14) :
    VS.lorentz_add.k_rhophi_z_tau_xy_theta_t coord11 coord12 coord13 coord14 coord21 coord22 coord23 coord24 = VR.lorentz_add.k_rhophi_z_tau_xy_theta_t coord11 coord12 coord13 coord14 coord21 coord22 coord23 coord24 := by
  simp only [VS.lorentz_add.k_rhophi_z_tau_xy_theta_t, VR.lorentz_add.k_rhophi_z_tau_xy_theta_t, VS.spatial_add.rhophi_z_xy_theta_eq, c08_lorentz_t_rhophi_z_tau, VS.lorentz_t.xy_theta_t_eq, h0, VR.P.nanToNum_eq]

theorem c08_lorentz_add_k_rhophi_z_tau_xy_theta_tau (coord11 coord12 coord13 coord14 coord21 coord22 coord23 coord24 : ℝ) (h0 : 0 ≤ coord14) (h1 : 0 ≤ coord24) (hres : 0 ≤ (VR.lorentz_add.k_rhophi_z_tau_xy_theta_tau coord11 coord12 coord13 coord14 coord21 coord22 coord23 coord24).2.2.2) :
    VS.lorentz_add.k_rhophi_z_tau_xy_theta_tau coord11 coord12 coord13 coord14 coord21 coord22 coord23 coord24 = VR.lorentz_add.k_rhophi_z_tau_xy_theta_tau coord11 coord12 coord13 coord14 coord21 coord22 coord23 coord24 := by
  simp only [VR.lorentz_add.k_rhophi_z_tau_xy_theta_tau] at hres
  simp only [VS.lorentz_add.k_rhophi_z_tau_xy_theta_tau, VR.lorentz_add.k_rhophi_z_tau_xy_theta_tau, VS.spatial_add.rhophi_z_xy_theta_eq, c08_lorentz_t_rhophi_z_tau, c08_lorentz_t_xy_theta_tau, c08_lorentz_tau_xy_z_t, h0, h1, VR.P.nanToNum_eq]
  rw [c08_lorentz_tau_xy_z_t_of_result _ _ _ _ hres]

theorem c08_lorentz_add_k_rhophi_z_tau_xy_z_t (coord11 coord12 coord13 coord14 coord21 coord22 coord23 coord24 : ℝ) (h0 : 0 ≤ coord14) :
    VS.lorentz_add.k_rhophi_z_tau_xy_z_t coord11 coord12 coord13 coord14 coord21 coord22 coord23 coord24 = VR.lorentz_add.k_rhophi_z_tau_xy_z_t coord11 coord12 coord13 coord14 coord21 coord22 coord23 coord24 := by
  simp only [VS.lorentz_add.k_rhophi_z_tau_xy_z_t, VR.lorentz_add.k_rhophi_z_tau_xy_z_t, VS.spatial_add.rhophi_z_xy_z_eq, c08_lorentz_t_rhophi_z_tau, VS.lorentz_t.xy_z_t_eq, h0, VR.P.nanToNum_eq]

theorem c08_lorentz_add_k_rhophi_z_tau_xy_z_tau (coord11 coord12 coord13 coord14 coord21 coord22 coord23 coord24 : ℝ) (h0 : 0 ≤ coord14) (h1 : 0 ≤ coord24) (hres : 0 ≤ (VR.lorentz_add.k_rhophi_z_tau_xy_z_tau coord11 coord12 coord13 coord14 coord21 coord22 coord23 coord24).2.2.2) :
    VS.lorentz_add.k_rhophi_z_tau_xy_z_tau coord11 coord12 coord13 coord14 coord21 coord22 coord23 coord24 = VR.lorentz_add.k_rhophi_z_tau_xy_z_tau coord11 coord12 coord13 coord14 coord21 coord22 coord23 coord24 := by
  simp only [VR.lorentz_add.k_rhophi_z_tau_xy_z_tau] at hres
  simp only [VS.lorentz_add.k_rhophi_z_tau_xy_z_tau, VR.lorentz_add.k_rhophi_z_tau_xy_z_tau, VS.spatial_add.rhophi_z_xy_z_eq, c08_lorentz_t_rhophi_z_tau, c08_lorentz_t_xy_z_tau, c08_lorentz_tau_xy_z_t, h0, h1, VR.P.nanToNum_eq]
  rw [c08_lorentz_tau_xy_z_t_of_result _ _ _ _ hres]

theorem c08_lorentz_add_k_xy_eta_t_rhophi_eta_tau (coord11 coord12 coord13 coord14 coord21 coord22 coord23 coord24 : ℝ) (h0 : 0 ≤ coord24) :
    VS.lorentz_add.k_xy_eta_t_rhophi_eta_tau coord11 coord12 coord13 coord14 coord21 coord22 coord23 coord24 = VR.lorentz_add.k_xy_eta_t_rhophi_eta_tau coord11 coord12 coord13 coord14 coord21 coord22 coord23 coord24 := by
  simp only [VS.lorentz_add.k_xy_eta_t_rhophi_eta_tau, VR.lorentz_add.k_xy_eta_t_rhophi_eta_tau, VS.spatial_add.xy_eta_rhophi_eta_eq, VS.lorentz_t.xy_eta_t_eq, c08_lorentz_t_rhophi_eta_tau, h0, VR.P.nanToNum_eq]

theorem c08_lorentz_add_k_xy_eta_t_rhophi_theta_tau (coord11 coord12 coord13 coord14 coord21 coord22 coord23 coord24 : ℝ) (h0 : 0 ≤ coord24) :
    VS.lorentz_add.k_xy_eta_t_rhophi_theta_tau coord11 coord12 coord13 coord14 coord21 coord22 coord23 coord24 = VR.lorentz_add.k_xy_eta_t_rhophi_theta_tau coord11 coord12 coord13 coord14 coord21 coord22 coord23 coord24 := by
  simp only [VS.lorentz_add.k_xy_eta_t_rhophi_theta_tau, VR.lorentz_add.k_xy_eta_t_rhophi_theta_tau, VS.spatial_add.xy_eta_rhophi_theta_eq, VS.lorentz_t.xy_eta_t_eq, c08_lorentz_t_rhophi_theta_tau, h0, VR.P.nanToNum_eq]

theorem c08_lorentz_add_k_xy_eta_t_rhophi_z_tau (coord11 coord12 coord13 coord14 coord21 coord22 coord23 coord24 : ℝ) (h0 : 0 ≤ coord24) :
    VS.lorentz_add.k_xy_eta_t_rhophi_z_tau coord11 coord12 coord13 coord14 coord21 coord22 coord23 coord24 = VR.lorentz_add.k_xy_eta_t_rhophi_z_tau coord11 coord12 coord13 coord14 coord21 coord22 coord23 coord24 := by
  simp only [VS.lorentz_add.k_xy_eta_t_rhophi_z_tau, VR.lorentz_add.k_xy_eta_t_rhophi_z_tau, VS.spatial_add.xy_eta_rhophi_z_eq, VS.lorentz_t.xy_eta_t_eq, c08_lorentz_t_rhophi_z_tau, h0, VR.P.nanToNum_eq]

theorem c08_lorentz_add_k_xy_eta_t_xy_eta_tau (coord11 coord12 coord13 coord14 coord21 coord22 coord23 coord24 : ℝ) (h0 : 0 ≤ coord24) :
    VS.lorentz_add.k_xy_eta_t_xy_eta_tau coord11 coord12 coord13 coord14 coord21 coord22 coord23 coord24 = VR.lorentz_add.k_xy_eta_t_xy_eta_tau coord11 coord12 coord13 coord14 coord21 coord22 coord23 coord24 := by
  simp only [VS.lorentz_add.k_xy_eta_t_xy_eta_tau, VR.lorentz_add.k_xy_eta_t_xy_eta_tau, VS.spatial_add.xy_eta_xy_eta_eq, VS.lorentz_t.xy_eta_t_eq, c08_lorentz_t_xy_eta_tau, h0, VR.P.nanToNum_eq]

theorem c08_lorentz_add_k_xy_eta_t_xy_theta_tau (coord11 coord12 coord13 coord14 coord21 coord22 coord23 coord24 : ℝ) (h0 : 0 ≤ coord24) :
    VS.lorentz_add.k_xy_eta_t_xy_theta_tau coord11 coord12 coord13 coord14 coord21 coord22 coord23 coord24 = VR.lorentz_add.k_xy_eta_t_xy_theta_tau coord11 coord12 coord13 coord14 coord21 coord22 coord23 coord24 := by
  simp only [VS.lorentz_add.k_xy_eta_t_xy_theta_tau, VR.lorentz_add.k_xy_eta_t_xy_theta_tau, VS.spatial_add.xy_eta_xy_theta_eq, VS.lorentz_t.xy_eta_t_eq, c08_lorentz_t_xy_theta_tau, h0, VR.P.nanToNum_eq]

theorem c08_lorentz_add_k_xy_eta_t_xy_z_tau (coord11 coord12 coord13 coord14 coord21 coord22 coord23 coord24 : ℝ) (h0 : 0 ≤ coord24) :
    VS.lorentz_add.k_xy_eta_t_xy_z_tau coord11 coord12 coord13 coord14 coord21 coord22 coord23 coord24 = VR.lorentz_add.k_xy_eta_t_xy_z_tau coord11 coord12 coord13 coord14 coord21 coord22 coord23 coord24 := by
  simp only [VS.lorentz_add.k_xy_eta_t_xy_z_tau, VR.lorentz_add.k_xy_eta_t_xy_z_tau, VS.spatial_add.xy_eta_xy_z_eq, VS.lorentz_t.xy_eta_t_eq, c08_lorentz_t_xy_z_tau, h0, VR.P.nanToNum_eq]

theorem c08_lorentz_add_k_xy_eta_tau_rhophi_eta_t (coord11 coord12 coord13 coord14 coord21 coord22 coord23 coord24 : ℝ) (h0 : 0 ≤ coord14) :
    VS.lorentz_add.k_xy_eta_tau_rhophi_eta_t coord11 coord12 coord13 coord14 coord21 coord22 coord23 coord24 = VR.lorentz_add.k_xy_eta_tau_rhophi_eta_t coord11 coord12 coord13 coord14 coord21 coord22 coord23 coord24 := by
  simp only [VS.lorentz_add.k_xy_eta_tau_rhophi_eta_t, VR.lorentz_add.k_xy_eta_tau_rhophi_eta_t, VS.spatial_add.xy_eta_rhophi_eta_eq, c08_lorentz_t_xy_eta_tau, VS.lorentz_t.rhophi_eta_t_eq, h0, VR.P.nanToNum_eq]

theorem c08_lorentz_add_k_xy_eta_tau_rhophi_eta_tau (coord11 coord12 coord13 coord14 coord21 coord22 coord23 coord24 : ℝ) (h0 : 0 ≤ coord14) (h1 : 0 ≤ coord24) (hres : 0 ≤ (VR.lorentz_add.k_xy_eta_tau_rhophi_eta_tau coord11 coord12 coord13 coord14 coord21 coord22 coord23 coord24).2.2.2) :
    VS.lorentz_add.k_xy_eta_tau_rhophi_eta_tau coord11 coord12 coord13 coord14 coord21 coord22 coord23 coord24 = VR.lorentz_add.k_xy_eta_tau_rhophi_eta_tau coord11 coord12 coord13 coord14 coord21 coord22 coord23 coord24 := by
  simp only [VR.lorentz_add.k_xy_eta_tau_rhophi_eta_tau] at hres
  simp only [VS.lorentz_add.k_xy_eta_tau_rhophi_eta_tau, VR.lorentz_add.k_xy_eta_tau_rhophi_eta_tau, VS.spatial_add.xy_eta_rhophi_eta_eq, c08_lorentz_t_xy_eta_tau, c08_lorentz_t_rhophi_eta_tau, c08_lorentz_tau_xy_z_t, h0, h1, VR.P.nanToNum_eq]
  rw [c08_lorentz_tau_xy_z_t_of_result _ _ _ _ hres]

theorem c08_lorentz_add_k_xy_eta_tau_rhophi_theta_t (coord11 coord12 coord13 coord14 coord21 coord22 coord23 coord24 : ℝ) (h0 : 0 ≤ coord14) :
    VS.lorentz_add.k_xy_eta_tau_rhophi_theta_t coord11 coord12 coord13 coord14 coord21 coord22 coord23 coord24 = VR.lorentz_add.k_xy_eta_tau_rhophi_theta_t coord11 coord12 coord13 coord14 coord21 coord22 coord23 coord24 := by
  simp only [VS.lorentz_add.k_xy_eta_tau_rhophi_theta_t, VR.lorentz_add.k_xy_eta_tau_rhophi_theta_t, VS.spatial_add.xy_eta_rhophi_theta_eq, c08_lorentz_t_xy_eta_tau, VS.lorentz_t.rhophi_theta_t_eq, h0, VR.P.nanToNum_eq]

theorem c08_lorentz_add_k_xy_eta_tau_rhophi_theta_tau (coord11 coord12 coord13 coord14 coord21 coord22 coord23 coord24 : ℝ) (h0 : 0 ≤ coord14) (h1 : 0 ≤ coord24) (hres : 0 ≤ (VR.lorentz_add.k_xy_eta_tau_rhophi_theta_tau coord11 coord12 coord13 coord14 coord21 coord22 coord23 coord24).2.2.2) :
    VS.lorentz_add.k_xy_eta_tau_rhophi_theta_tau coord11 coord12 coord13 coord14 coord21 coord22 coord23 coord24 = VR.lorentz_add.k_xy_eta_tau_rhophi_theta_tau coord11 coord12 coord13 coord14 coord21 coord22 coord23 coord24 := by
  simp only [VR.lorentz_add.k_xy_eta_tau_rhophi_theta_tau] at hres
  simp only [VS.lorentz_add.k_xy_eta_tau_rhophi_theta_tau, VR.lorentz_add.k_xy_eta_tau_rhophi_theta_tau, VS.spatial_add.xy_eta_rhophi_theta_eq, c08_lorentz_t_xy_eta_tau, c08_lorentz_t_rhophi_theta_tau, c08_lorentz_tau_xy_z_t, h0, h1, VR.P.nanToNum_eq]
  rw [c08_lorentz_tau_xy_z_t_of_result _ _ _ _ hres]

theorem c08_lorentz_add_k_xy_eta_tau_rhophi_z_t (coord11 coord12 coord13 coord14 coord21 coord22 coord23 coord24 : ℝ) (h0 : 0 ≤ coord14) :
    VS.lorentz_add.k_xy_eta_tau_rhophi_z_t coord11 coord12 coord13 coord14 coord21 coord22 coord23 coord24 = VR.lorentz_add.k_xy_eta_tau_rhophi_z_t coord11 coord12 coord13 coord14 coord21 coord22 coord23 coord24 := by
  simp only [VS.lorentz_add.k_xy_eta_tau_rhophi_z_t, VR.lorentz_add.k_xy_eta_tau_rhophi_z_t, VS.spatial_add.xy_eta_rhophi_z_eq, c08_lorentz_t_xy_eta_tau, VS.lorentz_t.rhophi_z_t_eq, h0, VR.P.nanToNum_eq]

theorem c08_lorentz_add_k_xy_eta_tau_rhophi_z_tau (coord11 coord12 coord13 coord14 coord21 coord22 coord23 coord24 : ℝ) (h0 : 0 ≤ coord14) (h1 : 0 ≤ coord24) (hres : 0 ≤ (VR.lorentz_add.k_xy_eta_tau_rhophi_z_tau coord11 coord12 coord13 coord14 coord21 coord22 coord23 coord24).2.2.2) :
    VS.lorentz_add.k_xy_eta_tau_rhophi_z_tau coord11 coord12 coord13 coord14 coord21 coord22 coord23 coord24 = VR.lorentz_add.k_xy_eta_tau_rhophi_z_tau coord11 coord12 coord13 coord14 coord21 coord22 coord23 coord24 := by
  simp only [VR.lorentz_add.k_xy_eta_tau_rhophi_z_tau] at hres
  simp only [VS.lorentz_add.k_xy_eta_tau_rhophi_z_tau, VR.lorentz_add.k_xy_eta_tau_rhophi_z_tau, VS.spatial_add.xy_eta_rhophi_z_eq, c08_lorentz_t_xy_eta_tau, c08_lorentz_t_rhophi_z_tau, c08_lorentz_tau_xy_z_t, h0, h1, VR.P.nanToNum_eq]
  rw [c08_lorentz_tau_xy_z_t_of_result _ _ _ _ hres]

theorem c08_lorentz_add_k_xy_eta_tau_xy_eta_t (coord11 coord12 coord13 coord14 coord21 coord22 coord23 coord24 : ℝ) (h0 : 0 ≤ coord14) :
    VS.lorentz_add.k_xy_eta_tau_xy_eta_t coord11 coord12 coord13 coord14 coord21 coord22 coord23 coord24 = VR.lorentz_add.k_xy_eta_tau_xy_eta_t coord11 coord12 coord13 coord14 coord21 coord22 coord23 coord24 := by
  simp only [VS.lorentz_add.k_xy_eta_tau_xy_eta_t, VR.lorentz_add.k_xy_eta_tau_xy_eta_t, VS.spatial_add.xy_eta_xy_eta_eq, c08_lorentz_t_xy_eta_tau, VS.lorentz_t.xy_eta_t_eq, h0, VR.P.nanToNum_eq]

theorem c08_lorentz_add_k_xy_eta_tau_xy_eta_tau (coord11 coord12 coord13 coord14 coord21 coord22 coord23 coord24 : ℝ) (h0 : 0 ≤ coord14) (h1 : 0 ≤ coord24) (hres : 0 ≤ (VR.lorentz_add.k_xy_eta_tau_xy_eta_tau coord11 coord12 coord13 coord14 coord21 coord22 coord23 coord24).2.2.2) :
    VS.lorentz_add.k_xy_eta_tau_xy_eta_tau coord11 coord12 coord13 coord14 coord21 coord22 coord23 coord24 = VR.lorentz_add.k_xy_eta_tau_xy_eta_tau coord11 coord12 coord13 coord14 coord21 coord22 coord23 coord24 := by
  simp only [VR.lorentz_add.k_xy_eta_tau_xy_eta_tau] at hres
  simp only [VS.lorentz_add.k_xy_eta_tau_xy_eta_tau, VR.lorentz_add.k_xy_eta_tau_xy_eta_tau, VS.spatial_add.xy_eta_xy_eta_eq, c08_lorentz_t_xy_eta_tau, c08_lorentz_tau_xy_eta_t, h0, h1, VR.P.nanToNum_eq]
  rw [c08_lorentz_tau_xy_eta_t_of_result _ _ _ _ hres]

theorem c08_lorentz_add_k_xy_eta_tau_xy_theta_t (coord11 coord12 coord13 coord14 coord21 coord22 coord23 coord24 : ℝ) (h0 : 0 ≤ coord14) :
    VS.lorentz_add.k_xy_eta_tau_xy_theta_t coord11 coord12 coord13 coord14 coord21 coord22 coord23 coord24 = VR.lorentz_add.k_xy_eta_tau_xy_theta_t coord11 coord12 coord13 coord14 coord21 coord22 coord23 coord24 := by
  simp only [VS.lorentz_add.k_xy_eta_tau_xy_theta_t, VR.lorentz_add.k_xy_eta_tau_xy_theta_t, VS.spatial_add.xy_eta_xy_theta_eq, c08_lorentz_t_xy_eta_tau, VS.lorentz_t.xy_theta_t_eq, h0, VR.P.nanToNum_eq]

theorem c08_lorentz_add_k_xy_eta_tau_xy_theta_tau (coord11 coord12 coord13 coord14 coord21 coord22 coord23 coord24 : ℝ) (h0 : 0 ≤ coord14) (h1 : 0 ≤ coord24) (hres : 0 ≤ (VR.lorentz_add.k_xy_eta_tau_xy_theta_tau coord11 coord12 coord13 coord14 coord21 coord22 coord23 coord24).2.2.2) :
    VS.lorentz_add.k_xy_eta_tau_xy_theta_tau coord11 coord12 coord13 coord14 coord21 coord22 coord23 coord24 = VR.lorentz_add.k_xy_eta_tau_xy_theta_tau coord11 coord12 coord13 coord14 coord21 coord22 coord23 coord24 := by
  simp only [VR.lorentz_add.k_xy_eta_tau_xy_theta_tau] at hres
  simp only [VS.lorentz_add.k_xy_eta_tau_xy_theta_tau, VR.lorentz_add.k_xy_eta_tau_xy_theta_tau, VS.spatial_add.xy_eta_xy_theta_eq, c08_lorentz_t_xy_eta_tau, c08_lorentz_t_xy_theta_tau, c08_lorentz_tau_xy_z_t, h0, h1, VR.P.nanToNum_eq]
  rw [c08_lorentz_tau_xy_z_t_of_result _ _ _ _ hres]

theorem c08_lorentz_add_k_xy_eta_tau_xy_z_t (coord11 coord12 coord13 coord14 coord21 coord22 coord23 coord24 : ℝ) (h0 : 0 ≤ coord14) :
    VS.lorentz_add.k_xy_eta_tau_xy_z_t coord11 coord12 coord13 coord14 coord21 coord22 coord23 coord24 = VR.lorentz_add.k_xy_eta_tau_xy_z_t coord11 coord12 coord13 coord14 coord21 coord22 coord23 coord24 := by
  simp only [VS.lorentz_add.k_xy_eta_tau_xy_z_t, VR.lorentz_add.k_xy_eta_tau_xy_z_t, VS.spatial_add.xy_eta_xy_z_eq, c08_lorentz_t_xy_eta_tau, VS.lorentz_t.xy_z_t_eq, h0, VR.P.nanToNum_eq]

theorem c08_lorentz_add_k_xy_eta_tau_xy_z_tau (coord11 coord12 coord13 coord14 coord21 coord22 coord23 coord24 : ℝ) (h0 : 0 ≤ coord14) (h1 : 0 ≤ coord24) (hres : 0 ≤ (VR.lorentz_add.k_xy_eta_tau_xy_z_tau coord11 coord12 coord13 coord14 coord21 coord22 coord23 coord24).2.2.2) :
    VS.lorentz_add.k_xy_eta_tau_xy_z_tau coord11 coord12 coord13 coord14 coord21 coord22 coord23 coord24 = VR.lorentz_add.k_xy_eta_tau_xy_z_tau coord11 coord12 coord13 coord14 coord21 coord22 coord23 coord24 := by
  simp only [VR.lorentz_add.k_xy_eta_tau_xy_z_tau] at hres
  simp only [VS.lorentz_add.k_xy_eta_tau_xy_z_tau, VR.lorentz_add.k_xy_eta_tau_xy_z_tau, VS.spatial_add.xy_eta_xy_z_eq, c08_lorentz_t_xy_eta_tau, c08_lorentz_t_xy_z_tau, c08_lorentz_tau_xy_z_t, h0, h1, VR.P.nanToNum_eq]
  rw [c08_lorentz_tau_xy_z_t_of_result _ _ _ _ hres]

theorem c08_lorentz_add_k_xy_theta_t_rhophi_eta_tau (coord11 coord12 coord13 coord14 coord21 coord22 coord23 coord24 : ℝ) (h0 : 0 ≤ coord24) :
    VS.lorentz_add.k_xy_theta_t_rhophi_eta_tau coord11 coord12 coord13 coord14 coord21 coord22 coord23 coord24 = VR.lorentz_add.k_xy_theta_t_rhophi_eta_tau coord11 coord12 coord13 coord14 coord21 coord22 coord23 coord24 := by
  simp only [VS.lorentz_add.k_xy_theta_t_rhophi_eta_tau, VR.lorentz_add.k_xy_theta_t_rhophi_eta_tau, VS.spatial_add.xy_theta_rhophi_eta_eq, VS.lorentz_t.xy_theta_t_eq, c08_lorentz_t_rhophi_eta_tau, h0, VR.P.nanToNum_eq]

theorem c08_lorentz_add_k_xy_theta_t_rhophi_theta_tau (coord11 coord12 coord13 coord14 coord21 coord22 coord23 coord24 : ℝ) (h0 : 0 ≤ coord24) :
    VS.lorentz_add.k_xy_theta_t_rhophi_theta_tau coord11 coord12 coord13 coord14 coord21 coord22 coord23 coord24 = VR.lorentz_add.k_xy_theta_t_rhophi_theta_tau coord11 coord12 coord13 coord14 coord21 coord22 coord23 coord24 := by
  simp only [VS.lorentz_add.k_xy_theta_t_rhophi_theta_tau, VR.lorentz_add.k_xy_theta_t_rhophi_theta_tau, VS.spatial_add.xy_theta_rhophi_theta_eq, VS.lorentz_t.xy_theta_t_eq, c08_lorentz_t_rhophi_theta_tau, h0, VR.P.nanToNum_eq]

theorem c08_lorentz_add_k_xy_theta_t_rhophi_z_tau (coord11 coord12 coord13 coord14 coord21 coord22 coord23 coord24 : ℝ) (h0 : 0 ≤ coord24) :
    VS.lorentz_add.k_xy_theta_t_rhophi_z_tau coord11 coord12 coord13 coord14 coord21 coord22 coord23 coord24 = VR.lorentz_add.k_xy_theta_t_rhophi_z_tau coord11 coord12 coord13 coord14 coord21 coord22 coord23 coord24 := by
  simp only [VS.lorentz_add.k_xy_theta_t_rhophi_z_tau, VR.lorentz_add.k_xy_theta_t_rhophi_z_tau, VS.spatial_add.xy_theta_rhophi_z_eq, VS.lorentz_t.xy_theta_t_eq, c08_lorentz_t_rhophi_z_tau, h0, VR.P.nanToNum_eq]

theorem c08_lorentz_add_k_xy_theta_t_xy_eta_tau (coord11 coord12 coord13 coord14 coord21 coord22 coord23 coord24 : ℝ) (h0 : 0 ≤ coord24) :
    VS.lorentz_add.k_xy_theta_t_xy_eta_tau coord11 coord12 coord13 coord14 coord21 coord22 coord23 coord24 = VR.lorentz_add.k_xy_theta_t_xy_eta_tau coord11 coord12 coord13 coord14 coord21 coord22 coord23 coord24 := by
  simp only [VS.lorentz_add.k_xy_theta_t_xy_eta_tau, VR.lorentz_add.k_xy_theta_t_xy_eta_tau, VS.spatial_add.xy_theta_xy_eta_eq, VS.lorentz_t.xy_theta_t_eq, c08_lorentz_t_xy_eta_tau, h0, VR.P.nanToNum_eq]

theorem c08_lorentz_add_k_xy_theta_t_xy_theta_tau (coord11 coord12 coord13 coord14 coord21 coord22 coord23 coord24 : ℝ) (h0 : 0 ≤ coord24) :
    VS.lorentz_add.k_xy_theta_t_xy_theta_tau coord11 coord12 coord13 coord14 coord21 coord22 coord23 coord24 = VR.lorentz_add.k_xy_theta_t_xy_theta_tau coord11 coord12 coord13 coord14 coord21 coord22 coord23 coord24 := by
  simp only [VS.lorentz_add.k_xy_theta_t_xy_theta_tau, VR.lorentz_add.k_xy_theta_t_xy_theta_tau, VS.spatial_add.xy_theta_xy_theta_eq, VS.lorentz_t.xy_theta_t_eq, c08_lorentz_t_xy_theta_tau, h0, VR.P.nanToNum_eq]

theorem c08_lorentz_add_k_xy_theta_t_xy_z_tau (coord11 coord12 coord13 coord14 coord21 coord22 coord23 coord24 : ℝ) (h0 : 0 ≤ coord24) :
    VS.lorentz_add.k_xy_theta_t_xy_z_tau coord11 coord12 coord13 coord14 coord21 coord22 coord23 coord24 = VR.lorentz_add.k_xy_theta_t_xy_z_tau coord11 coord12 coord13 coord14 coord21 coord22 coord23 coord24 := by
  simp only [VS.lorentz_add.k_xy_theta_t_xy_z_tau, VR.lorentz_add.k_xy_theta_t_xy_z_tau, VS.spatial_add.xy_theta_xy_z_eq, VS.lorentz_t.xy_theta_t_eq, c08_lorentz_t_xy_z_tau, h0, VR.P.nanToNum_eq]

theorem c08_lorentz_add_k_xy_theta_tau_rhophi_eta_t (coord11 coord12 coord13 coord14 coord21 coord22 coord23 coord24 : ℝ) (h0 : 0 ≤ coord14) :
    VS.lorentz_add.k_xy_theta_tau_rhophi_eta_t coord11 coord12 coord13 coord14 coord21 coord22 coord23 coord24 = VR.lorentz_add.k_xy_theta_tau_rhophi_eta_t coord11 coord12 coord13 coord14 coord21 coord22 coord23 coord24 := by
  simp only [VS.lorentz_add.k_xy_theta_tau_rhophi_eta_t, VR.lorentz_add.k_xy_theta_tau_rhophi_eta_t, VS.spatial_add.xy_theta_rhophi_eta_eq, c08_lorentz_t_xy_theta_tau, VS.lorentz_t.rhophi_eta_t_eq, h0, VR.P.nanToNum_eq]

theorem c08_lorentz_add_k_xy_theta_tau_rhophi_eta_tau (coord11 coord12 coord13 coord14 coord21 coord22 coord23 coord24 : ℝ) (h0 : 0 ≤ coord14) (h1 : 0 ≤ coord24) (hres : 0 ≤ (VR.lorentz_add.k_xy_theta_tau_rhophi_eta_tau coord11 coord12 coord13 coord14 coord21 coord22 coord23 coord24).2.2.2) :
    VS.lorentz_add.k_xy_theta_tau_rhophi_eta_tau coord11 coord12 coord13 coord14 coord21 coord22 coord23 coord24 = VR.lorentz_add.k_xy_theta_tau_rhophi_eta_tau coord11 coord12 coord13 coord14 coord21 coord22 coord23 coord24 := by
  simp only [VR.lorentz_add.k_xy_theta_tau_rhophi_eta_tau] at hres
  simp only [VS.lorentz_add.k_xy_theta_tau_rhophi_eta_tau, VR.lorentz_add.k_xy_theta_tau_rhophi_eta_tau, VS.spatial_add.xy_theta_rhophi_eta_eq, c08_lorentz_t_xy_theta_tau, c08_lorentz_t_rhophi_eta_tau, c08_lorentz_tau_xy_z_t, h0, h1, VR.P.nanToNum_eq]
  rw [c08_lorentz_tau_xy_z_t_of_result _ _ _ _ hres]

theorem c08_lorentz_add_k_xy_theta_tau_rhophi_theta_t (coord11 coord12 coord13 coord14 coord21 coord22 coord23 coord24 : ℝ) (h0 : 0 ≤ coord14) :
    VS.lorentz_add.k_xy_theta_tau_rhophi_theta_t coord11 coord12 coord13 coord14 coord21 coord22 coord23 coord24 = VR.lorentz_add.k_xy_theta_tau_rhophi_theta_t coord11 coord12 coord13 coord14 coord21 coord22 coord23 coord24 := by
  simp only [VS.lorentz_add.k_xy_theta_tau_rhophi_theta_t, VR.lorentz_add.k_xy_theta_tau_rhophi_theta_t, VS.spatial_add.xy_theta_rhophi_theta_eq, c08_lorentz_t_xy_theta_tau, VS.lorentz_t.rhophi_theta_t_eq, h0, VR.P.nanToNum_eq]

theorem c08_lorentz_add_k_xy_theta_tau_rhophi_theta_tau (coord11 coord12 coord13 coord14 coord21 coord22 coord23 coord24 : ℝ) (h0 : 0 ≤ coord14) (h1 : 0 ≤ coord24) (hres : 0 ≤ (VR.lorentz_add.k_xy_theta_tau_rhophi_theta_tau coord11 coord12 coord13 coord14 coord21 coord22 coord23 coord24).2.2.2) :
    VS.lorentz_add.k_xy_theta_tau_rhophi_theta_tau coord11 coord12 coord13 coord14 coord21 coord22 coord23 coord24 = VR.lorentz_add.k_xy_theta_tau_rhophi_theta_tau coord11 coord12 coord13 coord14 coord21 coord22 coord23 coord24 := by
  simp only [VR.lorentz_add.k_xy_theta_tau_rhophi_theta_tau] at hres
  simp only [VS.lorentz_add.k_xy_theta_tau_rhophi_theta_tau, VR.lorentz_add.k_xy_theta_tau_rhophi_theta_tau, VS.spatial_add.xy_theta_rhophi_theta_eq, c08_lorentz_t_xy_theta_tau, c08_lorentz_t_rhophi_theta_tau, c08_lorentz_tau_xy_z_t, h0, h1, VR.P.nanToNum_eq]
  rw [c08_lorentz_tau_xy_z_t_of_result _ _ _ _ hres]

theorem c08_lorentz_add_k_xy_theta_tau_rhophi_z_t (coord11 coord12 coord13 coord14 coord21 coord22 coord23 coord24 : ℝ) (h0 : 0 ≤ coord14) :
    VS.lorentz_add.k_xy_theta_tau_rhophi_z_t coord11 coord12 coord13 coord14 coord21 coord22 coord23 coord24 = VR.lorentz_add.k_xy_theta_tau_rhophi_z_t coord11 coord12 coord13 coord14 coord21 coord22 coord23 coord24 := by
  simp only [VS.lorentz_add.k_xy_theta_tau_rhophi_z_t, VR.lorentz_add.k_xy_theta_tau_rhophi_z_t, VS.spatial_add.xy_theta_rhophi_z_eq, c08_lorentz_t_xy_theta_tau, VS.lorentz_t.rhophi_z_t_eq, h0, VR.P.nanToNum_eq]

theorem c08_lorentz_add_k_xy_theta_tau_rhophi_z_tau (coord11 coord12 coord13 coord14 coord21 coord22 coord23 coord24 : ℝ) (h0 : 0 ≤ coord14) (h1 : 0 ≤ coord24) (hres : 0 ≤ (VR.lorentz_add.k_xy_theta_tau_rhophi_z_tau coord11 coord12 coord13 coord14 coord21 coord22 coord23 coord24).2.2.2) :
    VS.lorentz_add.k_xy_theta_tau_rhophi_z_tau coord11 coord12 coord13 coord14 coord21 coord22 coord23 coord24 = VR.lorentz_add.k_xy_theta_tau_rhophi_z_tau coord11 coord12 coord13 coord14 coord21 coord22 coord23 coord24 := by
  simp only [VR.lorentz_add.k_xy_theta_tau_rhophi_z_tau] at hres
  simp only [VS.lorentz_add.k_xy_theta_tau_rhophi_z_tau, VR.lorentz_add.k_xy_theta_tau_rhophi_z_tau, VS.spatial_add.xy_theta_rhophi_z_eq, c08_lorentz_t_xy_theta_tau, c08_lorentz_t_rhophi_z_tau, c08_lorentz_tau_xy_z_t, h0, h1, VR.P.nanToNum_eq]
  rw [c08_lorentz_tau_xy_z_t_of_result _ _ _ _ hres]

theorem c08_lorentz_add_k_xy_theta_tau_xy_eta_t (coord11 coord12 coord13 coord14 coord21 coord22 coord23 coord24 : ℝ) (h0 : 0 ≤ coord14) :
    VS.lorentz_add.k_xy_theta_tau_xy_eta_t coord11 coord12 coord13 coord14 coord21 coord22 coord23 coord24 = VR.lorentz_add.k_xy_theta_tau_xy_eta_t coord11 coord12 coord13 coord14 coord21 coord22 coord23 coord24 := by
  simp only [VS.lorentz_add.k_xy_theta_tau_xy_eta_t, VR.lorentz_add.k_xy_theta_tau_xy_eta_t, VS.spatial_add.xy_theta_xy_eta_eq, c08_lorentz_t_xy_theta_tau, VS.lorentz_t.xy_eta_t_eq, h0, VR.P.nanToNum_eq]

theorem c08_lorentz_add_k_xy_theta_tau_xy_eta_tau (coord11 coord12 coord13 coord14 coord21 coord22 coord23 coord24 : ℝ) (h0 : 0 ≤ coord24) (h1 : 0 ≤ coord14) (hres : 0 ≤ (VR.lorentz_add.k_xy_theta_tau_xy_eta_tau coord11 coord12 coord13 coord14 coord21 coord22 coord23 coord24).2.2.2) :
    VS.lorentz_add.k_xy_theta_tau_xy_eta_tau coord11 coord12 coord13 coord14 coord21 coord22 coord23 coord24 = VR.lorentz_add.k_xy_theta_tau_xy_eta_tau coord11 coord12 coord13 coord14 coord21 coord22 coord23 coord24 := by
  simp only [VR.lorentz_add.k_xy_theta_tau_xy_eta_tau] at hres
  simp only [VS.lorentz_add.k_xy_theta_tau_xy_eta_tau, VR.lorentz_add.k_xy_theta_tau_xy_eta_tau, VS.spatial_add.xy_theta_xy_eta_eq, c08_lorentz_t_xy_theta_tau, c08_lorentz_t_xy_eta_tau, c08_lorentz_tau_xy_z_t, h0, h1, VR.P.nanToNum_eq]
  rw [c08_lorentz_tau_xy_z_t_of_result _ _ _ _ hres]

theorem c08_lorentz_add_k_xy_theta_tau_xy_theta_t (coord11 coord12 coord13 coord14 coord21 coord22 coord23 coord24 : ℝ) (h0 : 0 ≤ coord14) :
    VS.lorentz_add.k_xy_theta_tau_xy_theta_t coord11 coord12 coord13 coord14 coord21 coord22 coord23 coord24 = VR.lorentz_add.k_xy_theta_tau_xy_theta_t coord11 coord12 coord13 coord14 coord21 coord22 coord23 coord24 := by
  simp only [VS.lorentz_add.k_xy_theta_tau_xy_theta_t, VR.lorentz_add.k_xy_theta_tau_xy_theta_t, VS.spatial_add.xy_theta_xy_theta_eq, c08_lorentz_t_xy_theta_tau, VS.lorentz_t.xy_theta_t_eq, h0, VR.P.nanToNum_eq]

theorem c08_lorentz_add_k_xy_theta_tau_xy_theta_tau (coord11 coord12 coord13 coord14 coord21 coord22 coord23 coord24 : ℝ) (h0 : 0 ≤ coord14) (h1 : 0 ≤ coord24) (hres : 0 ≤ (VR.lorentz_add.k_xy_theta_tau_xy_theta_tau coord11 coord12 coord13 coord14 coord21 coord22 coord23 coord24).2.2.2) :
    VS.lorentz_add.k_xy_theta_tau_xy_theta_tau coord11 coord12 coord13 coord14 coord21 coord22 coord23 coord24 = VR.lorentz_add.k_xy_theta_tau_xy_theta_tau coord11 coord12 coord13 coord14 coord21 coord22 coord23 coord24 := by
  simp only [VR.lorentz_add.k_xy_theta_tau_xy_theta_tau] at hres
  simp only [VS.lorentz_add.k_xy_theta_tau_xy_theta_tau, VR.lorentz_add.k_xy_theta_tau_xy_theta_tau, VS.spatial_add.xy_theta_xy_theta_eq, c08_lorentz_t_xy_theta_tau, c08_lorentz_tau_xy_theta_t, h0, h1, VR.P.nanToNum_eq]
  rw [c08_lorentz_tau_xy_theta_t_of_result _ _ _ _ hres]

theorem c08_lorentz_add_k_xy_theta_tau_xy_z_t (coord11 coord12 coord13 coord14 coord21 coord22 coord23 coord24 : ℝ) (h0 : 0 ≤ coord14) :
    VS.lorentz_add.k_xy_theta_tau_xy_z_t coord11 coord12 coord13 coord14 coord21 coord22 coord23 coord24 = VR.lorentz_add.k_xy_theta_tau_xy_z_t coord11 coord12 coord13 coord14 coord21 coord22 coord23 coord24 := by
  simp only [VS.lorentz_add.k_xy_theta_tau_xy_z_t, VR.lorentz_add.k_xy_theta_tau_xy_z_t, VS.spatial_add.xy_theta_xy_z_eq, c08_lorentz_t_xy_theta_tau, VS.lorentz_t.xy_z_t_eq, h0, VR.P.nanToNum_eq]

theorem c08_lorentz_add_k_xy_theta_tau_xy_z_tau (coord11 coord12 coord13 coord14 coord21 coord22 coord23 coord24 : ℝ) (h0 : 0 ≤ coord14) (h1 : 0 ≤ coord24) (hres : 0 ≤ (VR.lorentz_add.k_xy_theta_tau_xy_z_tau coord11 coord12 coord13 coord14 coord21 coord22 coord23 coord24).2.2.2) :
    VS.lorentz_add.k_xy_theta_tau_xy_z_tau coord11 coord12 coord13 coord14 coord21 coord22 coord23 coord24 = VR.lorentz_add.k_xy_theta_tau_xy_z_tau coord11 coord12 coord13 coord14 coord21 coord22 coord23 coord24 := by
  simp only [VR.lorentz_add.k_xy_theta_tau_xy_z_tau] at hres
  simp only [VS.lorentz_add.k_xy_theta_tau_xy_z_tau, VR.lorentz_add.k_xy_theta_tau_xy_z_tau, VS.spatial_add.xy_theta_xy_z_eq, c08_lorentz_t_xy_theta_tau, c08_lorentz_t_xy_z_tau, c08_lorentz_tau_xy_z_t, h0, h1, VR.P.nanToNum_eq]
  rw [c08_lorentz_tau_xy_z_t_of_result _ _ _ _ hres]

theorem c08_lorentz_add_k_xy_z_t_rhophi_eta_tau (coord11 coord12 coord13 coord14 coord21 coord22 coord23 coord24 : ℝ) (h0 : 0 ≤ coord24) :
    VS.lorentz_add.k_xy_z_t_rhophi_eta_tau coord11 coord12 coord13 coord14 coord21 coord22 coord23 coord24 = VR.lorentz_add.k_xy_z_t_rhophi_eta_tau coord11 coord12 coord13 coord14 coord21 coord22 coord23 coord24 := by
  simp only [VS.lorentz_add.k_xy_z_t_rhophi_eta_tau, VR.lorentz_add.k_xy_z_t_rhophi_eta_tau, VS.spatial_add.xy_z_rhophi_eta_eq, VS.lorentz_t.xy_z_t_eq, c08_lorentz_t_rhophi_eta_tau, h0, VR.P.nanToNum_eq]

theorem c08_lorentz_add_k_xy_z_t_rhophi_theta_tau (coord11 coord12 coord13 coord14 coord21 coord22 coord23 coord24 : ℝ) (h0 : 0 ≤ coord24) :
    VS.lorentz_add.k_xy_z_t_rhophi_theta_tau coord11 coord12 coord13 coord14 coord21 coord22 coord23 coord24 = VR.lorentz_add.k_xy_z_t_rhophi_theta_tau coord11 coord12 coord13 coord14 coord21 coord22 coord23 coord24 := by
  simp only [VS.lorentz_add.k_xy_z_t_rhophi_theta_tau, VR.lorentz_add.k_xy_z_t_rhophi_theta_tau, VS.spatial_add.xy_z_rhophi_theta_eq, VS.lorentz_t.xy_z_t_eq, c08_lorentz_t_rhophi_theta_tau, h0, VR.P.nanToNum_eq]

theorem c08_lorentz_add_k_xy_z_t_rhophi_z_tau (coord11 coord12 coord13 coord14 coord21 coord22 coord23 coord24 : ℝ) (h0 : 0 ≤ coord24) :
    VS.lorentz_add.k_xy_z_t_rhophi_z_tau coord11 coord12 coord13 coord14 coord21 coord22 coord23 coord24 = VR.lorentz_add.k_xy_z_t_rhophi_z_tau coord11 coord12 coord13 coord14 coord21 coord22 coord23 coord24 := by
  simp only [VS.lorentz_add.k_xy_z_t_rhophi_z_tau, VR.lorentz_add.k_xy_z_t_rhophi_z_tau, VS.spatial_add.xy_z_rhophi_z_eq, VS.lorentz_t.xy_z_t_eq, c08_lorentz_t_rhophi_z_tau, h0, VR.P.nanToNum_eq]

theorem c08_lorentz_add_k_xy_z_t_xy_eta_tau (coord11 coord12 coord13 coord14 coord21 coord22 coord23 coord24 : ℝ) (h0 : 0 ≤ coord24) :
    VS.lorentz_add.k_xy_z_t_xy_eta_tau coord11 coord12 coord13 coord14 coord21 coord22 coord23 coord24 = VR.lorentz_add.k_xy_z_t_xy_eta_tau coord11 coord12 coord13 coord14 coord21 coord22 coord23 coord24 := by
  simp only [VS.lorentz_add.k_xy_z_t_xy_eta_tau, VR.lorentz_add.k_xy_z_t_xy_eta_tau, VS.spatial_add.xy_z_xy_eta_eq, VS.lorentz_t.xy_z_t_eq, c08_lorentz_t_xy_eta_tau, h0, VR.P.nanToNum_eq]

theorem c08_lorentz_add_k_xy_z_t_xy_theta_tau (coord11 coord12 coord13 coord14 coord21 coord22 coord23 coord24 : ℝ) (h0 : 0 ≤ coord24) :
    VS.lorentz_add.k_xy_z_t_xy_theta_tau coord11 coord12 coord13 coord14 coord21 coord22 coord23 coord24 = VR.lorentz_add.k_xy_z_t_xy_theta_tau coord11 coord12 coord13 coord14 coord21 coord22 coord23 coord24 := by
  simp only [VS.lorentz_add.k_xy_z_t_xy_theta_tau, VR.lorentz_add.k_xy_z_t_xy_theta_tau, VS.spatial_add.xy_z_xy_theta_eq, VS.lorentz_t.xy_z_t_eq, c08_lorentz_t_xy_theta_tau, h0, VR.P.nanToNum_eq]

theorem c08_lorentz_add_k_xy_z_t_xy_z_tau (coord11 coord12 coord13 coord14 coord21 coord22 coord23 coord24 : ℝ) (h0 : 0 ≤ coord24) :
    VS.lorentz_add.k_xy_z_t_xy_z_tau coord11 coord12 coord13 coord14 coord21 coord22 coord23 coord24 = VR.lorentz_add.k_xy_z_t_xy_z_tau coord11 coord12 coord13 coord14 coord21 coord22 coord23 coord24 := by
  simp only [VS.lorentz_add.k_xy_z_t_xy_z_tau, VR.lorentz_add.k_xy_z_t_xy_z_tau, VS.spatial_add.xy_z_xy_z_eq, VS.lorentz_t.xy_z_t_eq, c08_lorentz_t_xy_z_tau, h0, VR.P.nanToNum_eq]

theorem c08_lorentz_add_k_xy_z_tau_rhophi_eta_t (coord11 coord12 coord13 coord14 coord21 coord22 coord23 coord24 : ℝ) (h0 : 0 ≤ coord14) :
    VS.lorentz_add.k_xy_z_tau_rhophi_eta_t coord11 coord12 coord13 coord14 coord21 coord22 coord23 coord24 = VR.lorentz_add.k_xy_z_tau_rhophi_eta_t coord11 coord12 coord13 coord14 coord21 coord22 coord23 coord24 := by
  simp only [VS.lorentz_add.k_xy_z_tau_rhophi_eta_t, VR.lorentz_add.k_xy_z_tau_rhophi_eta_t, VS.spatial_add.xy_z_rhophi_eta_eq, c08_lorentz_t_xy_z_tau, VS.lorentz_t.rhophi_eta_t_eq, h0, VR.P.nanToNum_eq]

theorem c08_lorentz_add_k_xy_z_tau_rhophi_eta_tau (coord11 coord12 coord13 coord14 coord21 coord22 coord23 coord24 : ℝ) (h0 : 0 ≤ coord14) (h1 : 0 ≤ coord24) (hres : 0 ≤ (VR.lorentz_add.k_xy_z_tau_rhophi_eta_tau coord11 coord12 coord13 coord14 coord21 coord22 coord23 coord24).2.2.2) :
    VS.lorentz_add.k_xy_z_tau_rhophi_eta_tau coord11 coord12 coord13 coord14 coord21 coord22 coord23 coord24 = VR.lorentz_add.k_xy_z_tau_rhophi_eta_tau coord11 coord12 coord13 coord14 coord21 coord22 coord23 coord24 := by
  simp only [VR.lorentz_add.k_xy_z_tau_rhophi_eta_tau] at hres
  simp only [VS.lorentz_add.k_xy_z_tau_rhophi_eta_tau, VR.lorentz_add.k_xy_z_tau_rhophi_eta_tau, VS.spatial_add.xy_z_rhophi_eta_eq, c08_lorentz_t_xy_z_tau, c08_lorentz_t_rhophi_eta_tau, c08_lorentz_tau_xy_z_t, h0, h1, VR.P.nanToNum_eq]
  rw [c08_lorentz_tau_xy_z_t_of_result _ _ _ _ hres]

theorem c08_lorentz_add_k_xy_z_tau_rhophi_theta_t (coord11 coord12 coord13 coord14 coord21 coord22 coord23 coord24 : ℝ) (h0 : 0 ≤ coord14) :
    VS.lorentz_add.k_xy_z_tau_rhophi_theta_t coord11 coord12 coord13 coord14 coord21 coord22 coord23 coord24 = VR.lorentz_add.k_xy_z_tau_rhophi_theta_t coord11 coord12 coord13 coord14 coord21 coord22 coord23 coord24 := by
  simp only [VS.lorentz_add.k_xy_z_tau_rhophi_theta_t, VR.lorentz_add.k_xy_z_tau_rhophi_theta_t, VS.spatial_add.xy_z_rhophi_theta_eq, c08_lorentz_t_xy_z_tau, VS.lorentz_t.rhophi_theta_t_eq, h0, VR.P.nanToNum_eq]

theorem c08_lorentz_add_k_xy_z_tau_rhophi_theta_tau (coord11 coord12 coord13 coord14 coord21 coord22 coord23 coord24 : ℝ) (h0 : 0 ≤ coord14) (h1 : 0 ≤ coord24) (hres : 0 ≤ (VR.lorentz_add.k_xy_z_tau_rhophi_theta_tau coord11 coord12 coord13 coord14 coord21 coord22 coord23 coord24).2.2.2) :
    VS.lorentz_add.k_xy_z_tau_rhophi_theta_tau coord11 coord12 coord13 coord14 coord21 coord22 coord23 coord24 = VR.lorentz_add.k_xy_z_tau_rhophi_theta_tau coord11 coord12 coord13 coord14 coord21 coord22 coord23 coord24 := by
  simp only [VR.lorentz_add.k_xy_z_tau_rhophi_theta_tau] at hres
  simp only [VS.lorentz_add.k_xy_z_tau_rhophi_theta_tau, VR.lorentz_add.k_xy_z_tau_rhophi_theta_tau, VS.spatial_add.xy_z_rhophi_theta_eq, c08_lorentz_t_xy_z_tau, c08_lorentz_t_rhophi_theta_tau, c08_lorentz_tau_xy_z_t, h0, h1, VR.P.nanToNum_eq]
  rw [c08_lorentz_tau_xy_z_t_of_result _ _ _ _ hres]

theorem c08_lorentz_add_k_xy_z_tau_rhophi_z_t (coord11 coord12 coord13 coord14 coord21 coord22 coord23 coord24 : ℝ) (h0 : 0 ≤ coord14) :
    VS.lorentz_add.k_xy_z_tau_rhophi_z_t coord11 coord12 coord13 coord14 coord21 coord22 coord23 coord24 = VR.lorentz_add.k_xy_z_tau_rhophi_z_t coord11 coord12 coord13 coord14 coord21 coord22 coord23 coord24 := by
  simp only [VS.lorentz_add.k_xy_z_tau_rhophi_z_t, VR.lorentz_add.k_xy_z_tau_rhophi_z_t, VS.spatial_add.xy_z_rhophi_z_eq, c08_lorentz_t_xy_z_tau, VS.lorentz_t.rhophi_z_t_eq, h0, VR.P.nanToNum_eq]

theorem c08_lorentz_add_k_xy_z_tau_rhophi_z_tau (coord11 coord12 coord13 coord14 coord21 coord22 coord23 coord24 : ℝ) (h0 : 0 ≤ coord24) (h1 : 0 ≤ coord14) (hres : 0 ≤ (VR.lorentz_add.k_xy_z_tau_rhophi_z_tau coord11 coord12 coord13 coord14 coord21 coord22 coord23 coord24).2.2.2) :
    VS.lorentz_add.k_xy_z_tau_rhophi_z_tau coord11 coord12 coord13 coord14 coord21 coord22 coord23 coord24 = VR.lorentz_add.k_xy_z_tau_rhophi_z_tau coord11 coord12 coord13 coord14 coord21 coord22 coord23 coord24 := by
  simp only [VR.lorentz_add.k_xy_z_tau_rhophi_z_tau] at hres
  simp only [VS.lorentz_add.k_xy_z_tau_rhophi_z_tau, VR.lorentz_add.k_xy_z_tau_rhophi_z_tau, VS.spatial_add.xy_z_rhophi_z_eq, c08_lorentz_t_xy_z_tau, c08_lorentz_t_rhophi_z_tau, c08_lorentz_tau_xy_z_t, h0, h1, VR.P.nanToNum_eq]
  rw [c08_lorentz_tau_xy_z_t_of_result _ _ _ _ hres]

theorem c08_lorentz_add_k_xy_z_tau_xy_eta_t (coord11 coord12 coord13 coord14 coord21 coord22 coord23 coord24 : ℝ) (h0 : 0 ≤ coord14) :
    VS.lorentz_add.k_xy_z_tau_xy_eta_t coord11 coord12 coord13 coord14 coord21 coord22 coord23 coord24 = VR.lorentz_add.k_xy_z_tau_xy_eta_t coord11 coord12 coord13 coord14 coord21 coord22 coord23 coord24 := by
  simp only [VS.lorentz_add.k_xy_z_tau_xy_eta_t, VR.lorentz_add.k_xy_z_tau_xy_eta_t, VS.spatial_add.xy_z_xy_eta_eq, c08_lorentz_t_xy_z_tau, VS.lorentz_t.xy_eta_t_eq, h0, VR.P.nanToNum_eq]

theorem c08_lorentz_add_k_xy_z_tau_xy_eta_tau (coord11 coord12 coord13 coord14 coord21 coord22 coord23 coord24 : ℝ) (h0 : 0 ≤ coord24) (h1 : 0 ≤ coord14) (hres : 0 ≤ (VR.lorentz_add.k_xy_z_tau_xy_eta_tau coord11 coord12 coord13 coord14 coord21 coord22 coord23 coord24).2.2.2) :
    VS.lorentz_add.k_xy_z_tau_xy_eta_tau coord11 coord12 coord13 coord14 coord21 coord22 coord23 coord24 = VR.lorentz_add.k_xy_z_tau_xy_eta_tau coord11 coord12 coord13 coord14 coord21 coord22 coord23 coord24 := by
  simp only [VR.lorentz_add.k_xy_z_tau_xy_eta_tau] at hres
  simp only [VS.lorentz_add.k_xy_z_tau_xy_eta_tau, VR.lorentz_add.k_xy_z_tau_xy_eta_tau, VS.spatial_add.xy_z_xy_eta_eq, c08_lorentz_t_xy_z_tau, c08_lorentz_t_xy_eta_tau, c08_lorentz_tau_xy_z_t, h0, h1, VR.P.nanToNum_eq]
  rw [c08_lorentz_tau_xy_z_t_of_result _ _ _ _ hres]

theorem c08_lorentz_add_k_xy_z_tau_xy_theta_t (coord11 coord12 coord13 coord14 coord21 coord22 coord23 coord24 : ℝ) (h0 : 0 ≤ coord14) :
    VS.lorentz_add.k_xy_z_tau_xy_theta_t coord11 coord12 coord13 coord14 coord21 coord22 coord23 coord24 = VR.lorentz_add.k_xy_z_tau_xy_theta_t coord11 coord12 coord13 coord14 coord21 coord22 coord23 coord24 := by
  simp only [VS.lorentz_add.k_xy_z_tau_xy_theta_t, VR.lorentz_add.k_xy_z_tau_xy_theta_t, VS.spatial_add.xy_z_xy_theta_eq, c08_lorentz_t_xy_z_tau, VS.lorentz_t.xy_theta_t_eq, h0, VR.P.nanToNum_eq]

theorem c08_lorentz_add_k_xy_z_tau_xy_theta_tau (coord11 coord12 coord13 coord14 coord21 coord22 coord23 coord24 : ℝ) (h0 : 0 ≤ coord24) (h1 : 0 ≤ coord14) (hres : 0 ≤ (VR.lorentz_add.k_xy_z_tau_xy_theta_tau coord11 coord12 coord13 coord14 coord21 coord22 coord23 coord24).2.2.2) :
    VS.lorentz_add.k_xy_z_tau_xy_theta_tau coord11 coord12 coord13 coord14 coord21 coord22 coord23 coord24 = VR.lorentz_add.k_xy_z_tau_xy_theta_tau coord11 coord12 coord13 coord14 coord21 coord22 coord23 coord24 := by
  simp only [VR.lorentz_add.k_xy_z_tau_xy_theta_tau] at hres
  simp only [VS.lorentz_add.k_xy_z_tau_xy_theta_tau, VR.lorentz_add.k_xy_z_tau_xy_theta_tau, VS.spatial_add.xy_z_xy_theta_eq, c08_lorentz_t_xy_z_tau, c08_lorentz_t_xy_theta_tau, c08_lorentz_tau_xy_z_t, h0, h1, VR.P.nanToNum_eq]
  rw [c08_lorentz_tau_xy_z_t_of_result _ _ _ _ hres]

theorem c08_lorentz_add_k_xy_z_tau_xy_z_t (coord11 coord12 coord13 coord14 coord21 coord22 coord23 coord24 : ℝ) (h0 : 0 ≤ coord14) :
    VS.lorentz_add.k_xy_z_tau_xy_z_t coord11 coord12 coord13 coord14 coord21 coord22 coord23 coord24 = VR.lorentz_add.k_xy_z_tau_xy_z_t coord11 coord12 coord13 coord14 coord21 coord22 coord23 coord24 := by
  simp only [VS.lorentz_add.k_xy_z_tau_xy_z_t, VR.lorentz_add.k_xy_z_tau_xy_z_t, VS.spatial_add.xy_z_xy_z_eq, c08_lorentz_t_xy_z_tau, VS.lorentz_t.xy_z_t_eq, h0, VR.P.nanToNum_eq]

theorem c08_lorentz_add_k_xy_z_tau_xy_z_tau (coord11 coord12 coord13 coord14 coord21 coord22 coord23 coord24 : ℝ) (h0 : 0 ≤ coord14) (h1 : 0 ≤ coord24) (hres : 0 ≤ (VR.lorentz_add.k_xy_z_tau_xy_z_tau coord11 coord12 coord13 coord14 coord21 coord22 coord23 coord24).2.2.2) :
    VS.lorentz_add.k_xy_z_tau_xy_z_tau coord11 coord12 coord13 coord14 coord21 coord22 coord23 coord24 = VR.lorentz_add.k_xy_z_tau_xy_z_tau coord11 coord12 coord13 coord14 coord21 coord22 coord23 coord24 := by
  simp only [VR.lorentz_add.k_xy_z_tau_xy_z_tau] at hres
  simp only [VS.lorentz_add.k_xy_z_tau_xy_z_tau, VR.lorentz_add.k_xy_z_tau_xy_z_tau, VS.spatial_add.xy_z_xy_z_eq, c08_lorentz_t_xy_z_tau, c08_lorentz_tau_xy_z_t, h0, h1, VR.P.nanToNum_eq]
  rw [c08_lorentz_tau_xy_z_t_of_result _ _ _ _ hres]


/-! ### `lorentz_beta` -/

theorem c08_lorentz_beta_rhophi_eta_tau (rho phi eta tau : ℝ) (h0 : 0 ≤ tau) :
    VS.lorentz_beta.rhophi_eta_tau rho phi eta tau = VR.lorentz_beta.rhophi_eta_tau rho phi eta tau := by
  simp only [VS.lorentz_beta.rhophi_eta_tau, VR.lorentz_beta.rhophi_eta_tau, VS.spatial_mag.rhophi_eta_eq, c08_lorentz_t_rhophi_eta_tau, h0, VR.P.nanToNum_eq]

theorem c08_lorentz_beta_rhophi_theta_tau (rho phi theta tau : ℝ) (h0 : 0 ≤ tau) :
    VS.lorentz_beta.rhophi_theta_tau rho phi theta tau = VR.lorentz_beta.rhophi_theta_tau rho phi theta tau := by
  simp only [VS.lorentz_beta.rhophi_theta_tau, VR.lorentz_beta.rhophi_theta_tau, VS.spatial_mag.rhophi_theta_eq, c08_lorentz_t_rhophi_theta_tau, h0, VR.P.nanToNum_eq]

theorem c08_lorentz_beta_rhophi_z_tau (rho phi z tau : ℝ) (h0 : 0 ≤ tau) :
    VS.lorentz_beta.rhophi_z_tau rho phi z tau = VR.lorentz_beta.rhophi_z_tau rho phi z tau := by
  simp only [VS.lorentz_beta.rhophi_z_tau, VR.lorentz_beta.rhophi_z_tau, VS.spatial_mag.rhophi_z_eq, c08_lorentz_t_rhophi_z_tau, h0, VR.P.nanToNum_eq]

theorem c08_lorentz_beta_xy_eta_tau (x y eta tau : ℝ) (h0 : 0 ≤ tau) :
    VS.lorentz_beta.xy_eta_tau x y eta tau = VR.lorentz_beta.xy_eta_tau x y eta tau := by
  simp only [VS.lorentz_beta.xy_eta_tau, VR.lorentz_beta.xy_eta_tau, VS.spatial_mag.xy_eta_eq, c08_lorentz_t_xy_eta_tau, h0, VR.P.nanToNum_eq]

theorem c08_lorentz_beta_xy_theta_tau (x y theta tau : ℝ) (h0 : 0 ≤ tau) :
    VS.lorentz_beta.xy_theta_tau x y theta tau = VR.lorentz_beta.xy_theta_tau x y theta tau := by
  simp only [VS.lorentz_beta.xy_theta_tau, VR.lorentz_beta.xy_theta_tau, VS.spatial_mag.xy_theta_eq, c08_lorentz_t_xy_theta_tau, h0, VR.P.nanToNum_eq]

theorem c08_lorentz_beta_xy_z_tau (x y z tau : ℝ) (h0 : 0 ≤ tau) :
    VS.lorentz_beta.xy_z_tau x y z tau = VR.lorentz_beta.xy_z_tau x y z tau := by
  simp only [VS.lorentz_beta.xy_z_tau, VR.lorentz_beta.xy_z_tau, VS.spatial_mag.xy_z_eq, c08_lorentz_t_xy_z_tau, h0, VR.P.nanToNum_eq]


/-! ### `lorentz_boostX_beta` -/

theorem c08_lorentz_boostX_beta_rhophi_eta_tau (beta rho phi eta tau : ℝ) (h0 : 0 ≤ tau) :
    VS.lorentz_boostX_beta.rhophi_eta_tau beta rho phi eta tau = VR.lorentz_boostX_beta.rhophi_eta_tau beta rho phi eta tau := by
  simp only [VS.lorentz_boostX_beta.rhophi_eta_tau, VR.lorentz_boostX_beta.rhophi_eta_tau, VS.planar_x.rhophi_eq, VS.planar_y.rhophi_eq, VS.spatial_z.rhophi_eta_eq, c08_lorentz_t_rhophi_eta_tau, h0, VR.P.nanToNum_eq]

theorem c08_lorentz_boostX_beta_rhophi_theta_tau (beta rho phi theta tau : ℝ) (h0 : 0 ≤ tau) :
    VS.lorentz_boostX_beta.rhophi_theta_tau beta rho phi theta tau = VR.lorentz_boostX_beta.rhophi_theta_tau beta rho phi theta tau := by
  simp only [VS.lorentz_boostX_beta.rhophi_theta_tau, VR.lorentz_boostX_beta.rhophi_theta_tau, VS.planar_x.rhophi_eq, VS.planar_y.rhophi_eq, VS.spatial_z.rhophi_theta_eq, c08_lorentz_t_rhophi_theta_tau, h0, VR.P.nanToNum_eq]

theorem c08_lorentz_boostX_beta_rhophi_z_tau (beta rho phi z tau : ℝ) (h0 : 0 ≤ tau) :
    VS.lorentz_boostX_beta.rhophi_z_tau beta rho phi z tau = VR.lorentz_boostX_beta.rhophi_z_tau beta rho phi z tau := by
  simp only [VS.lorentz_boostX_beta.rhophi_z_tau, VR.lorentz_boostX_beta.rhophi_z_tau, VS.planar_x.rhophi_eq, VS.planar_y.rhophi_eq, c08_lorentz_t_rhophi_z_tau, h0, VR.P.nanToNum_eq]

theorem c08_lorentz_boostX_beta_xy_eta_tau (beta x y eta tau : ℝ) (h0 : 0 ≤ tau) :
    VS.lorentz_boostX_beta.xy_eta_tau beta x y eta tau = VR.lorentz_boostX_beta.xy_eta_tau beta x y eta tau := by
  simp only [VS.lorentz_boostX_beta.xy_eta_tau, VR.lorentz_boostX_beta.xy_eta_tau, VS.spatial_z.xy_eta_eq, c08_lorentz_t_xy_eta_tau, h0, VR.P.nanToNum_eq]

theorem c08_lorentz_boostX_beta_xy_theta_tau (beta x y theta tau : ℝ) (h0 : 0 ≤ tau) :
    VS.lorentz_boostX_beta.xy_theta_tau beta x y theta tau = VR.lorentz_boostX_beta.xy_theta_tau beta x y theta tau := by
  simp only [VS.lorentz_boostX_beta.xy_theta_tau, VR.lorentz_boostX_beta.xy_theta_tau, VS.spatial_z.xy_theta_eq, c08_lorentz_t_xy_theta_tau, h0, VR.P.nanToNum_eq]

theorem c08_lorentz_boostX_beta_xy_z_tau (beta x y z tau : ℝ) (h0 : 0 ≤ tau) :
    VS.lorentz_boostX_beta.xy_z_tau beta x y z tau = VR.lorentz_boostX_beta.xy_z_tau beta x y z tau := by
  simp only [VS.lorentz_boostX_beta.xy_z_tau, VR.lorentz_boostX_beta.xy_z_tau, c08_lorentz_t_xy_z_tau, h0, VR.P.nanToNum_eq]


/-! ### `lorentz_boostX_gamma` -/

theorem c08_lorentz_boostX_gamma_rhophi_eta_t (gamma rho phi eta t : ℝ) (hgamma : 0 ≤ gamma) :
    VS.lorentz_boostX_gamma.rhophi_eta_t gamma rho phi eta t = VR.lorentz_boostX_gamma.rhophi_eta_t gamma rho phi eta t := by
  simp only [VS.lorentz_boostX_gamma.rhophi_eta_t, VR.lorentz_boostX_gamma.rhophi_eta_t, VS.planar_x.rhophi_eq, VS.planar_y.rhophi_eq, VS.spatial_z.rhophi_eta_eq, hgamma, c08_copysign_nonneg (Real.sqrt_nonneg _) hgamma, VR.P.nanToNum_eq]

theorem c08_lorentz_boostX_gamma_rhophi_eta_tau (gamma rho phi eta tau : ℝ) (hgamma : 0 ≤ gamma) (h1 : 0 ≤ tau) :
    VS.lorentz_boostX_gamma.rhophi_eta_tau gamma rho phi eta tau = VR.lorentz_boostX_gamma.rhophi_eta_tau gamma rho phi eta tau := by
  simp only [VS.lorentz_boostX_gamma.rhophi_eta_tau, VR.lorentz_boostX_gamma.rhophi_eta_tau, VS.planar_x.rhophi_eq, VS.planar_y.rhophi_eq, VS.spatial_z.rhophi_eta_eq, c08_lorentz_t_rhophi_eta_tau, hgamma, h1, c08_copysign_nonneg (Real.sqrt_nonneg _) hgamma, VR.P.nanToNum_eq]

theorem c08_lorentz_boostX_gamma_rhophi_theta_t (gamma rho phi theta t : ℝ) (hgamma : 0 ≤ gamma) :
    VS.lorentz_boostX_gamma.rhophi_theta_t gamma rho phi theta t = VR.lorentz_boostX_gamma.rhophi_theta_t gamma rho phi theta t := by
  simp only [VS.lorentz_boostX_gamma.rhophi_theta_t, VR.lorentz_boostX_gamma.rhophi_theta_t, VS.planar_x.rhophi_eq, VS.planar_y.rhophi_eq, VS.spatial_z.rhophi_theta_eq, hgamma, c08_copysign_nonneg (Real.sqrt_nonneg _) hgamma, VR.P.nanToNum_eq]

theorem c08_lorentz_boostX_gamma_rhophi_theta_tau (gamma rho phi theta tau : ℝ) (hgamma : 0 ≤ gamma) (h1 : 0 ≤ tau) :
    VS.lorentz_boostX_gamma.rhophi_theta_tau gamma rho phi theta tau = VR.lorentz_boostX_gamma.rhophi_theta_tau gamma rho phi theta tau := by
  simp only [VS.lorentz_boostX_gamma.rhophi_theta_tau, VR.lorentz_boostX_gamma.rhophi_theta_tau, VS.planar_x.rhophi_eq, VS.planar_y.rhophi_eq, VS.spatial_z.rhophi_theta_eq, c08_lorentz_t_rhophi_theta_tau, hgamma, h1, c08_copysign_nonneg (Real.sqrt_nonneg _) hgamma, VR.P.nanToNum_eq]

theorem c08_lorentz_boostX_gamma_rhophi_z_t (gamma rho phi z t : ℝ) (hgamma : 0 ≤ gamma) :
    VS.lorentz_boostX_gamma.rhophi_z_t gamma rho phi z t = VR.lorentz_boostX_gamma.rhophi_z_t gamma rho phi z t := by
  simp only [VS.lorentz_boostX_gamma.rhophi_z_t, VR.lorentz_boostX_gamma.rhophi_z_t, VS.planar_x.rhophi_eq, VS.planar_y.rhophi_eq, hgamma, c08_copysign_nonneg (Real.sqrt_nonneg _) hgamma, VR.P.nanToNum_eq]

theorem c08_lorentz_boostX_gamma_rhophi_z_tau (gamma rho phi z tau : ℝ) (hgamma : 0 ≤ gamma) (h1 : 0 ≤ tau) :
    VS.lorentz_boostX_gamma.rhophi_z_tau gamma rho phi z tau = VR.lorentz_boostX_gamma.rhophi_z_tau gamma rho phi z tau := by
  simp only [VS.lorentz_boostX_gamma.rhophi_z_tau, VR.lorentz_boostX_gamma.rhophi_z_tau, VS.planar_x.rhophi_eq, VS.planar_y.rhophi_eq, c08_lorentz_t_rhophi_z_tau, hgamma, h1, c08_copysign_nonneg (Real.sqrt_nonneg _) hgamma, VR.P.nanToNum_eq]

theorem c08_lorentz_boostX_gamma_xy_eta_t (gamma x y eta t : ℝ) (hgamma : 0 ≤ gamma) :
    VS.lorentz_boostX_gamma.xy_eta_t gamma x y eta t = VR.lorentz_boostX_gamma.xy_eta_t gamma x y eta t := by
  simp only [VS.lorentz_boostX_gamma.xy_eta_t, VR.lorentz_boostX_gamma.xy_eta_t, VS.spatial_z.xy_eta_eq, hgamma, c08_copysign_nonneg (Real.sqrt_nonneg _) hgamma, VR.P.nanToNum_eq]

theorem c08_lorentz_boostX_gamma_xy_eta_tau (gamma x y eta tau : ℝ) (hgamma : 0 ≤ gamma) (h1 : 0 ≤ tau) :
    VS.lorentz_boostX_gamma.xy_eta_tau gamma x y eta tau = VR.lorentz_boostX_gamma.xy_eta_tau gamma x y eta tau := by
  simp only [VS.lorentz_boostX_gamma.xy_eta_tau, VR.lorentz_boostX_gamma.xy_eta_tau, VS.spatial_z.xy_eta_eq, c08_lorentz_t_xy_eta_tau, hgamma, h1, c08_copysign_nonneg (Real.sqrt_nonneg _) hgamma, VR.P.nanToNum_eq]

theorem c08_lorentz_boostX_gamma_xy_theta_t (gamma x y theta t : ℝ) (hgamma : 0 ≤ gamma) :
    VS.lorentz_boostX_gamma.xy_theta_t gamma x y theta t = VR.lorentz_boostX_gamma.xy_theta_t gamma x y theta t := by
  simp only [VS.lorentz_boostX_gamma.xy_theta_t, VR.lorentz_boostX_gamma.xy_theta_t, VS.spatial_z.xy_theta_eq, hgamma, c08_copysign_nonneg (Real.sqrt_nonneg _) hgamma, VR.P.nanToNum_eq]

theorem c08_lorentz_boostX_gamma_xy_theta_tau (gamma x y theta tau : ℝ) (hgamma : 0 ≤ gamma) (h1 : 0 ≤ tau) :
    VS.lorentz_boostX_gamma.xy_theta_tau gamma x y theta tau = VR.lorentz_boostX_gamma.xy_theta_tau gamma x y theta tau := by
  simp only [VS.lorentz_boostX_gamma.xy_theta_tau, VR.lorentz_boostX_gamma.xy_theta_tau, VS.spatial_z.xy_theta_eq, c08_lorentz_t_xy_theta_tau, hgamma, h1, c08_copysign_nonneg (Real.sqrt_nonneg _) hgamma, VR.P.nanToNum_eq]

theorem c08_lorentz_boostX_gamma_xy_z_t (gamma x y z t : ℝ) (hgamma : 0 ≤ gamma) :
    VS.lorentz_boostX_gamma.xy_z_t gamma x y z t = VR.lorentz_boostX_gamma.xy_z_t gamma x y z t := by
  simp only [VS.lorentz_boostX_gamma.xy_z_t, VR.lorentz_boostX_gamma.xy_z_t, hgamma, c08_copysign_nonneg (Real.sqrt_nonneg _) hgamma, VR.P.nanToNum_eq]

theorem c08_lorentz_boostX_gamma_xy_z_tau (gamma x y z tau : ℝ) (hgamma : 0 ≤ gamma) (h1 : 0 ≤ tau) :
    VS.lorentz_boostX_gamma.xy_z_tau gamma x y z tau = VR.lorentz_boostX_gamma.xy_z_tau gamma x y z tau := by
  simp only [VS.lorentz_boostX_gamma.xy_z_tau, VR.lorentz_boostX_gamma.xy_z_tau, c08_lorentz_t_xy_z_tau, hgamma, h1, c08_copysign_nonneg (Real.sqrt_nonneg _) hgamma, VR.P.nanToNum_eq]


/-! ### `lorentz_boostY_beta` -/

theorem c08_lorentz_boostY_beta_rhophi_eta_tau (beta rho phi eta tau : ℝ) (h0 : 0 ≤ tau) :
    VS.lorentz_boostY_beta.rhophi_eta_tau beta rho phi eta tau = VR.lorentz_boostY_beta.rhophi_eta_tau beta rho phi eta tau := by
  simp only [VS.lorentz_boostY_beta.rhophi_eta_tau, VR.lorentz_boostY_beta.rhophi_eta_tau, VS.planar_x.rhophi_eq, VS.planar_y.rhophi_eq, VS.spatial_z.rhophi_eta_eq, c08_lorentz_t_rhophi_eta_tau, h0, VR.P.nanToNum_eq]

theorem c08_lorentz_boostY_beta_rhophi_theta_tau (beta rho phi theta tau : ℝ) (h0 : 0 ≤ tau) :
    VS.lorentz_boostY_beta.rhophi_theta_tau beta rho phi theta tau = VR.lorentz_boostY_beta.rhophi_theta_tau beta rho phi theta tau := by
  simp only [VS.lorentz_boostY_beta.rhophi_theta_tau, VR.lorentz_boostY_beta.rhophi_theta_tau, VS.planar_x.rhophi_eq, VS.planar_y.rhophi_eq, VS.spatial_z.rhophi_theta_eq, c08_lorentz_t_rhophi_theta_tau, h0, VR.P.nanToNum_eq]

theorem c08_lorentz_boostY_beta_rhophi_z_tau (beta rho phi z tau : ℝ) (h0 : 0 ≤ tau) :
    VS.lorentz_boostY_beta.rhophi_z_tau beta rho phi z tau = VR.lorentz_boostY_beta.rhophi_z_tau beta rho phi z tau := by
  simp only [VS.lorentz_boostY_beta.rhophi_z_tau, VR.lorentz_boostY_beta.rhophi_z_tau, VS.planar_x.rhophi_eq, VS.planar_y.rhophi_eq, c08_lorentz_t_rhophi_z_tau, h0, VR.P.nanToNum_eq]

theorem c08_lorentz_boostY_beta_xy_eta_tau (beta x y eta tau : ℝ) (h0 : 0 ≤ tau) :
    VS.lorentz_boostY_beta.xy_eta_tau beta x y eta tau = VR.lorentz_boostY_beta.xy_eta_tau beta x y eta tau := by
  simp only [VS.lorentz_boostY_beta.xy_eta_tau, VR.lorentz_boostY_beta.xy_eta_tau, VS.spatial_z.xy_eta_eq, c08_lorentz_t_xy_eta_tau, h0, VR.P.nanToNum_eq]

theorem c08_lorentz_boostY_beta_xy_theta_tau (beta x y theta tau : ℝ) (h0 : 0 ≤ tau) :
    VS.lorentz_boostY_beta.xy_theta_tau beta x y theta tau = VR.lorentz_boostY_beta.xy_theta_tau beta x y theta tau := by
  simp only [VS.lorentz_boostY_beta.xy_theta_tau, VR.lorentz_boostY_beta.xy_theta_tau, VS.spatial_z.xy_theta_eq, c08_lorentz_t_xy_theta_tau, h0, VR.P.nanToNum_eq]

theorem c08_lorentz_boostY_beta_xy_z_tau (beta x y z tau : ℝ) (h0 : 0 ≤ tau) :
    VS.lorentz_boostY_beta.xy_z_tau beta x y z tau = VR.lorentz_boostY_beta.xy_z_tau beta x y z tau := by
  simp only [VS.lorentz_boostY_beta.xy_z_tau, VR.lorentz_boostY_beta.xy_z_tau, c08_lorentz_t_xy_z_tau, h0, VR.P.nanToNum_eq]


/-! ### `lorentz_boostY_gamma` -/

theorem c08_lorentz_boostY_gamma_rhophi_eta_t (gamma rho phi eta t : ℝ) (hgamma : 0 ≤ gamma) :
    VS.lorentz_boostY_gamma.rhophi_eta_t gamma rho phi eta t = VR.lorentz_boostY_gamma.rhophi_eta_t gamma rho phi eta t := by
  simp only [VS.lorentz_boostY_gamma.rhophi_eta_t, VR.lorentz_boostY_gamma.rhophi_eta_t, VS.planar_x.rhophi_eq, VS.planar_y.rhophi_eq, VS.spatial_z.rhophi_eta_eq, hgamma, c08_copysign_nonneg (Real.sqrt_nonneg _) hgamma, VR.P.nanToNum_eq]

theorem c08_lorentz_boostY_gamma_rhophi_eta_tau (gamma rho phi eta tau : ℝ) (hgamma : 0 ≤ gamma) (h1 : 0 ≤ tau) :
    VS.lorentz_boostY_gamma.rhophi_eta_tau gamma rho phi eta tau = VR.lorentz_boostY_gamma.rhophi_eta_tau gamma rho phi eta tau := by
  simp only [VS.lorentz_boostY_gamma.rhophi_eta_tau, VR.lorentz_boostY_gamma.rhophi_eta_tau, VS.planar_x.rhophi_eq, VS.planar_y.rhophi_eq, VS.spatial_z.rhophi_eta_eq, c08_lorentz_t_rhophi_eta_tau, hgamma, h1, c08_copysign_nonneg (Real.sqrt_nonneg _) hgamma, VR.P.nanToNum_eq]

theorem c08_lorentz_boostY_gamma_rhophi_theta_t (gamma rho phi theta t : ℝ) (hgamma : 0 ≤ gamma) :
    VS.lorentz_boostY_gamma.rhophi_theta_t gamma rho phi theta t = VR.lorentz_boostY_gamma.rhophi_theta_t gamma rho phi theta t := by
  simp only [VS.lorentz_boostY_gamma.rhophi_theta_t, VR.lorentz_boostY_gamma.rhophi_theta_t, VS.planar_x.rhophi_eq, VS.planar_y.rhophi_eq, VS.spatial_z.rhophi_theta_eq, hgamma, c08_copysign_nonneg (Real.sqrt_nonneg _) hgamma, VR.P.nanToNum_eq]

theorem c08_lorentz_boostY_gamma_rhophi_theta_tau (gamma rho phi theta tau : ℝ) (hgamma : 0 ≤ gamma) (h1 : 0 ≤ tau) :
    VS.lorentz_boostY_gamma.rhophi_theta_tau gamma rho phi theta tau = VR.lorentz_boostY_gamma.rhophi_theta_tau gamma rho phi theta tau := by
  simp only [VS.lorentz_boostY_gamma.rhophi_theta_tau, VR.lorentz_boostY_gamma.rhophi_theta_tau, VS.planar_x.rhophi_eq, VS.planar_y.rhophi_eq, VS.spatial_z.rhophi_theta_eq, c08_lorentz_t_rhophi_theta_tau, hgamma, h1, c08_copysign_nonneg (Real.sqrt_nonneg _) hgamma, VR.P.nanToNum_eq]

theorem c08_lorentz_boostY_gamma_rhophi_z_t (gamma rho phi z t : ℝ) (hgamma : 0 ≤ gamma) :
    VS.lorentz_boostY_gamma.rhophi_z_t gamma rho phi z t = VR.lorentz_boostY_gamma.rhophi_z_t gamma rho phi z t := by
  simp only [VS.lorentz_boostY_gamma.rhophi_z_t, VR.lorentz_boostY_gamma.rhophi_z_t, VS.planar_x.rhophi_eq, VS.planar_y.rhophi_eq, hgamma, c08_copysign_nonneg (Real.sqrt_nonneg _) hgamma, VR.P.nanToNum_eq]

theorem c08_lorentz_boostY_gamma_rhophi_z_tau (gamma rho phi z tau : ℝ) (hgamma : 0 ≤ gamma) (h1 : 0 ≤ tau) :
    VS.lorentz_boostY_gamma.rhophi_z_tau gamma rho phi z tau = VR.lorentz_boostY_gamma.rhophi_z_tau gamma rho phi z tau := by
  simp only [VS.lorentz_boostY_gamma.rhophi_z_tau, VR.lorentz_boostY_gamma.rhophi_z_tau, VS.planar_x.rhophi_eq, VS.planar_y.rhophi_eq, c08_lorentz_t_rhophi_z_tau, hgamma, h1, c08_copysign_nonneg (Real.sqrt_nonneg _) hgamma, VR.P.nanToNum_eq]

theorem c08_lorentz_boostY_gamma_xy_eta_t (gamma x y eta t : ℝ) (hgamma : 0 ≤ gamma) :
    VS.lorentz_boostY_gamma.xy_eta_t gamma x y eta t = VR.lorentz_boostY_gamma.xy_eta_t gamma x y eta t := by
  simp only [VS.lorentz_boostY_gamma.xy_eta_t, VR.lorentz_boostY_gamma.xy_eta_t, VS.spatial_z.xy_eta_eq, hgamma, c08_copysign_nonneg (Real.sqrt_nonneg _) hgamma, VR.P.nanToNum_eq]

theorem c08_lorentz_boostY_gamma_xy_eta_tau (gamma x y eta tau : ℝ) (hgamma : 0 ≤ gamma) (h1 : 0 ≤ tau) :
    VS.lorentz_boostY_gamma.xy_eta_tau gamma x y eta tau = VR.lorentz_boostY_gamma.xy_eta_tau gamma x y eta tau := by
  simp only [VS.lorentz_boostY_gamma.xy_eta_tau, VR.lorentz_boostY_gamma.xy_eta_tau, VS.spatial_z.xy_eta_eq, c08_lorentz_t_xy_eta_tau, hgamma, h1, c08_copysign_nonneg (Real.sqrt_nonneg _) hgamma, VR.P.nanToNum_eq]

theorem c08_lorentz_boostY_gamma_xy_theta_t (gamma x y theta t : ℝ) (hgamma : 0 ≤ gamma) :
    VS.lorentz_boostY_gamma.xy_theta_t gamma x y theta t = VR.lorentz_boostY_gamma.xy_theta_t gamma x y theta t := by
  simp only [VS.lorentz_boostY_gamma.xy_theta_t, VR.lorentz_boostY_gamma.xy_theta_t, VS.spatial_z.xy_theta_eq, hgamma, c08_copysign_nonneg (Real.sqrt_nonneg _) hgamma, VR.P.nanToNum_eq]

theorem c08_lorentz_boostY_gamma_xy_theta_tau (gamma x y theta tau : ℝ) (hgamma : 0 ≤ gamma) (h1 : 0 ≤ tau) :
    VS.lorentz_boostY_gamma.xy_theta_tau gamma x y theta tau = VR.lorentz_boostY_gamma.xy_theta_tau gamma x y theta tau := by
  simp only [VS.lorentz_boostY_gamma.xy_theta_tau, VR.lorentz_boostY_gamma.xy_theta_tau, VS.spatial_z.xy_theta_eq, c08_lorentz_t_xy_theta_tau, hgamma, h1, c08_copysign_nonneg (Real.sqrt_nonneg _) hgamma, VR.P.nanToNum_eq]

theorem c08_lorentz_boostY_gamma_xy_z_t (gamma x y z t : ℝ) (hgamma : 0 ≤ gamma) :
    VS.lorentz_boostY_gamma.xy_z_t gamma x y z t = VR.lorentz_boostY_gamma.xy_z_t gamma x y z t := by
  simp only [VS.lorentz_boostY_gamma.xy_z_t, VR.lorentz_boostY_gamma.xy_z_t, hgamma, c08_copysign_nonneg (Real.sqrt_nonneg _) hgamma, VR.P.nanToNum_eq]

theorem c08_lorentz_boostY_gamma_xy_z_tau (gamma x y z tau : ℝ) (hgamma : 0 ≤ gamma) (h1 : 0 ≤ tau) :
    VS.lorentz_boostY_gamma.xy_z_tau gamma x y z tau = VR.lorentz_boostY_gamma.xy_z_tau gamma x y z tau := by
  simp only [VS.lorentz_boostY_gamma.xy_z_tau, VR.lorentz_boostY_gamma.xy_z_tau, c08_lorentz_t_xy_z_tau, hgamma, h1, c08_copysign_nonneg (Real.sqrt_nonneg _) hgamma, VR.P.nanToNum_eq]


/-! ### `lorentz_boostZ_beta` -/

theorem c08_lorentz_boostZ_beta_rhophi_eta_tau (beta rho phi eta tau : ℝ) (h0 : 0 ≤ tau) :
    VS.lorentz_boostZ_beta.rhophi_eta_tau beta rho phi eta tau = VR.lorentz_boostZ_beta.rhophi_eta_tau beta rho phi eta tau := by
  simp only [VS.lorentz_boostZ_beta.rhophi_eta_tau, VR.lorentz_boostZ_beta.rhophi_eta_tau, VS.spatial_z.rhophi_eta_eq, c08_lorentz_t_rhophi_eta_tau, h0, VR.P.nanToNum_eq]

theorem c08_lorentz_boostZ_beta_rhophi_theta_tau (beta rho phi theta tau : ℝ) (h0 : 0 ≤ tau) :
    VS.lorentz_boostZ_beta.rhophi_theta_tau beta rho phi theta tau = VR.lorentz_boostZ_beta.rhophi_theta_tau beta rho phi theta tau := by
  simp only [VS.lorentz_boostZ_beta.rhophi_theta_tau, VR.lorentz_boostZ_beta.rhophi_theta_tau, VS.spatial_z.rhophi_theta_eq, c08_lorentz_t_rhophi_theta_tau, h0, VR.P.nanToNum_eq]

theorem c08_lorentz_boostZ_beta_rhophi_z_tau (beta rho phi z tau : ℝ) (h0 : 0 ≤ tau) :
    VS.lorentz_boostZ_beta.rhophi_z_tau beta rho phi z tau = VR.lorentz_boostZ_beta.rhophi_z_tau beta rho phi z tau := by
  simp only [VS.lorentz_boostZ_beta.rhophi_z_tau, VR.lorentz_boostZ_beta.rhophi_z_tau, c08_lorentz_t_rhophi_z_tau, h0, VR.P.nanToNum_eq]

theorem c08_lorentz_boostZ_beta_xy_eta_tau (beta x y eta tau : ℝ) (h0 : 0 ≤ tau) :
    VS.lorentz_boostZ_beta.xy_eta_tau beta x y eta tau = VR.lorentz_boostZ_beta.xy_eta_tau beta x y eta tau := by
  simp only [VS.lorentz_boostZ_beta.xy_eta_tau, VR.lorentz_boostZ_beta.xy_eta_tau, VS.spatial_z.xy_eta_eq, c08_lorentz_t_xy_eta_tau, h0, VR.P.nanToNum_eq]

theorem c08_lorentz_boostZ_beta_xy_theta_tau (beta x y theta tau : ℝ) (h0 : 0 ≤ tau) :
    VS.lorentz_boostZ_beta.xy_theta_tau beta x y theta tau = VR.lorentz_boostZ_beta.xy_theta_tau beta x y theta tau := by
  simp only [VS.lorentz_boostZ_beta.xy_theta_tau, VR.lorentz_boostZ_beta.xy_theta_tau, VS.spatial_z.xy_theta_eq, c08_lorentz_t_xy_theta_tau, h0, VR.P.nanToNum_eq]

theorem c08_lorentz_boostZ_beta_xy_z_tau (beta x y z tau : ℝ) (h0 : 0 ≤ tau) :
    VS.lorentz_boostZ_beta.xy_z_tau beta x y z tau = VR.lorentz_boostZ_beta.xy_z_tau beta x y z tau := by
  simp only [VS.lorentz_boostZ_beta.xy_z_tau, VR.lorentz_boostZ_beta.xy_z_tau, c08_lorentz_t_xy_z_tau, h0, VR.P.nanToNum_eq]


/-! ### `lorentz_boostZ_gamma` -/

theorem c08_lorentz_boostZ_gamma_rhophi_eta_t (gamma rho phi eta t : ℝ) (hgamma : 0 ≤ gamma) :
    VS.lorentz_boostZ_gamma.rhophi_eta_t gamma rho phi eta t = VR.lorentz_boostZ_gamma.rhophi_eta_t gamma rho phi eta t := by
  simp only [VS.lorentz_boostZ_gamma.rhophi_eta_t, VR.lorentz_boostZ_gamma.rhophi_eta_t, VS.spatial_z.rhophi_eta_eq, hgamma, c08_copysign_nonneg (Real.sqrt_nonneg _) hgamma, VR.P.nanToNum_eq]

theorem c08_lorentz_boostZ_gamma_rhophi_eta_tau (gamma rho phi eta tau : ℝ) (hgamma : 0 ≤ gamma) (h1 : 0 ≤ tau) :
    VS.lorentz_boostZ_gamma.rhophi_eta_tau gamma rho phi eta tau = VR.lorentz_boostZ_gamma.rhophi_eta_tau gamma rho phi eta tau := by
  simp only [VS.lorentz_boostZ_gamma.rhophi_eta_tau, VR.lorentz_boostZ_gamma.rhophi_eta_tau, VS.spatial_z.rhophi_eta_eq, c08_lorentz_t_rhophi_eta_tau, hgamma, h1, c08_copysign_nonneg (Real.sqrt_nonneg _) hgamma, VR.P.nanToNum_eq]

theorem c08_lorentz_boostZ_gamma_rhophi_theta_t (gamma rho phi theta t : ℝ) (hgamma : 0 ≤ gamma) :
    VS.lorentz_boostZ_gamma.rhophi_theta_t gamma rho phi theta t = VR.lorentz_boostZ_gamma.rhophi_theta_t gamma rho phi theta t := by
  simp only [VS.lorentz_boostZ_gamma.rhophi_theta_t, VR.lorentz_boostZ_gamma.rhophi_theta_t, VS.spatial_z.rhophi_theta_eq, hgamma, c08_copysign_nonneg (Real.sqrt_nonneg _) hgamma, VR.P.nanToNum_eq]

theorem c08_lorentz_boostZ_gamma_rhophi_theta_tau (gamma rho phi theta tau : ℝ) (hgamma : 0 ≤ gamma) (h1 : 0 ≤ tau) :
    VS.lorentz_boostZ_gamma.rhophi_theta_tau gamma rho phi theta tau = VR.lorentz_boostZ_gamma.rhophi_theta_tau gamma rho phi theta tau := by
  simp only [VS.lorentz_boostZ_gamma.rhophi_theta_tau, VR.lorentz_boostZ_gamma.rhophi_theta_tau, VS.spatial_z.rhophi_theta_eq, c08_lorentz_t_rhophi_theta_tau, hgamma, h1, c08_copysign_nonneg (Real.sqrt_nonneg _) hgamma, VR.P.nanToNum_eq]

theorem c08_lorentz_boostZ_gamma_rhophi_z_t (gamma rho phi z t : ℝ) (hgamma : 0 ≤ gamma) :
    VS.lorentz_boostZ_gamma.rhophi_z_t gamma rho phi z t = VR.lorentz_boostZ_gamma.rhophi_z_t gamma rho phi z t := by
  simp only [VS.lorentz_boostZ_gamma.rhophi_z_t, VR.lorentz_boostZ_gamma.rhophi_z_t, hgamma, c08_copysign_nonneg (Real.sqrt_nonneg _) hgamma, VR.P.nanToNum_eq]

theorem c08_lorentz_boostZ_gamma_rhophi_z_tau (gamma rho phi z tau : ℝ) (hgamma : 0 ≤ gamma) (h1 : 0 ≤ tau) :
    VS.lorentz_boostZ_gamma.rhophi_z_tau gamma rho phi z tau = VR.lorentz_boostZ_gamma.rhophi_z_tau gamma rho phi z tau := by
  simp only [VS.lorentz_boostZ_gamma.rhophi_z_tau, VR.lorentz_boostZ_gamma.rhophi_z_tau, c08_lorentz_t_rhophi_z_tau, hgamma, h1, c08_copysign_nonneg (Real.sqrt_nonneg _) hgamma, VR.P.nanToNum_eq]

theorem c08_lorentz_boostZ_gamma_xy_eta_t (gamma x y eta t : ℝ) (hgamma : 0 ≤ gamma) :
    VS.lorentz_boostZ_gamma.xy_eta_t gamma x y eta t = VR.lorentz_boostZ_gamma.xy_eta_t gamma x y eta t := by
  simp only [VS.lorentz_boostZ_gamma.xy_eta_t, VR.lorentz_boostZ_gamma.xy_eta_t, VS.spatial_z.xy_eta_eq, hgamma, c08_copysign_nonneg (Real.sqrt_nonneg _) hgamma, VR.P.nanToNum_eq]

theorem c08_lorentz_boostZ_gamma_xy_eta_tau (gamma x y eta tau : ℝ) (hgamma : 0 ≤ gamma) (h1 : 0 ≤ tau) :
    VS.lorentz_boostZ_gamma.xy_eta_tau gamma x y eta tau = VR.lorentz_boostZ_gamma.xy_eta_tau gamma x y eta tau := by
  simp only [VS.lorentz_boostZ_gamma.xy_eta_tau, VR.lorentz_boostZ_gamma.xy_eta_tau, VS.spatial_z.xy_eta_eq, c08_lorentz_t_xy_eta_tau, hgamma, h1, c08_copysign_nonneg (Real.sqrt_nonneg _) hgamma, VR.P.nanToNum_eq]

theorem c08_lorentz_boostZ_gamma_xy_theta_t (gamma x y theta t : ℝ) (hgamma : 0 ≤ gamma) :
    VS.lorentz_boostZ_gamma.xy_theta_t gamma x y theta t = VR.lorentz_boostZ_gamma.xy_theta_t gamma x y theta t := by
  simp only [VS.lorentz_boostZ_gamma.xy_theta_t, VR.lorentz_boostZ_gamma.xy_theta_t, VS.spatial_z.xy_theta_eq, hgamma, c08_copysign_nonneg (Real.sqrt_nonneg _) hgamma, VR.P.nanToNum_eq]

theorem c08_lorentz_boostZ_gamma_xy_theta_tau (gamma x y theta tau : ℝ) (hgamma : 0 ≤ gamma) (h1 : 0 ≤ tau) :
    VS.lorentz_boostZ_gamma.xy_theta_tau gamma x y theta tau = VR.lorentz_boostZ_gamma.xy_theta_tau gamma x y theta tau := by
  simp only [VS.lorentz_boostZ_gamma.xy_theta_tau, VR.lorentz_boostZ_gamma.xy_theta_tau, VS.spatial_z.xy_theta_eq, c08_lorentz_t_xy_theta_tau, hgamma, h1, c08_copysign_nonneg (Real.sqrt_nonneg _) hgamma, VR.P.nanToNum_eq]

theorem c08_lorentz_boostZ_gamma_xy_z_t (gamma x y z t : ℝ) (hgamma : 0 ≤ gamma) :
    VS.lorentz_boostZ_gamma.xy_z_t gamma x y z t = VR.lorentz_boostZ_gamma.xy_z_t gamma x y z t := by
  simp only [VS.lorentz_boostZ_gamma.xy_z_t, VR.lorentz_boostZ_gamma.xy_z_t, hgamma, c08_copysign_nonneg (Real.sqrt_nonneg _) hgamma, VR.P.nanToNum_eq]

theorem c08_lorentz_boostZ_gamma_xy_z_tau (gamma x y z tau : ℝ) (hgamma : 0 ≤ gamma) (h1 : 0 ≤ tau) :
    VS.lorentz_boostZ_gamma.xy_z_tau gamma x y z tau = VR.lorentz_boostZ_gamma.xy_z_tau gamma x y z tau := by
  simp only [VS.lorentz_boostZ_gamma.xy_z_tau, VR.lorentz_boostZ_gamma.xy_z_tau, c08_lorentz_t_xy_z_tau, hgamma, h1, c08_copysign_nonneg (Real.sqrt_nonneg _) hgamma, VR.P.nanToNum_eq]


/-! ### `lorentz_boost_beta3` -/

theorem c08_lorentz_boost_beta3_cartesian_tau (x1 y1 z1 tau1 betax betay betaz : ℝ) (h0 : 0 ≤ tau1) :
    VS.lorentz_boost_beta3.cartesian_tau x1 y1 z1 tau1 betax betay betaz = VR.lorentz_boost_beta3.cartesian_tau x1 y1 z1 tau1 betax betay betaz := by
  simp only [VS.lorentz_boost_beta3.cartesian_tau, VR.lorentz_boost_beta3.cartesian_tau, c08_lorentz_transform4D_cartesian_tau, h0, VR.P.nanToNum_eq]

theorem c08_lorentz_boost_beta3_cartesian_tau_rhophi_eta (x1 y1 z1 tau1 rho2 phi2 eta2 : ℝ) (h0 : 0 ≤ tau1) :
    VS.lorentz_boost_beta3.cartesian_tau_rhophi_eta x1 y1 z1 tau1 rho2 phi2 eta2 = VR.lorentz_boost_beta3.cartesian_tau_rhophi_eta x1 y1 z1 tau1 rho2 phi2 eta2 := by
  simp only [VS.lorentz_boost_beta3.cartesian_tau_rhophi_eta, VR.lorentz_boost_beta3.cartesian_tau_rhophi_eta, c08_lorentz_boost_beta3_cartesian_tau, VS.planar_x.rhophi_eq, VS.planar_y.rhophi_eq, VS.spatial_z.rhophi_eta_eq, h0, VR.P.nanToNum_eq]

theorem c08_lorentz_boost_beta3_cartesian_tau_rhophi_theta (x1 y1 z1 tau1 rho2 phi2 theta2 : ℝ) (h0 : 0 ≤ tau1) :
    VS.lorentz_boost_beta3.cartesian_tau_rhophi_theta x1 y1 z1 tau1 rho2 phi2 theta2 = VR.lorentz_boost_beta3.cartesian_tau_rhophi_theta x1 y1 z1 tau1 rho2 phi2 theta2 := by
  simp only [VS.lorentz_boost_beta3.cartesian_tau_rhophi_theta, VR.lorentz_boost_beta3.cartesian_tau_rhophi_theta, c08_lorentz_boost_beta3_cartesian_tau, VS.planar_x.rhophi_eq, VS.planar_y.rhophi_eq, VS.spatial_z.rhophi_theta_eq, h0, VR.P.nanToNum_eq]

theorem c08_lorentz_boost_beta3_cartesian_tau_rhophi_z (x1 y1 z1 tau1 rho2 phi2 z2 : ℝ) (h0 : 0 ≤ tau1) :
    VS.lorentz_boost_beta3.cartesian_tau_rhophi_z x1 y1 z1 tau1 rho2 phi2 z2 = VR.lorentz_boost_beta3.cartesian_tau_rhophi_z x1 y1 z1 tau1 rho2 phi2 z2 := by
  simp only [VS.lorentz_boost_beta3.cartesian_tau_rhophi_z, VR.lorentz_boost_beta3.cartesian_tau_rhophi_z, c08_lorentz_boost_beta3_cartesian_tau, VS.planar_x.rhophi_eq, VS.planar_y.rhophi_eq, h0, VR.P.nanToNum_eq]

theorem c08_lorentz_boost_beta3_cartesian_tau_xy_eta (x1 y1 z1 tau1 x2 y2 eta2 : ℝ) (h0 : 0 ≤ tau1) :
    VS.lorentz_boost_beta3.cartesian_tau_xy_eta x1 y1 z1 tau1 x2 y2 eta2 = VR.lorentz_boost_beta3.cartesian_tau_xy_eta x1 y1 z1 tau1 x2 y2 eta2 := by
  simp only [VS.lorentz_boost_beta3.cartesian_tau_xy_eta, VR.lorentz_boost_beta3.cartesian_tau_xy_eta, c08_lorentz_boost_beta3_cartesian_tau, VS.spatial_z.xy_eta_eq, h0, VR.P.nanToNum_eq]

theorem c08_lorentz_boost_beta3_cartesian_tau_xy_theta (x1 y1 z1 tau1 x2 y2 theta2 : ℝ) (h0 : 0 ≤ tau1) :
    VS.lorentz_boost_beta3.cartesian_tau_xy_theta x1 y1 z1 tau1 x2 y2 theta2 = VR.lorentz_boost_beta3.cartesian_tau_xy_theta x1 y1 z1 tau1 x2 y2 theta2 := by
  simp only [VS.lorentz_boost_beta3.cartesian_tau_xy_theta, VR.lorentz_boost_beta3.cartesian_tau_xy_theta, c08_lorentz_boost_beta3_cartesian_tau, VS.spatial_z.xy_theta_eq, h0, VR.P.nanToNum_eq]

theorem c08_lorentz_boost_beta3_cartesian_tau_xy_z (x1 y1 z1 tau1 x2 y2 z2 : ℝ) (h0 : 0 ≤ tau1) :
    VS.lorentz_boost_beta3.cartesian_tau_xy_z x1 y1 z1 tau1 x2 y2 z2 = VR.lorentz_boost_beta3.cartesian_tau_xy_z x1 y1 z1 tau1 x2 y2 z2 := by
  simp only [VS.lorentz_boost_beta3.cartesian_tau_xy_z, VR.lorentz_boost_beta3.cartesian_tau_xy_z, c08_lorentz_boost_beta3_cartesian_tau, h0, VR.P.nanToNum_eq]

theorem c08_lorentz_boost_beta3_k_xy_z_tau_rhophi_eta (coord11 coord12 coord13 coord14 coord21 coord22 coord23 : ℝ) (h0 : 0 ≤ coord14) :
    VS.lorentz_boost_beta3.k_xy_z_tau_rhophi_eta coord11 coord12 coord13 coord14 coord21 coord22 coord23 = VR.lorentz_boost_beta3.k_xy_z_tau_rhophi_eta coord11 coord12 coord13 coord14 coord21 coord22 coord23 := by
  simp only [VS.lorentz_boost_beta3.k_xy_z_tau_rhophi_eta, VR.lorentz_boost_beta3.k_xy_z_tau_rhophi_eta, c08_lorentz_boost_beta3_cartesian_tau_rhophi_eta, VS.planar_x.xy_eq, VS.planar_y.xy_eq, VS.spatial_z.xy_z_eq, h0, VR.P.nanToNum_eq]

theorem c08_lorentz_boost_beta3_k_rhophi_eta_tau_rhophi_eta (coord11 coord12 coord13 coord14 coord21 coord22 coord23 : ℝ) (h0 : 0 ≤ coord14) :
    VS.lorentz_boost_beta3.k_rhophi_eta_tau_rhophi_eta coord11 coord12 coord13 coord14 coord21 coord22 coord23 = VR.lorentz_boost_beta3.k_rhophi_eta_tau_rhophi_eta coord11 coord12 coord13 coord14 coord21 coord22 coord23 := by
  simp only [VS.lorentz_boost_beta3.k_rhophi_eta_tau_rhophi_eta, VR.lorentz_boost_beta3.k_rhophi_eta_tau_rhophi_eta, c08_lorentz_boost_beta3_k_xy_z_tau_rhophi_eta, VS.planar_x.rhophi_eq, VS.planar_y.rhophi_eq, VS.spatial_z.rhophi_eta_eq, h0, VR.P.nanToNum_eq]

theorem c08_lorentz_boost_beta3_k_xy_z_tau_rhophi_theta (coord11 coord12 coord13 coord14 coord21 coord22 coord23 : ℝ) (h0 : 0 ≤ coord14) :
    VS.lorentz_boost_beta3.k_xy_z_tau_rhophi_theta coord11 coord12 coord13 coord14 coord21 coord22 coord23 = VR.lorentz_boost_beta3.k_xy_z_tau_rhophi_theta coord11 coord12 coord13 coord14 coord21 coord22 coord23 := by
  simp only [VS.lorentz_boost_beta3.k_xy_z_tau_rhophi_theta, VR.lorentz_boost_beta3.k_xy_z_tau_rhophi_theta, c08_lorentz_boost_beta3_cartesian_tau_rhophi_theta, VS.planar_x.xy_eq, VS.planar_y.xy_eq, VS.spatial_z.xy_z_eq, h0, VR.P.nanToNum_eq]

theorem c08_lorentz_boost_beta3_k_rhophi_eta_tau_rhophi_theta (coord11 coord12 coord13 coord14 coord21 coord22 coord23 : ℝ) (h0 : 0 ≤ coord14) :
    VS.lorentz_boost_beta3.k_rhophi_eta_tau_rhophi_theta coord11 coord12 coord13 coord14 coord21 coord22 coord23 = VR.lorentz_boost_beta3.k_rhophi_eta_tau_rhophi_theta coord11 coord12 coord13 coord14 coord21 coord22 coord23 := by
  simp only [VS.lorentz_boost_beta3.k_rhophi_eta_tau_rhophi_theta, VR.lorentz_boost_beta3.k_rhophi_eta_tau_rhophi_theta, c08_lorentz_boost_beta3_k_xy_z_tau_rhophi_theta, VS.planar_x.rhophi_eq, VS.planar_y.rhophi_eq, VS.spatial_z.rhophi_eta_eq, h0, VR.P.nanToNum_eq]

theorem c08_lorentz_boost_beta3_k_xy_z_tau_rhophi_z (coord11 coord12 coord13 coord14 coord21 coord22 coord23 : ℝ) (h0 : 0 ≤ coord14) :
    VS.lorentz_boost_beta3.k_xy_z_tau_rhophi_z coord11 coord12 coord13 coord14 coord21 coord22 coord23 = VR.lorentz_boost_beta3.k_xy_z_tau_rhophi_z coord11 coord12 coord13 coord14 coord21 coord22 coord23 := by
  simp only [VS.lorentz_boost_beta3.k_xy_z_tau_rhophi_z, VR.lorentz_boost_beta3.k_xy_z_tau_rhophi_z, c08_lorentz_boost_beta3_cartesian_tau_rhophi_z, VS.planar_x.xy_eq, VS.planar_y.xy_eq, VS.spatial_z.xy_z_eq, h0, VR.P.nanToNum_eq]

theorem c08_lorentz_boost_beta3_k_rhophi_eta_tau_rhophi_z (coord11 coord12 coord13 coord14 coord21 coord22 coord23 : ℝ) (h0 : 0 ≤ coord14) :
    VS.lorentz_boost_beta3.k_rhophi_eta_tau_rhophi_z coord11 coord12 coord13 coord14 coord21 coord22 coord23 = VR.lorentz_boost_beta3.k_rhophi_eta_tau_rhophi_z coord11 coord12 coord13 coord14 coord21 coord22 coord23 := by
  simp only [VS.lorentz_boost_beta3.k_rhophi_eta_tau_rhophi_z, VR.lorentz_boost_beta3.k_rhophi_eta_tau_rhophi_z, c08_lorentz_boost_beta3_k_xy_z_tau_rhophi_z, VS.planar_x.rhophi_eq, VS.planar_y.rhophi_eq, VS.spatial_z.rhophi_eta_eq, h0, VR.P.nanToNum_eq]

theorem c08_lorentz_boost_beta3_k_xy_z_tau_xy_eta (coord11 coord12 coord13 coord14 coord21 coord22 coord23 : ℝ) (h0 : 0 ≤ coord14) :
    VS.lorentz_boost_beta3.k_xy_z_tau_xy_eta coord11 coord12 coord13 coord14 coord21 coord22 coord23 = VR.lorentz_boost_beta3.k_xy_z_tau_xy_eta coord11 coord12 coord13 coord14 coord21 coord22 coord23 := by
  simp only [VS.lorentz_boost_beta3.k_xy_z_tau_xy_eta, VR.lorentz_boost_beta3.k_xy_z_tau_xy_eta, c08_lorentz_boost_beta3_cartesian_tau_xy_eta, VS.planar_x.xy_eq, VS.planar_y.xy_eq, VS.spatial_z.xy_z_eq, h0, VR.P.nanToNum_eq]

theorem c08_lorentz_boost_beta3_k_rhophi_eta_tau_xy_eta (coord11 coord12 coord13 coord14 coord21 coord22 coord23 : ℝ) (h0 : 0 ≤ coord14) :
    VS.lorentz_boost_beta3.k_rhophi_eta_tau_xy_eta coord11 coord12 coord13 coord14 coord21 coord22 coord23 = VR.lorentz_boost_beta3.k_rhophi_eta_tau_xy_eta coord11 coord12 coord13 coord14 coord21 coord22 coord23 := by
  simp only [VS.lorentz_boost_beta3.k_rhophi_eta_tau_xy_eta, VR.lorentz_boost_beta3.k_rhophi_eta_tau_xy_eta, c08_lorentz_boost_beta3_k_xy_z_tau_xy_eta, VS.planar_x.rhophi_eq, VS.planar_y.rhophi_eq, VS.spatial_z.rhophi_eta_eq, h0, VR.P.nanToNum_eq]

theorem c08_lorentz_boost_beta3_k_xy_z_tau_xy_theta (coord11 coord12 coord13 coord14 coord21 coord22 coord23 : ℝ) (h0 : 0 ≤ coord14) :
    VS.lorentz_boost_beta3.k_xy_z_tau_xy_theta coord11 coord12 coord13 coord14 coord21 coord22 coord23 = VR.lorentz_boost_beta3.k_xy_z_tau_xy_theta coord11 coord12 coord13 coord14 coord21 coord22 coord23 := by
  simp only [VS.lorentz_boost_beta3.k_xy_z_tau_xy_theta, VR.lorentz_boost_beta3.k_xy_z_tau_xy_theta, c08_lorentz_boost_beta3_cartesian_tau_xy_theta, VS.planar_x.xy_eq, VS.planar_y.xy_eq, VS.spatial_z.xy_z_eq, h0, VR.P.nanToNum_eq]

theorem c08_lorentz_boost_beta3_k_rhophi_eta_tau_xy_theta (coord11 coord12 coord13 coord14 coord21 coord22 coord23 : ℝ) (h0 : 0 ≤ coord14) :
    VS.lorentz_boost_beta3.k_rhophi_eta_tau_xy_theta coord11 coord12 coord13 coord14 coord21 coord22 coord23 = VR.lorentz_boost_beta3.k_rhophi_eta_tau_xy_theta coord11 coord12 coord13 coord14 coord21 coord22 coord23 := by
  simp only [VS.lorentz_boost_beta3.k_rhophi_eta_tau_xy_theta, VR.lorentz_boost_beta3.k_rhophi_eta_tau_xy_theta, c08_lorentz_boost_beta3_k_xy_z_tau_xy_theta, VS.planar_x.rhophi_eq, VS.planar_y.rhophi_eq, VS.spatial_z.rhophi_eta_eq, h0, VR.P.nanToNum_eq]

theorem c08_lorentz_boost_beta3_k_xy_z_tau_xy_z (coord11 coord12 coord13 coord14 coord21 coord22 coord23 : ℝ) (h0 : 0 ≤ coord14) :
    VS.lorentz_boost_beta3.k_xy_z_tau_xy_z coord11 coord12 coord13 coord14 coord21 coord22 coord23 = VR.lorentz_boost_beta3.k_xy_z_tau_xy_z coord11 coord12 coord13 coord14 coord21 coord22 coord23 := by
  simp only [VS.lorentz_boost_beta3.k_xy_z_tau_xy_z, VR.lorentz_boost_beta3.k_xy_z_tau_xy_z, c08_lorentz_boost_beta3_cartesian_tau_xy_z, VS.planar_x.xy_eq, VS.planar_y.xy_eq, VS.spatial_z.xy_z_eq, h0, VR.P.nanToNum_eq]

theorem c08_lorentz_boost_beta3_k_rhophi_eta_tau_xy_z (coord11 coord12 coord13 coord14 coord21 coord22 coord23 : ℝ) (h0 : 0 ≤ coord14) :
    VS.lorentz_boost_beta3.k_rhophi_eta_tau_xy_z coord11 coord12 coord13 coord14 coord21 coord22 coord23 = VR.lorentz_boost_beta3.k_rhophi_eta_tau_xy_z coord11 coord12 coord13 coord14 coord21 coord22 coord23 := by
  simp only [VS.lorentz_boost_beta3.k_rhophi_eta_tau_xy_z, VR.lorentz_boost_beta3.k_rhophi_eta_tau_xy_z, c08_lorentz_boost_beta3_k_xy_z_tau_xy_z, VS.planar_x.rhophi_eq, VS.planar_y.rhophi_eq, VS.spatial_z.rhophi_eta_eq, h0, VR.P.nanToNum_eq]

theorem c08_lorentz_boost_beta3_k_rhophi_theta_tau_rhophi_eta (coord11 coord12 coord13 coord14 coord21 coord22 coord23 : ℝ) (h0 : 0 ≤ coord14) :
    VS.lorentz_boost_beta3.k_rhophi_theta_tau_rhophi_eta coord11 coord12 coord13 coord14 coord21 coord22 coord23 = VR.lorentz_boost_beta3.k_rhophi_theta_tau_rhophi_eta coord11 coord12 coord13 coord14 coord21 coord22 coord23 := by
  simp only [VS.lorentz_boost_beta3.k_rhophi_theta_tau_rhophi_eta, VR.lorentz_boost_beta3.k_rhophi_theta_tau_rhophi_eta, c08_lorentz_boost_beta3_k_xy_z_tau_rhophi_eta, VS.planar_x.rhophi_eq, VS.planar_y.rhophi_eq, VS.spatial_z.rhophi_theta_eq, h0, VR.P.nanToNum_eq]

theorem c08_lorentz_boost_beta3_k_rhophi_theta_tau_rhophi_theta (coord11 coord12 coord13 coord14 coord21 coord22 coord23 : ℝ) (h0 : 0 ≤ coord14) :
    VS.lorentz_boost_beta3.k_rhophi_theta_tau_rhophi_theta coord11 coord12 coord13 coord14 coord21 coord22 coord23 = VR.lorentz_boost_beta3.k_rhophi_theta_tau_rhophi_theta coord11 coord12 coord13 coord14 coord21 coord22 coord23 := by
  simp only [VS.lorentz_boost_beta3.k_rhophi_theta_tau_rhophi_theta, VR.lorentz_boost_beta3.k_rhophi_theta_tau_rhophi_theta, c08_lorentz_boost_beta3_k_xy_z_tau_rhophi_theta, VS.planar_x.rhophi_eq, VS.planar_y.rhophi_eq, VS.spatial_z.rhophi_theta_eq, h0, VR.P.nanToNum_eq]

theorem c08_lorentz_boost_beta3_k_rhophi_theta_tau_rhophi_z (coord11 coord12 coord13 coord14 coord21 coord22 coord23 : ℝ) (h0 : 0 ≤ coord14) :
    VS.lorentz_boost_beta3.k_rhophi_theta_tau_rhophi_z coord11 coord12 coord13 coord14 coord21 coord22 coord23 = VR.lorentz_boost_beta3.k_rhophi_theta_tau_rhophi_z coord11 coord12 coord13 coord14 coord21 coord22 coord23 := by
  simp only [VS.lorentz_boost_beta3.k_rhophi_theta_tau_rhophi_z, VR.lorentz_boost_beta3.k_rhophi_theta_tau_rhophi_z, c08_lorentz_boost_beta3_k_xy_z_tau_rhophi_z, VS.planar_x.rhophi_eq, VS.planar_y.rhophi_eq, VS.spatial_z.rhophi_theta_eq, h0, VR.P.nanToNum_eq]

theorem c08_lorentz_boost_beta3_k_rhophi_theta_tau_xy_eta (coord11 coord12 coord13 coord14 coord21 coord22 coord23 : ℝ) (h0 : 0 ≤ coord14) :
    VS.lorentz_boost_beta3.k_rhophi_theta_tau_xy_eta coord11 coord12 coord13 coord14 coord21 coord22 coord23 = VR.lorentz_boost_beta3.k_rhophi_theta_tau_xy_eta coord11 coord12 coord13 coord14 coord21 coord22 coord23 := by
  simp only [VS.lorentz_boost_beta3.k_rhophi_theta_tau_xy_eta, VR.lorentz_boost_beta3.k_rhophi_theta_tau_xy_eta, c08_lorentz_boost_beta3_k_xy_z_tau_xy_eta, VS.planar_x.rhophi_eq, VS.planar_y.rhophi_eq, VS.spatial_z.rhophi_theta_eq, h0, VR.P.nanToNum_eq]

theorem c08_lorentz_boost_beta3_k_rhophi_theta_tau_xy_theta (coord11 coord12 coord13 coord14 coord21 coord22 coord23 : ℝ) (h0 : 0 ≤ coord14) :
    VS.lorentz_boost_beta3.k_rhophi_theta_tau_xy_theta coord11 coord12 coord13 coord14 coord21 coord22 coord23 = VR.lorentz_boost_beta3.k_rhophi_theta_tau_xy_theta coord11 coord12 coord13 coord14 coord21 coord22 coord23 := by
  simp only [VS.lorentz_boost_beta3.k_rhophi_theta_tau_xy_theta, VR.lorentz_boost_beta3.k_rhophi_theta_tau_xy_theta, c08_lorentz_boost_beta3_k_xy_z_tau_xy_theta, VS.planar_x.rhophi_eq, VS.planar_y.rhophi_eq, VS.spatial_z.rhophi_theta_eq, h0, VR.P.nanToNum_eq]

theorem c08_lorentz_boost_beta3_k_rhophi_theta_tau_xy_z (coord11 coord12 coord13 coord14 coord21 coord22 coord23 : ℝ) (h0 : 0 ≤ coord14) :
    VS.lorentz_boost_beta3.k_rhophi_theta_tau_xy_z coord11 coord12 coord13 coord14 coord21 coord22 coord23 = VR.lorentz_boost_beta3.k_rhophi_theta_tau_xy_z coord11 coord12 coord13 coord14 coord21 coord22 coord23 := by
  simp only [VS.lorentz_boost_beta3.k_rhophi_theta_tau_xy_z, VR.lorentz_boost_beta3.k_rhophi_theta_tau_xy_z, c08_lorentz_boost_beta3_k_xy_z_tau_xy_z, VS.planar_x.rhophi_eq, VS.planar_y.rhophi_eq, VS.spatial_z.rhophi_theta_eq, h0, VR.P.nanToNum_eq]

theorem c08_lorentz_boost_beta3_k_rhophi_z_tau_rhophi_eta (coord11 coord12 coord13 coord14 coord21 coord22 coord23 : ℝ) (h0 : 0 ≤ coord14) :
    VS.lorentz_boost_beta3.k_rhophi_z_tau_rhophi_eta coord11 coord12 coord13 coord14 coord21 coord22 coord23 = VR.lorentz_boost_beta3.k_rhophi_z_tau_rhophi_eta coord11 coord12 coord13 coord14 coord21 coord22 coord23 := by
  simp only [VS.lorentz_boost_beta3.k_rhophi_z_tau_rhophi_eta, VR.lorentz_boost_beta3.k_rhophi_z_tau_rhophi_eta, c08_lorentz_boost_beta3_k_xy_z_tau_rhophi_eta, VS.planar_x.rhophi_eq, VS.planar_y.rhophi_eq, VS.spatial_z.rhophi_z_eq, h0, VR.P.nanToNum_eq]

theorem c08_lorentz_boost_beta3_k_rhophi_z_tau_rhophi_theta (coord11 coord12 coord13 coord14 coord21 coord22 coord23 : ℝ) (h0 : 0 ≤ coord14) :
    VS.lorentz_boost_beta3.k_rhophi_z_tau_rhophi_theta coord11 coord12 coord13 coord14 coord21 coord22 coord23 = VR.lorentz_boost_beta3.k_rhophi_z_tau_rhophi_theta coord11 coord12 coord13 coord14 coord21 coord22 coord23 := by
  simp only [VS.lorentz_boost_beta3.k_rhophi_z_tau_rhophi_theta, VR.lorentz_boost_beta3.k_rhophi_z_tau_rhophi_theta, c08_lorentz_boost_beta3_k_xy_z_tau_rhophi_theta, VS.planar_x.rhophi_eq, VS.planar_y.rhophi_eq, VS.spatial_z.rhophi_z_eq, h0, VR.P.nanToNum_eq]

theorem c08_lorentz_boost_beta3_k_rhophi_z_tau_rhophi_z (coord11 coord12 coord13 coord14 coord21 coord22 coord23 : ℝ) (h0 : 0 ≤ coord14) :
    VS.lorentz_boost_beta3.k_rhophi_z_tau_rhophi_z coord11 coord12 coord13 coord14 coord21 coord22 coord23 = VR.lorentz_boost_beta3.k_rhophi_z_tau_rhophi_z coord11 coord12 coord13 coord14 coord21 coord22 coord23 := by
  simp only [VS.lorentz_boost_beta3.k_rhophi_z_tau_rhophi_z, VR.lorentz_boost_beta3.k_rhophi_z_tau_rhophi_z, c08_lorentz_boost_beta3_k_xy_z_tau_rhophi_z, VS.planar_x.rhophi_eq, VS.planar_y.rhophi_eq, VS.spatial_z.rhophi_z_eq, h0, VR.P.nanToNum_eq]

theorem c08_lorentz_boost_beta3_k_rhophi_z_tau_xy_eta (coord11 coord12 coord13 coord14 coord21 coord22 coord23 : ℝ) (h0 : 0 ≤ coord14) :
    VS.lorentz_boost_beta3.k_rhophi_z_tau_xy_eta coord11 coord12 coord13 coord14 coord21 coord22 coord23 = VR.lorentz_boost_beta3.k_rhophi_z_tau_xy_eta coord11 coord12 coord13 coord14 coord21 coord22 coord23 := by
  simp only [VS.lorentz_boost_beta3.k_rhophi_z_tau_xy_eta, VR.lorentz_boost_beta3.k_rhophi_z_tau_xy_eta, c08_lorentz_boost_beta3_k_xy_z_tau_xy_eta, VS.planar_x.rhophi_eq, VS.planar_y.rhophi_eq, VS.spatial_z.rhophi_z_eq, h0, VR.P.nanToNum_eq]

theorem c08_lorentz_boost_beta3_k_rhophi_z_tau_xy_theta (coord11 coord12 coord13 coord14 coord21 coord22 coord23 : ℝ) (h0 : 0 ≤ coord14) :
    VS.lorentz_boost_beta3.k_rhophi_z_tau_xy_theta coord11 coord12 coord13 coord14 coord21 coord22 coord23 = VR.lorentz_boost_beta3.k_rhophi_z_tau_xy_theta coord11 coord12 coord13 coord14 coord21 coord22 coord23 := by
  simp only [VS.lorentz_boost_beta3.k_rhophi_z_tau_xy_theta, VR.lorentz_boost_beta3.k_rhophi_z_tau_xy_theta, c08_lorentz_boost_beta3_k_xy_z_tau_xy_theta, VS.planar_x.rhophi_eq, VS.planar_y.rhophi_eq, VS.spatial_z.rhophi_z_eq, h0, VR.P.nanToNum_eq]

theorem c08_lorentz_boost_beta3_k_rhophi_z_tau_xy_z (coord11 coord12 coord13 coord14 coord21 coord22 coord23 : ℝ) (h0 : 0 ≤ coord14) :
    VS.lorentz_boost_beta3.k_rhophi_z_tau_xy_z coord11 coord12 coord13 coord14 coord21 coord22 coord23 = VR.lorentz_boost_beta3.k_rhophi_z_tau_xy_z coord11 coord12 coord13 coord14 coord21 coord22 coord23 := by
  simp only [VS.lorentz_boost_beta3.k_rhophi_z_tau_xy_z, VR.lorentz_boost_beta3.k_rhophi_z_tau_xy_z, c08_lorentz_boost_beta3_k_xy_z_tau_xy_z, VS.planar_x.rhophi_eq, VS.planar_y.rhophi_eq, VS.spatial_z.rhophi_z_eq, h0, VR.P.nanToNum_eq]

theorem c08_lorentz_boost_beta3_k_xy_eta_tau_rhophi_eta (coord11 coord12 coord13 coord14 coord21 coord22 coord23 : ℝ) (h0 : 0 ≤ coord14) :
    VS.lorentz_boost_beta3.k_xy_eta_tau_rhophi_eta coord11 coord12 coord13 coord14 coord21 coord22 coord23 = VR.lorentz_boost_beta3.k_xy_eta_tau_rhophi_eta coord11 coord12 coord13 coord14 coord21 coord22 coord23 := by
  simp only [VS.lorentz_boost_beta3.k_xy_eta_tau_rhophi_eta, VR.lorentz_boost_beta3.k_xy_eta_tau_rhophi_eta, c08_lorentz_boost_beta3_k_xy_z_tau_rhophi_eta, VS.planar_x.xy_eq, VS.planar_y.xy_eq, VS.spatial_z.xy_eta_eq, h0, VR.P.nanToNum_eq]

theorem c08_lorentz_boost_beta3_k_xy_eta_tau_rhophi_theta (coord11 coord12 coord13 coord14 coord21 coord22 coord23 : ℝ) (h0 : 0 ≤ coord14) :
    VS.lorentz_boost_beta3.k_xy_eta_tau_rhophi_theta coord11 coord12 coord13 coord14 coord21 coord22 coord23 = VR.lorentz_boost_beta3.k_xy_eta_tau_rhophi_theta coord11 coord12 coord13 coord14 coord21 coord22 coord23 := by
  simp only [VS.lorentz_boost_beta3.k_xy_eta_tau_rhophi_theta, VR.lorentz_boost_beta3.k_xy_eta_tau_rhophi_theta, c08_lorentz_boost_beta3_k_xy_z_tau_rhophi_theta, VS.planar_x.xy_eq, VS.planar_y.xy_eq, VS.spatial_z.xy_eta_eq, h0, VR.P.nanToNum_eq]

theorem c08_lorentz_boost_beta3_k_xy_eta_tau_rhophi_z (coord11 coord12 coord13 coord14 coord21 coord22 coord23 : ℝ) (h0 : 0 ≤ coord14) :
    VS.lorentz_boost_beta3.k_xy_eta_tau_rhophi_z coord11 coord12 coord13 coord14 coord21 coord22 coord23 = VR.lorentz_boost_beta3.k_xy_eta_tau_rhophi_z coord11 coord12 coord13 coord14 coord21 coord22 coord23 := by
  simp only [VS.lorentz_boost_beta3.k_xy_eta_tau_rhophi_z, VR.lorentz_boost_beta3.k_xy_eta_tau_rhophi_z, c08_lorentz_boost_beta3_k_xy_z_tau_rhophi_z, VS.planar_x.xy_eq, VS.planar_y.xy_eq, VS.spatial_z.xy_eta_eq, h0, VR.P.nanToNum_eq]

theorem c08_lorentz_boost_beta3_k_xy_eta_tau_xy_eta (coord11 coord12 coord13 coord14 coord21 coord22 coord23 : ℝ) (h0 : 0 ≤ coord14) :
    VS.lorentz_boost_beta3.k_xy_eta_tau_xy_eta coord11 coord12 coord13 coord14 coord21 coord22 coord23 = VR.lorentz_boost_beta3.k_xy_eta_tau_xy_eta coord11 coord12 coord13 coord14 coord21 coord22 coord23 := by
  simp only [VS.lorentz_boost_beta3.k_xy_eta_tau_xy_eta, VR.lorentz_boost_beta3.k_xy_eta_tau_xy_eta, c08_lorentz_boost_beta3_k_xy_z_tau_xy_eta, VS.planar_x.xy_eq, VS.planar_y.xy_eq, VS.spatial_z.xy_eta_eq, h0, VR.P.nanToNum_eq]

theorem c08_lorentz_boost_beta3_k_xy_eta_tau_xy_theta (coord11 coord12 coord13 coord14 coord21 coord22 coord23 : ℝ) (h0 : 0 ≤ coord14) :
    VS.lorentz_boost_beta3.k_xy_eta_tau_xy_theta coord11 coord12 coord13 coord14 coord21 coord22 coord23 = VR.lorentz_boost_beta3.k_xy_eta_tau_xy_theta coord11 coord12 coord13 coord14 coord21 coord22 coord23 := by
  simp only [VS.lorentz_boost_beta3.k_xy_eta_tau_xy_theta, VR.lorentz_boost_beta3.k_xy_eta_tau_xy_theta, c08_lorentz_boost_beta3_k_xy_z_tau_xy_theta, VS.planar_x.xy_eq, VS.planar_y.xy_eq, VS.spatial_z.xy_eta_eq, h0, VR.P.nanToNum_eq]

theorem c08_lorentz_boost_beta3_k_xy_eta_tau_xy_z (coord11 coord12 coord13 coord14 coord21 coord22 coord23 : ℝ) (h0 : 0 ≤ coord14) :
    VS.lorentz_boost_beta3.k_xy_eta_tau_xy_z coord11 coord12 coord13 coord14 coord21 coord22 coord23 = VR.lorentz_boost_beta3.k_xy_eta_tau_xy_z coord11 coord12 coord13 coord14 coord21 coord22 coord23 := by
  simp only [VS.lorentz_boost_beta3.k_xy_eta_tau_xy_z, VR.lorentz_boost_beta3.k_xy_eta_tau_xy_z, c08_lorentz_boost_beta3_k_xy_z_tau_xy_z, VS.planar_x.xy_eq, VS.planar_y.xy_eq, VS.spatial_z.xy_eta_eq, h0, VR.P.nanToNum_eq]

theorem c08_lorentz_boost_beta3_k_xy_theta_tau_rhophi_eta (coord11 coord12 coord13 coord14 coord21 coord22 coord23 : ℝ) (h0 : 0 ≤ coord14) :
    VS.lorentz_boost_beta3.k_xy_theta_tau_rhophi_eta coord11 coord12 coord13 coord14 coord21 coord22 coord23 = VR.lorentz_boost_beta3.k_xy_theta_tau_rhophi_eta coord11 coord12 coord13 coord14 coord21 coord22 coord23 := by
  simp only [VS.lorentz_boost_beta3.k_xy_theta_tau_rhophi_eta, VR.lorentz_boost_beta3.k_xy_theta_tau_rhophi_eta, c08_lorentz_boost_beta3_k_xy_z_tau_rhophi_eta, VS.planar_x.xy_eq, VS.planar_y.xy_eq, VS.spatial_z.xy_theta_eq, h0, VR.P.nanToNum_eq]

theorem c08_lorentz_boost_beta3_k_xy_theta_tau_rhophi_theta (coord11 coord12 coord13 coord14 coord21 coord22 coord23 : ℝ) (h0 : 0 ≤ coord14) :
    VS.lorentz_boost_beta3.k_xy_theta_tau_rhophi_theta coord11 coord12 coord13 coord14 coord21 coord22 coord23 = VR.lorentz_boost_beta3.k_xy_theta_tau_rhophi_theta coord11 coord12 coord13 coord14 coord21 coord22 coord23 := by
  simp only [VS.lorentz_boost_beta3.k_xy_theta_tau_rhophi_theta, VR.lorentz_boost_beta3.k_xy_theta_tau_rhophi_theta, c08_lorentz_boost_beta3_k_xy_z_tau_rhophi_theta, VS.planar_x.xy_eq, VS.planar_y.xy_eq, VS.spatial_z.xy_theta_eq, h0, VR.P.nanToNum_eq]

theorem c08_lorentz_boost_beta3_k_xy_theta_tau_rhophi_z (coord11 coord12 coord13 coord14 coord21 coord22 coord23 : ℝ) (h0 : 0 ≤ coord14) :
    VS.lorentz_boost_beta3.k_xy_theta_tau_rhophi_z coord11 coord12 coord13 coord14 coord21 coord22 coord23 = VR.lorentz_boost_beta3.k_xy_theta_tau_rhophi_z coord11 coord12 coord13 coord14 coord21 coord22 coord23 := by
  simp only [VS.lorentz_boost_beta3.k_xy_theta_tau_rhophi_z, VR.lorentz_boost_beta3.k_xy_theta_tau_rhophi_z, c08_lorentz_boost_beta3_k_xy_z_tau_rhophi_z, VS.planar_x.xy_eq, VS.planar_y.xy_eq, VS.spatial_z.xy_theta_eq, h0, VR.P.nanToNum_eq]

theorem c08_lorentz_boost_beta3_k_xy_theta_tau_xy_eta (coord11 coord12 coord13 coord14 coord21 coord22 coord23 : ℝ) (h0 : 0 ≤ coord14) :
    VS.lorentz_boost_beta3.k_xy_theta_tau_xy_eta coord11 coord12 coord13 coord14 coord21 coord22 coord23 = VR.lorentz_boost_beta3.k_xy_theta_tau_xy_eta coord11 coord12 coord13 coord14 coord21 coord22 coord23 := by
  simp only [VS.lorentz_boost_beta3.k_xy_theta_tau_xy_eta, VR.lorentz_boost_beta3.k_xy_theta_tau_xy_eta, c08_lorentz_boost_beta3_k_xy_z_tau_xy_eta, VS.planar_x.xy_eq, VS.planar_y.xy_eq, VS.spatial_z.xy_theta_eq, h0, VR.P.nanToNum_eq]

theorem c08_lorentz_boost_beta3_k_xy_theta_tau_xy_theta (coord11 coord12 coord13 coord14 coord21 coord22 coord23 : ℝ) (h0 : 0 ≤ coord14) :
    VS.lorentz_boost_beta3.k_xy_theta_tau_xy_theta coord11 coord12 coord13 coord14 coord21 coord22 coord23 = VR.lorentz_boost_beta3.k_xy_theta_tau_xy_theta coord11 coord12 coord13 coord14 coord21 coord22 coord23 := by
  simp only [VS.lorentz_boost_beta3.k_xy_theta_tau_xy_theta, VR.lorentz_boost_beta3.k_xy_theta_tau_xy_theta, c08_lorentz_boost_beta3_k_xy_z_tau_xy_theta, VS.planar_x.xy_eq, VS.planar_y.xy_eq, VS.spatial_z.xy_theta_eq, h0, VR.P.nanToNum_eq]

theorem c08_lorentz_boost_beta3_k_xy_theta_tau_xy_z (coord11 coord12 coord13 coord14 coord21 coord22 coord23 : ℝ) (h0 : 0 ≤ coord14) :
    VS.lorentz_boost_beta3.k_xy_theta_tau_xy_z coord11 coord12 coord13 coord14 coord21 coord22 coord23 = VR.lorentz_boost_beta3.k_xy_theta_tau_xy_z coord11 coord12 coord13 coord14 coord21 coord22 coord23 := by
  simp only [VS.lorentz_boost_beta3.k_xy_theta_tau_xy_z, VR.lorentz_boost_beta3.k_xy_theta_tau_xy_z, c08_lorentz_boost_beta3_k_xy_z_tau_xy_z, VS.planar_x.xy_eq, VS.planar_y.xy_eq, VS.spatial_z.xy_theta_eq, h0, VR.P.nanToNum_eq]


/-! ### `lorentz_boost_p4` -/

theorem c08_lorentz_boost_p4_cartesian_tau (x1 y1 z1 tau1 energy mass mass2 x2 y2 z2 : ℝ) (h0 : 0 ≤ tau1) :
    VS.lorentz_boost_p4.cartesian_tau x1 y1 z1 tau1 energy mass mass2 x2 y2 z2 = VR.lorentz_boost_p4.cartesian_tau x1 y1 z1 tau1 energy mass mass2 x2 y2 z2 := by
  simp only [VS.lorentz_boost_p4.cartesian_tau, VR.lorentz_boost_p4.cartesian_tau, c08_lorentz_transform4D_cartesian_tau, h0, VR.P.nanToNum_eq]

theorem c08_lorentz_boost_p4_cartesian_tau_rhophi_eta_t (x1 y1 z1 tau1 rho2 phi2 eta2 t2 : ℝ) (h0 : 0 ≤ tau1) :
    VS.lorentz_boost_p4.cartesian_tau_rhophi_eta_t x1 y1 z1 tau1 rho2 phi2 eta2 t2 = VR.lorentz_boost_p4.cartesian_tau_rhophi_eta_t x1 y1 z1 tau1 rho2 phi2 eta2 t2 := by
  simp only [VS.lorentz_boost_p4.cartesian_tau_rhophi_eta_t, VR.lorentz_boost_p4.cartesian_tau_rhophi_eta_t, VS.spatial_mag2.rhophi_eta_eq, c08_lorentz_boost_p4_cartesian_tau, VS.planar_x.rhophi_eq, VS.planar_y.rhophi_eq, VS.spatial_z.rhophi_eta_eq, h0, VR.P.nanToNum_eq]

theorem c08_lorentz_boost_p4_cartesian_tau_rhophi_eta_tau (x1 y1 z1 tau1 rho2 phi2 eta2 tau2 : ℝ) (h0 : 0 ≤ tau1) :
    VS.lorentz_boost_p4.cartesian_tau_rhophi_eta_tau x1 y1 z1 tau1 rho2 phi2 eta2 tau2 = VR.lorentz_boost_p4.cartesian_tau_rhophi_eta_tau x1 y1 z1 tau1 rho2 phi2 eta2 tau2 := by
  simp only [VS.lorentz_boost_p4.cartesian_tau_rhophi_eta_tau, VR.lorentz_boost_p4.cartesian_tau_rhophi_eta_tau, VS.spatial_mag2.rhophi_eta_eq, c08_lorentz_boost_p4_cartesian_tau, VS.planar_x.rhophi_eq, VS.planar_y.rhophi_eq, VS.spatial_z.rhophi_eta_eq, h0, VR.P.nanToNum_eq]

theorem c08_lorentz_boost_p4_cartesian_tau_rhophi_theta_t (x1 y1 z1 tau1 rho2 phi2 theta2 t2 : ℝ) (h0 : 0 ≤ tau1) :
    VS.lorentz_boost_p4.cartesian_tau_rhophi_theta_t x1 y1 z1 tau1 rho2 phi2 theta2 t2 = VR.lorentz_boost_p4.cartesian_tau_rhophi_theta_t x1 y1 z1 tau1 rho2 phi2 theta2 t2 := by
  simp only [VS.lorentz_boost_p4.cartesian_tau_rhophi_theta_t, VR.lorentz_boost_p4.cartesian_tau_rhophi_theta_t, VS.spatial_mag2.rhophi_theta_eq, c08_lorentz_boost_p4_cartesian_tau, VS.planar_x.rhophi_eq, VS.planar_y.rhophi_eq, VS.spatial_z.rhophi_theta_eq, h0, VR.P.nanToNum_eq]

theorem c08_lorentz_boost_p4_cartesian_tau_rhophi_theta_tau (x1 y1 z1 tau1 rho2 phi2 theta2 tau2 : ℝ) (h0 : 0 ≤ tau1) :
    VS.lorentz_boost_p4.cartesian_tau_rhophi_theta_tau x1 y1 z1 tau1 rho2 phi2 theta2 tau2 = VR.lorentz_boost_p4.cartesian_tau_rhophi_theta_tau x1 y1 z1 tau1 rho2 phi2 theta2 tau2 := by
  simp only [VS.lorentz_boost_p4.cartesian_tau_rhophi_theta_tau, VR.lorentz_boost_p4.cartesian_tau_rhophi_theta_tau, VS.spatial_mag2.rhophi_theta_eq, c08_lorentz_boost_p4_cartesian_tau, VS.planar_x.rhophi_eq, VS.planar_y.rhophi_eq, VS.spatial_z.rhophi_theta_eq, h0, VR.P.nanToNum_eq]

theorem c08_lorentz_boost_p4_cartesian_tau_rhophi_z_t (x1 y1 z1 tau1 rho2 phi2 z2 t2 : ℝ) (h0 : 0 ≤ tau1) :
    VS.lorentz_boost_p4.cartesian_tau_rhophi_z_t x1 y1 z1 tau1 rho2 phi2 z2 t2 = VR.lorentz_boost_p4.cartesian_tau_rhophi_z_t x1 y1 z1 tau1 rho2 phi2 z2 t2 := by
  simp only [VS.lorentz_boost_p4.cartesian_tau_rhophi_z_t, VR.lorentz_boost_p4.cartesian_tau_rhophi_z_t, VS.spatial_mag2.rhophi_z_eq, c08_lorentz_boost_p4_cartesian_tau, VS.planar_x.rhophi_eq, VS.planar_y.rhophi_eq, h0, VR.P.nanToNum_eq]

theorem c08_lorentz_boost_p4_cartesian_tau_rhophi_z_tau (x1 y1 z1 tau1 rho2 phi2 z2 tau2 : ℝ) (h0 : 0 ≤ tau1) :
    VS.lorentz_boost_p4.cartesian_tau_rhophi_z_tau x1 y1 z1 tau1 rho2 phi2 z2 tau2 = VR.lorentz_boost_p4.cartesian_tau_rhophi_z_tau x1 y1 z1 tau1 rho2 phi2 z2 tau2 := by
  simp only [VS.lorentz_boost_p4.cartesian_tau_rhophi_z_tau, VR.lorentz_boost_p4.cartesian_tau_rhophi_z_tau, VS.spatial_mag2.rhophi_z_eq, c08_lorentz_boost_p4_cartesian_tau, VS.planar_x.rhophi_eq, VS.planar_y.rhophi_eq, h0, VR.P.nanToNum_eq]

theorem c08_lorentz_boost_p4_cartesian_tau_xy_eta_t (x1 y1 z1 tau1 x2 y2 eta2 t2 : ℝ) (h0 : 0 ≤ tau1) :
    VS.lorentz_boost_p4.cartesian_tau_xy_eta_t x1 y1 z1 tau1 x2 y2 eta2 t2 = VR.lorentz_boost_p4.cartesian_tau_xy_eta_t x1 y1 z1 tau1 x2 y2 eta2 t2 := by
  simp only [VS.lorentz_boost_p4.cartesian_tau_xy_eta_t, VR.lorentz_boost_p4.cartesian_tau_xy_eta_t, VS.spatial_mag2.xy_eta_eq, c08_lorentz_boost_p4_cartesian_tau, VS.spatial_z.xy_eta_eq, h0, VR.P.nanToNum_eq]

theorem c08_lorentz_boost_p4_cartesian_tau_xy_eta_tau (x1 y1 z1 tau1 x2 y2 eta2 tau2 : ℝ) (h0 : 0 ≤ tau1) :
    VS.lorentz_boost_p4.cartesian_tau_xy_eta_tau x1 y1 z1 tau1 x2 y2 eta2 tau2 = VR.lorentz_boost_p4.cartesian_tau_xy_eta_tau x1 y1 z1 tau1 x2 y2 eta2 tau2 := by
  simp only [VS.lorentz_boost_p4.cartesian_tau_xy_eta_tau, VR.lorentz_boost_p4.cartesian_tau_xy_eta_tau, VS.spatial_mag2.xy_eta_eq, c08_lorentz_boost_p4_cartesian_tau, VS.spatial_z.xy_eta_eq, h0, VR.P.nanToNum_eq]

theorem c08_lorentz_boost_p4_cartesian_tau_xy_theta_t (x1 y1 z1 tau1 x2 y2 theta2 t2 : ℝ) (h0 : 0 ≤ tau1) :
    VS.lorentz_boost_p4.cartesian_tau_xy_theta_t x1 y1 z1 tau1 x2 y2 theta2 t2 = VR.lorentz_boost_p4.cartesian_tau_xy_theta_t x1 y1 z1 tau1 x2 y2 theta2 t2 := by
  simp only [VS.lorentz_boost_p4.cartesian_tau_xy_theta_t, VR.lorentz_boost_p4.cartesian_tau_xy_theta_t, VS.spatial_mag2.xy_theta_eq, c08_lorentz_boost_p4_cartesian_tau, VS.spatial_z.xy_theta_eq, h0, VR.P.nanToNum_eq]

theorem c08_lorentz_boost_p4_cartesian_tau_xy_theta_tau (x1 y1 z1 tau1 x2 y2 theta2 tau2 : ℝ) (h0 : 0 ≤ tau1) :
    VS.lorentz_boost_p4.cartesian_tau_xy_theta_tau x1 y1 z1 tau1 x2 y2 theta2 tau2 = VR.lorentz_boost_p4.cartesian_tau_xy_theta_tau x1 y1 z1 tau1 x2 y2 theta2 tau2 := by
  simp only [VS.lorentz_boost_p4.cartesian_tau_xy_theta_tau, VR.lorentz_boost_p4.cartesian_tau_xy_theta_tau, VS.spatial_mag2.xy_theta_eq, c08_lorentz_boost_p4_cartesian_tau, VS.spatial_z.xy_theta_eq, h0, VR.P.nanToNum_eq]

theorem c08_lorentz_boost_p4_cartesian_tau_xy_z_t (x1 y1 z1 tau1 x2 y2 z2 t2 : ℝ) (h0 : 0 ≤ tau1) :
    VS.lorentz_boost_p4.cartesian_tau_xy_z_t x1 y1 z1 tau1 x2 y2 z2 t2 = VR.lorentz_boost_p4.cartesian_tau_xy_z_t x1 y1 z1 tau1 x2 y2 z2 t2 := by
  simp only [VS.lorentz_boost_p4.cartesian_tau_xy_z_t, VR.lorentz_boost_p4.cartesian_tau_xy_z_t, VS.spatial_mag2.xy_z_eq, c08_lorentz_boost_p4_cartesian_tau, h0, VR.P.nanToNum_eq]

theorem c08_lorentz_boost_p4_cartesian_tau_xy_z_tau (x1 y1 z1 tau1 x2 y2 z2 tau2 : ℝ) (h0 : 0 ≤ tau1) :
    VS.lorentz_boost_p4.cartesian_tau_xy_z_tau x1 y1 z1 tau1 x2 y2 z2 tau2 = VR.lorentz_boost_p4.cartesian_tau_xy_z_tau x1 y1 z1 tau1 x2 y2 z2 tau2 := by
  simp only [VS.lorentz_boost_p4.cartesian_tau_xy_z_tau, VR.lorentz_boost_p4.cartesian_tau_xy_z_tau, VS.spatial_mag2.xy_z_eq, c08_lorentz_boost_p4_cartesian_tau, h0, VR.P.nanToNum_eq]

theorem c08_lorentz_boost_p4_k_xy_z_tau_rhophi_eta_t (coord11 coord12 coord13 coord14 coord21 coord22 coord23 coord24 : ℝ) (h0 : 0 ≤ coord14) :
    VS.lorentz_boost_p4.k_xy_z_tau_rhophi_eta_t coord11 coord12 coord13 coord14 coord21 coord22 coord23 coord24 = VR.lorentz_boost_p4.k_xy_z_tau_rhophi_eta_t coord11 coord12 coord13 coord14 coord21 coord22 coord23 coord24 := by
  simp only [VS.lorentz_boost_p4.k_xy_z_tau_rhophi_eta_t, VR.lorentz_boost_p4.k_xy_z_tau_rhophi_eta_t, c08_lorentz_boost_p4_cartesian_tau_rhophi_eta_t, VS.planar_x.xy_eq, VS.planar_y.xy_eq, VS.spatial_z.xy_z_eq, h0, VR.P.nanToNum_eq]

theorem c08_lorentz_boost_p4_k_rhophi_eta_tau_rhophi_eta_t (coord11 coord12 coord13 coord14 coord21 coord22 coord23 coord24 : ℝ) (h0 : 0 ≤ coord14) :
    VS.lorentz_boost_p4.k_rhophi_eta_tau_rhophi_eta_t coord11 coord12 coord13 coord14 coord21 coord22 coord23 coord24 = VR.lorentz_boost_p4.k_rhophi_eta_tau_rhophi_eta_t coord11 coord12 coord13 coord14 coord21 coord22 coord23 coord24 := by
  simp only [VS.lorentz_boost_p4.k_rhophi_eta_tau_rhophi_eta_t, VR.lorentz_boost_p4.k_rhophi_eta_tau_rhophi_eta_t, c08_lorentz_boost_p4_k_xy_z_tau_rhophi_eta_t, VS.planar_x.rhophi_eq, VS.planar_y.rhophi_eq, VS.spatial_z.rhophi_eta_eq, h0, VR.P.nanToNum_eq]

theorem c08_lorentz_boost_p4_k_xy_z_tau_rhophi_eta_tau (coord11 coord12 coord13 coord14 coord21 coord22 coord23 coord24 : ℝ) (h0 : 0 ≤ coord14) :
    VS.lorentz_boost_p4.k_xy_z_tau_rhophi_eta_tau coord11 coord12 coord13 coord14 coord21 coord22 coord23 coord24 = VR.lorentz_boost_p4.k_xy_z_tau_rhophi_eta_tau coord11 coord12 coord13 coord14 coord21 coord22 coord23 coord24 := by
  simp only [VS.lorentz_boost_p4.k_xy_z_tau_rhophi_eta_tau, VR.lorentz_boost_p4.k_xy_z_tau_rhophi_eta_tau, c08_lorentz_boost_p4_cartesian_tau_rhophi_eta_tau, VS.planar_x.xy_eq, VS.planar_y.xy_eq, VS.spatial_z.xy_z_eq, h0, VR.P.nanToNum_eq]

theorem c08_lorentz_boost_p4_k_rhophi_eta_tau_rhophi_eta_tau (coord11 coord12 coord13 coord14 coord21 coord22 coord23 coord24 : ℝ) (h0 : 0 ≤ coord14) :
    VS.lorentz_boost_p4.k_rhophi_eta_tau_rhophi_eta_tau coord11 coord12 coord13 coord14 coord21 coord22 coord23 coord24 = VR.lorentz_boost_p4.k_rhophi_eta_tau_rhophi_eta_tau coord11 coord12 coord13 coord14 coord21 coord22 coord23 coord24 := by
  simp only [VS.lorentz_boost_p4.k_rhophi_eta_tau_rhophi_eta_tau, VR.lorentz_boost_p4.k_rhophi_eta_tau_rhophi_eta_tau, c08_lorentz_boost_p4_k_xy_z_tau_rhophi_eta_tau, VS.planar_x.rhophi_eq, VS.planar_y.rhophi_eq, VS.spatial_z.rhophi_eta_eq, h0, VR.P.nanToNum_eq]

theorem c08_lorentz_boost_p4_k_xy_z_tau_rhophi_theta_t (coord11 coord12 coord13 coord14 coord21 coord22 coord23 coord24 : ℝ) (h0 : 0 ≤ coord14) :
    VS.lorentz_boost_p4.k_xy_z_tau_rhophi_theta_t coord11 coord12 coord13 coord14 coord21 coord22 coord23 coord24 = VR.lorentz_boost_p4.k_xy_z_tau_rhophi_theta_t coord11 coord12 coord13 coord14 coord21 coord22 coord23 coord24 := by
  simp only [VS.lorentz_boost_p4.k_xy_z_tau_rhophi_theta_t, VR.lorentz_boost_p4.k_xy_z_tau_rhophi_theta_t, c08_lorentz_boost_p4_cartesian_tau_rhophi_theta_t, VS.planar_x.xy_eq, VS.planar_y.xy_eq, VS.spatial_z.xy_z_eq, h0, VR.P.nanToNum_eq]

theorem c08_lorentz_boost_p4_k_rhophi_eta_tau_rhophi_theta_t (coord11 coord12 coord13 coord14 coord21 coord22 coord23 coord24 : ℝ) (h0 : 0 ≤ coord14) :
    VS.lorentz_boost_p4.k_rhophi_eta_tau_rhophi_theta_t coord11 coord12 coord13 coord14 coord21 coord22 coord23 coord24 = VR.lorentz_boost_p4.k_rhophi_eta_tau_rhophi_theta_t coord11 coord12 coord13 coord14 coord21 coord22 coord23 coord24 := by
  simp only [VS.lorentz_boost_p4.k_rhophi_eta_tau_rhophi_theta_t, VR.lorentz_boost_p4.k_rhophi_eta_tau_rhophi_theta_t, c08_lorentz_boost_p4_k_xy_z_tau_rhophi_theta_t, VS.planar_x.rhophi_eq, VS.planar_y.rhophi_eq, VS.spatial_z.rhophi_eta_eq, h0, VR.P.nanToNum_eq]

theorem c08_lorentz_boost_p4_k_xy_z_tau_rhophi_theta_tau (coord11 coord12 coord13 coord14 coord21 coord22 coord23 coord24 : ℝ) (h0 : 0 ≤ coord14) :
    VS.lorentz_boost_p4.k_xy_z_tau_rhophi_theta_tau coord11 coord12 coord13 coord14 coord21 coord22 coord23 coord24 = VR.lorentz_boost_p4.k_xy_z_tau_rhophi_theta_tau coord11 coord12 coord13 coord14 coord21 coord22 coord23 coord24 := by
  simp only [VS.lorentz_boost_p4.k_xy_z_tau_rhophi_theta_tau, VR.lorentz_boost_p4.k_xy_z_tau_rhophi_theta_tau, c08_lorentz_boost_p4_cartesian_tau_rhophi_theta_tau, VS.planar_x.xy_eq, VS.planar_y.xy_eq, VS.spatial_z.xy_z_eq, h0, VR.P.nanToNum_eq]

theorem c08_lorentz_boost_p4_k_rhophi_eta_tau_rhophi_theta_tau (coord11 coord12 coord13 coord14 coord21 coord22 coord23 coord24 : ℝ) (h0 : 0 ≤ coord14) :
    VS.lorentz_boost_p4.k_rhophi_eta_tau_rhophi_theta_tau coord11 coord12 coord13 coord14 coord21 coord22 coord23 coord24 = VR.lorentz_boost_p4.k_rhophi_eta_tau_rhophi_theta_tau coord11 coord12 coord13 coord14 coord21 coord22 coord23 coord24 := by
  simp only [VS.lorentz_boost_p4.k_rhophi_eta_tau_rhophi_theta_tau, VR.lorentz_boost_p4.k_rhophi_eta_tau_rhophi_theta_tau, c08_lorentz_boost_p4_k_xy_z_tau_rhophi_theta_tau, VS.planar_x.rhophi_eq, VS.planar_y.rhophi_eq, VS.spatial_z.rhophi_eta_eq, h0, VR.P.nanToNum_eq]

theorem c08_lorentz_boost_p4_k_xy_z_tau_rhophi_z_t (coord11 coord12 coord13 coord14 coord21 coord22 coord23 coord24 : ℝ) (h0 : 0 ≤ coord14) :
    VS.lorentz_boost_p4.k_xy_z_tau_rhophi_z_t coord11 coord12 coord13 coord14 coord21 coord22 coord23 coord24 = VR.lorentz_boost_p4.k_xy_z_tau_rhophi_z_t coord11 coord12 coord13 coord14 coord21 coord22 coord23 coord24 := by
  simp only [VS.lorentz_boost_p4.k_xy_z_tau_rhophi_z_t, VR.lorentz_boost_p4.k_xy_z_tau_rhophi_z_t, c08_lorentz_boost_p4_cartesian_tau_rhophi_z_t, VS.planar_x.xy_eq, VS.planar_y.xy_eq, VS.spatial_z.xy_z_eq, h0, VR.P.nanToNum_eq]

theorem c08_lorentz_boost_p4_k_rhophi_eta_tau_rhophi_z_t (coord11 coord12 coord13 coord14 coord21 coord22 coord23 coord24 : ℝ) (h0 : 0 ≤ coord14) :
    VS.lorentz_boost_p4.k_rhophi_eta_tau_rhophi_z_t coord11 coord12 coord13 coord14 coord21 coord22 coord23 coord24 = VR.lorentz_boost_p4.k_rhophi_eta_tau_rhophi_z_t coord11 coord12 coord13 coord14 coord21 coord22 coord23 coord24 := by
  simp only [VS.lorentz_boost_p4.k_rhophi_eta_tau_rhophi_z_t, VR.lorentz_boost_p4.k_rhophi_eta_tau_rhophi_z_t, c08_lorentz_boost_p4_k_xy_z_tau_rhophi_z_t, VS.planar_x.rhophi_eq, VS.planar_y.rhophi_eq, VS.spatial_z.rhophi_eta_eq, h0, VR.P.nanToNum_eq]

theorem c08_lorentz_boost_p4_k_xy_z_tau_rhophi_z_tau (coord11 coord12 coord13 coord14 coord21 coord22 coord23 coord24 : ℝ) (h0 : 0 ≤ coord14) :
    VS.lorentz_boost_p4.k_xy_z_tau_rhophi_z_tau coord11 coord12 coord13 coord14 coord21 coord22 coord23 coord24 = VR.lorentz_boost_p4.k_xy_z_tau_rhophi_z_tau coord11 coord12 coord13 coord14 coord21 coord22 coord23 coord24 := by
  simp only [VS.lorentz_boost_p4.k_xy_z_tau_rhophi_z_tau, VR.lorentz_boost_p4.k_xy_z_tau_rhophi_z_tau, c08_lorentz_boost_p4_cartesian_tau_rhophi_z_tau, VS.planar_x.xy_eq, VS.planar_y.xy_eq, VS.spatial_z.xy_z_eq, h0, VR.P.nanToNum_eq]

theorem c08_lorentz_boost_p4_k_rhophi_eta_tau_rhophi_z_tau (coord11 coord12 coord13 coord14 coord21 coord22 coord23 coord24 : ℝ) (h0 : 0 ≤ coord14) :
    VS.lorentz_boost_p4.k_rhophi_eta_tau_rhophi_z_tau coord11 coord12 coord13 coord14 coord21 coord22 coord23 coord24 = VR.lorentz_boost_p4.k_rhophi_eta_tau_rhophi_z_tau coord11 coord12 coord13 coord14 coord21 coord22 coord23 coord24 := by
  simp only [VS.lorentz_boost_p4.k_rhophi_eta_tau_rhophi_z_tau, VR.lorentz_boost_p4.k_rhophi_eta_tau_rhophi_z_tau, c08_lorentz_boost_p4_k_xy_z_tau_rhophi_z_tau, VS.planar_x.rhophi_eq, VS.planar_y.rhophi_eq, VS.spatial_z.rhophi_eta_eq, h0, VR.P.nanToNum_eq]

theorem c08_lorentz_boost_p4_k_xy_z_tau_xy_eta_t (coord11 coord12 coord13 coord14 coord21 coord22 coord23 coord24 : ℝ) (h0 : 0 ≤ coord14) :
    VS.lorentz_boost_p4.k_xy_z_tau_xy_eta_t coord11 coord12 coord13 coord14 coord21 coord22 coord23 coord24 = VR.lorentz_boost_p4.k_xy_z_tau_xy_eta_t coord11 coord12 coord13 coord14 coord21 coord22 coord23 coord24 := by
  simp only [VS.lorentz_boost_p4.k_xy_z_tau_xy_eta_t, VR.lorentz_boost_p4.k_xy_z_tau_xy_eta_t, c08_lorentz_boost_p4_cartesian_tau_xy_eta_t, VS.planar_x.xy_eq, VS.planar_y.xy_eq, VS.spatial_z.xy_z_eq, h0, VR.P.nanToNum_eq]

theorem c08_lorentz_boost_p4_k_rhophi_eta_tau_xy_eta_t (coord11 coord12 coord13 coord14 coord21 coord22 coord23 coord24 : ℝ) (h0 : 0 ≤ coord14) :
    VS.lorentz_boost_p4.k_rhophi_eta_tau_xy_eta_t coord11 coord12 coord13 coord14 coord21 coord22 coord23 coord24 = VR.lorentz_boost_p4.k_rhophi_eta_tau_xy_eta_t coord11 coord12 coord13 coord14 coord21 coord22 coord23 coord24 := by
  simp only [VS.lorentz_boost_p4.k_rhophi_eta_tau_xy_eta_t, VR.lorentz_boost_p4.k_rhophi_eta_tau_xy_eta_t, c08_lorentz_boost_p4_k_xy_z_tau_xy_eta_t, VS.planar_x.rhophi_eq, VS.planar_y.rhophi_eq, VS.spatial_z.rhophi_eta_eq, h0, VR.P.nanToNum_eq]

theorem c08_lorentz_boost_p4_k_xy_z_tau_xy_eta_tau (coord11 coord12 coord13 coord14 coord21 coord22 coord23 coord24 : ℝ) (h0 : 0 ≤ coord14) :
    VS.lorentz_boost_p4.k_xy_z_tau_xy_eta_tau coord11 coord12 coord13 coord14 coord21 coord22 coord23 coord24 = VR.lorentz_boost_p4.k_xy_z_tau_xy_eta_tau coord11 coord12 coord13 coord14 coord21 coord22 coord23 coord24 := by
  simp only [VS.lorentz_boost_p4.k_xy_z_tau_xy_eta_tau, VR.lorentz_boost_p4.k_xy_z_tau_xy_eta_tau, c08_lorentz_boost_p4_cartesian_tau_xy_eta_tau, VS.planar_x.xy_eq, VS.planar_y.xy_eq, VS.spatial_z.xy_z_eq, h0, VR.P.nanToNum_eq]

theorem c08_lorentz_boost_p4_k_rhophi_eta_tau_xy_eta_tau (coord11 coord12 coord13 coord14 coord21 coord22 coord23 coord24 : ℝ) (h0 : 0 ≤ coord14) :
    VS.lorentz_boost_p4.k_rhophi_eta_tau_xy_eta_tau coord11 coord12 coord13 coord14 coord21 coord22 coord23 coord24 = VR.lorentz_boost_p4.k_rhophi_eta_tau_xy_eta_tau coord11 coord12 coord13 coord14 coord21 coord22 coord23 coord24 := by
  simp only [VS.lorentz_boost_p4.k_rhophi_eta_tau_xy_eta_tau, VR.lorentz_boost_p4.k_rhophi_eta_tau_xy_eta_tau, c08_lorentz_boost_p4_k_xy_z_tau_xy_eta_tau, VS.planar_x.rhophi_eq, VS.planar_y.rhophi_eq, VS.spatial_z.rhophi_eta_eq, h0, VR.P.nanToNum_eq]

theorem c08_lorentz_boost_p4_k_xy_z_tau_xy_theta_t (coord11 coord12 coord13 coord14 coord21 coord22 coord23 coord24 : ℝ) (h0 : 0 ≤ coord14) :
    VS.lorentz_boost_p4.k_xy_z_tau_xy_theta_t coord11 coord12 coord13 coord14 coord21 coord22 coord23 coord24 = VR.lorentz_boost_p4.k_xy_z_tau_xy_theta_t coord11 coord12 coord13 coord14 coord21 coord22 coord23 coord24 := by
  simp only [VS.lorentz_boost_p4.k_xy_z_tau_xy_theta_t, VR.lorentz_boost_p4.k_xy_z_tau_xy_theta_t, c08_lorentz_boost_p4_cartesian_tau_xy_theta_t, VS.planar_x.xy_eq, VS.planar_y.xy_eq, VS.spatial_z.xy_z_eq, h0, VR.P.nanToNum_eq]

theorem c08_lorentz_boost_p4_k_rhophi_eta_tau_xy_theta_t (coord11 coord12 coord13 coord14 coord21 coord22 coord23 coord24 : ℝ) (h0 : 0 ≤ coord14) :
    VS.lorentz_boost_p4.k_rhophi_eta_tau_xy_theta_t coord11 coord12 coord13 coord14 coord21 coord22 coord23 coord24 = VR.lorentz_boost_p4.k_rhophi_eta_tau_xy_theta_t coord11 coord12 coord13 coord14 coord21 coord22 coord23 coord24 := by
  simp only [VS.lorentz_boost_p4.k_rhophi_eta_tau_xy_theta_t, VR.lorentz_boost_p4.k_rhophi_eta_tau_xy_theta_t, c08_lorentz_boost_p4_k_xy_z_tau_xy_theta_t, VS.planar_x.rhophi_eq, VS.planar_y.rhophi_eq, VS.spatial_z.rhophi_eta_eq, h0, VR.P.nanToNum_eq]

theorem c08_lorentz_boost_p4_k_xy_z_tau_xy_theta_tau (coord11 coord12 coord13 coord14 coord21 coord22 coord23 coord24 : ℝ) (h0 : 0 ≤ coord14) :
    VS.lorentz_boost_p4.k_xy_z_tau_xy_theta_tau coord11 coord12 coord13 coord14 coord21 coord22 coord23 coord24 = VR.lorentz_boost_p4.k_xy_z_tau_xy_theta_tau coord11 coord12 coord13 coord14 coord21 coord22 coord23 coord24 := by
  simp only [VS.lorentz_boost_p4.k_xy_z_tau_xy_theta_tau, VR.lorentz_boost_p4.k_xy_z_tau_xy_theta_tau, c08_lorentz_boost_p4_cartesian_tau_xy_theta_tau, VS.planar_x.xy_eq, VS.planar_y.xy_eq, VS.spatial_z.xy_z_eq, h0, VR.P.nanToNum_eq]

theorem c08_lorentz_boost_p4_k_rhophi_eta_tau_xy_theta_tau (coord11 coord12 coord13 coord14 coord21 coord22 coord23 coord24 : ℝ) (h0 : 0 ≤ coord14) :
    VS.lorentz_boost_p4.k_rhophi_eta_tau_xy_theta_tau coord11 coord12 coord13 coord14 coord21 coord22 coord23 coord24 = VR.lorentz_boost_p4.k_rhophi_eta_tau_xy_theta_tau coord11 coord12 coord13 coord14 coord21 coord22 coord23 coord24 := by
  simp only [VS.lorentz_boost_p4.k_rhophi_eta_tau_xy_theta_tau, VR.lorentz_boost_p4.k_rhophi_eta_tau_xy_theta_tau, c08_lorentz_boost_p4_k_xy_z_tau_xy_theta_tau, VS.planar_x.rhophi_eq, VS.planar_y.rhophi_eq, VS.spatial_z.rhophi_eta_eq, h0, VR.P.nanToNum_eq]

theorem c08_lorentz_boost_p4_k_xy_z_tau_xy_z_t (coord11 coord12 coord13 coord14 coord21 coord22 coord23 coord24 : ℝ) (h0 : 0 ≤ coord14) :
    VS.lorentz_boost_p4.k_xy_z_tau_xy_z_t coord11 coord12 coord13 coord14 coord21 coord22 coord23 coord24 = VR.lorentz_boost_p4.k_xy_z_tau_xy_z_t coord11 coord12 coord13 coord14 coord21 coord22 coord23 coord24 := by
  simp only [VS.lorentz_boost_p4.k_xy_z_tau_xy_z_t, VR.lorentz_boost_p4.k_xy_z_tau_xy_z_t, c08_lorentz_boost_p4_cartesian_tau_xy_z_t, VS.planar_x.xy_eq, VS.planar_y.xy_eq, VS.spatial_z.xy_z_eq, h0, VR.P.nanToNum_eq]

theorem c08_lorentz_boost_p4_k_rhophi_eta_tau_xy_z_t (coord11 coord12 coord13 coord14 coord21 coord22 coord23 coord24 : ℝ) (h0 : 0 ≤ coord14) :
    VS.lorentz_boost_p4.k_rhophi_eta_tau_xy_z_t coord11 coord12 coord13 coord14 coord21 coord22 coord23 coord24 = VR.lorentz_boost_p4.k_rhophi_eta_tau_xy_z_t coord11 coord12 coord13 coord14 coord21 coord22 coord23 coord24 := by
  simp only [VS.lorentz_boost_p4.k_rhophi_eta_tau_xy_z_t, VR.lorentz_boost_p4.k_rhophi_eta_tau_xy_z_t, c08_lorentz_boost_p4_k_xy_z_tau_xy_z_t, VS.planar_x.rhophi_eq, VS.planar_y.rhophi_eq, VS.spatial_z.rhophi_eta_eq, h0, VR.P.nanToNum_eq]

theorem c08_lorentz_boost_p4_k_xy_z_tau_xy_z_tau (coord11 coord12 coord13 coord14 coord21 coord22 coord23 coord24 : ℝ) (h0 : 0 ≤ coord14) :
    VS.lorentz_boost_p4.k_xy_z_tau_xy_z_tau coord11 coord12 coord13 coord14 coord21 coord22 coord23 coord24 = VR.lorentz_boost_p4.k_xy_z_tau_xy_z_tau coord11 coord12 coord13 coord14 coord21 coord22 coord23 coord24 := by
  simp only [VS.lorentz_boost_p4.k_xy_z_tau_xy_z_tau, VR.lorentz_boost_p4.k_xy_z_tau_xy_z_tau, c08_lorentz_boost_p4_cartesian_tau_xy_z_tau, VS.planar_x.xy_eq, VS.planar_y.xy_eq, VS.spatial_z.xy_z_eq, h0, VR.P.nanToNum_eq]

theorem c08_lorentz_boost_p4_k_rhophi_eta_tau_xy_z_tau (coord11 coord12 coord13 coord14 coord21 coord22 coord23 coord24 : ℝ) (h0 : 0 ≤ coord14) :
    VS.lorentz_boost_p4.k_rhophi_eta_tau_xy_z_tau coord11 coord12 coord13 coord14 coord21 coord22 coord23 coord24 = VR.lorentz_boost_p4.k_rhophi_eta_tau_xy_z_tau coord11 coord12 coord13 coord14 coord21 coord22 coord23 coord24 := by
  simp only [VS.lorentz_boost_p4.k_rhophi_eta_tau_xy_z_tau, VR.lorentz_boost_p4.k_rhophi_eta_tau_xy_z_tau, c08_lorentz_boost_p4_k_xy_z_tau_xy_z_tau, VS.planar_x.rhophi_eq, VS.planar_y.rhophi_eq, VS.spatial_z.rhophi_eta_eq, h0, VR.P.nanToNum_eq]

theorem c08_lorentz_boost_p4_k_rhophi_theta_tau_rhophi_eta_t (coord11 coord12 coord13 coord14 coord21 coord22 coord23 coord24 : ℝ) (h0 : 0 ≤ coord14) :
    VS.lorentz_boost_p4.k_rhophi_theta_tau_rhophi_eta_t coord11 coord12 coord13 coord14 coord21 coord22 coord23 coord24 = VR.lorentz_boost_p4.k_rhophi_theta_tau_rhophi_eta_t coord11 coord12 coord13 coord14 coord21 coord22 coord23 coord24 := by
  simp only [VS.lorentz_boost_p4.k_rhophi_theta_tau_rhophi_eta_t, VR.lorentz_boost_p4.k_rhophi_theta_tau_rhophi_eta_t, c08_lorentz_boost_p4_k_xy_z_tau_rhophi_eta_t, VS.planar_x.rhophi_eq, VS.planar_y.rhophi_eq, VS.spatial_z.rhophi_theta_eq, h0, VR.P.nanToNum_eq]

theorem c08_lorentz_boost_p4_k_rhophi_theta_tau_rhophi_eta_tau (coord11 coord12 coord13 coord14 coord21 coord22 coord23 coord24 : ℝ) (h0 : 0 ≤ coord14) :
    VS.lorentz_boost_p4.k_rhophi_theta_tau_rhophi_eta_tau coord11 coord12 coord13 coord14 coord21 coord22 coord23 coord24 = VR.lorentz_boost_p4.k_rhophi_theta_tau_rhophi_eta_tau coord11 coord12 coord13 coord14 coord21 coord22 coord23 coord24 := by
  simp only [VS.lorentz_boost_p4.k_rhophi_theta_tau_rhophi_eta_tau, VR.lorentz_boost_p4.k_rhophi_theta_tau_rhophi_eta_tau, c08_lorentz_boost_p4_k_xy_z_tau_rhophi_eta_tau, VS.planar_x.rhophi_eq, VS.planar_y.rhophi_eq, VS.spatial_z.rhophi_theta_eq, h0, VR.P.nanToNum_eq]

theorem c08_lorentz_boost_p4_k_rhophi_theta_tau_rhophi_theta_t (coord11 coord12 coord13 coord14 coord21 coord22 coord23 coord24 : ℝ) (h0 : 0 ≤ coord14) :
    VS.lorentz_boost_p4.k_rhophi_theta_tau_rhophi_theta_t coord11 coord12 coord13 coord14 coord21 coord22 coord23 coord24 = VR.lorentz_boost_p4.k_rhophi_theta_tau_rhophi_theta_t coord11 coord12 coord13 coord14 coord21 coord22 coord23 coord24 := by
  simp only [VS.lorentz_boost_p4.k_rhophi_theta_tau_rhophi_theta_t, VR.lorentz_boost_p4.k_rhophi_theta_tau_rhophi_theta_t, c08_lorentz_boost_p4_k_xy_z_tau_rhophi_theta_t, VS.planar_x.rhophi_eq, VS.planar_y.rhophi_eq, VS.spatial_z.rhophi_theta_eq, h0, VR.P.nanToNum_eq]

theorem c08_lorentz_boost_p4_k_rhophi_theta_tau_rhophi_theta_tau (coord11 coord12 coord13 coord14 coord21 coord22 coord23 coord24 : ℝ) (h0 : 0 ≤ coord14) :
    VS.lorentz_boost_p4.k_rhophi_theta_tau_rhophi_theta_tau coord11 coord12 coord13 coord14 coord21 coord22 coord23 coord24 = VR.lorentz_boost_p4.k_rhophi_theta_tau_rhophi_theta_tau coord11 coord12 coord13 coord14 coord21 coord22 coord23 coord24 := by
  simp only [VS.lorentz_boost_p4.k_rhophi_theta_tau_rhophi_theta_tau, VR.lorentz_boost_p4.k_rhophi_theta_tau_rhophi_theta_tau, c08_lorentz_boost_p4_k_xy_z_tau_rhophi_theta_tau, VS.planar_x.rhophi_eq, VS.planar_y.rhophi_eq, VS.spatial_z.rhophi_theta_eq, h0, VR.P.nanToNum_eq]

theorem c08_lorentz_boost_p4_k_rhophi_theta_tau_rhophi_z_t (coord11 coord12 coord13 coord14 coord21 coord22 coord23 coord24 : ℝ) (h0 : 0 ≤ coord14) :
    VS.lorentz_boost_p4.k_rhophi_theta_tau_rhophi_z_t coord11 coord12 coord13 coord14 coord21 coord22 coord23 coord24 = VR.lorentz_boost_p4.k_rhophi_theta_tau_rhophi_z_t coord11 coord12 coord13 coord14 coord21 coord22 coord23 coord24 := by
  simp only [VS.lorentz_boost_p4.k_rhophi_theta_tau_rhophi_z_t, VR.lorentz_boost_p4.k_rhophi_theta_tau_rhophi_z_t, c08_lorentz_boost_p4_k_xy_z_tau_rhophi_z_t, VS.planar_x.rhophi_eq, VS.planar_y.rhophi_eq, VS.spatial_z.rhophi_theta_eq, h0, VR.P.nanToNum_eq]

theorem c08_lorentz_boost_p4_k_rhophi_theta_tau_rhophi_z_tau (coord11 coord12 coord13 coord14 coord21 coord22 coord23 coord24 : ℝ) (h0 : 0 ≤ coord14) :
    VS.lorentz_boost_p4.k_rhophi_theta_tau_rhophi_z_tau coord11 coord12 coord13 coord14 coord21 coord22 coord23 coord24 = VR.lorentz_boost_p4.k_rhophi_theta_tau_rhophi_z_tau coord11 coord12 coord13 coord14 coord21 coord22 coord23 coord24 := by
  simp only [VS.lorentz_boost_p4.k_rhophi_theta_tau_rhophi_z_tau, VR.lorentz_boost_p4.k_rhophi_theta_tau_rhophi_z_tau, c08_lorentz_boost_p4_k_xy_z_tau_rhophi_z_tau, VS.planar_x.rhophi_eq, VS.planar_y.rhophi_eq, VS.spatial_z.rhophi_theta_eq, h0, VR.P.nanToNum_eq]

theorem c08_lorentz_boost_p4_k_rhophi_theta_tau_xy_eta_t (coord11 coord12 coord13 coord14 coord21 coord22 coord23 coord24 : ℝ) (h0 : 0 ≤ coord14) :
    VS.lorentz_boost_p4.k_rhophi_theta_tau_xy_eta_t coord11 coord12 coord13 coord14 coord21 coord22 coord23 coord24 = VR.lorentz_boost_p4.k_rhophi_theta_tau_xy_eta_t coord11 coord12 coord13 coord14 coord21 coord22 coord23 coord24 := by
  simp only [VS.lorentz_boost_p4.k_rhophi_theta_tau_xy_eta_t, VR.lorentz_boost_p4.k_rhophi_theta_tau_xy_eta_t, c08_lorentz_boost_p4_k_xy_z_tau_xy_eta_t, VS.planar_x.rhophi_eq, VS.planar_y.rhophi_eq, VS.spatial_z.rhophi_theta_eq, h0, VR.P.nanToNum_eq]

theorem c08_lorentz_boost_p4_k_rhophi_theta_tau_xy_eta_tau (coord11 coord12 coord13 coord14 coord21 coord22 coord23 coord24 : ℝ) (h0 : 0 ≤ coord14) :
    VS.lorentz_boost_p4.k_rhophi_theta_tau_xy_eta_tau coord11 coord12 coord13 coord14 coord21 coord22 coord23 coord24 = VR.lorentz_boost_p4.k_rhophi_theta_tau_xy_eta_tau coord11 coord12 coord13 coord14 coord21 coord22 coord23 coord24 := by
  simp only [VS.lorentz_boost_p4.k_rhophi_theta_tau_xy_eta_tau, VR.lorentz_boost_p4.k_rhophi_theta_tau_xy_eta_tau, c08_lorentz_boost_p4_k_xy_z_tau_xy_eta_tau, VS.planar_x.rhophi_eq, VS.planar_y.rhophi_eq, VS.spatial_z.rhophi_theta_eq, h0, VR.P.nanToNum_eq]

theorem c08_lorentz_boost_p4_k_rhophi_theta_tau_xy_theta_t (coord11 coord12 coord13 coord14 coord21 coord22 coord23 coord24 : ℝ) (h0 : 0 ≤ coord14) :
    VS.lorentz_boost_p4.k_rhophi_theta_tau_xy_theta_t coord11 coord12 coord13 coord14 coord21 coord22 coord23 coord24 = VR.lorentz_boost_p4.k_rhophi_theta_tau_xy_theta_t coord11 coord12 coord13 coord14 coord21 coord22 coord23 coord24 := by
  simp only [VS.lorentz_boost_p4.k_rhophi_theta_tau_xy_theta_t, VR.lorentz_boost_p4.k_rhophi_theta_tau_xy_theta_t, c08_lorentz_boost_p4_k_xy_z_tau_xy_theta_t, VS.planar_x.rhophi_eq, VS.planar_y.rhophi_eq, VS.spatial_z.rhophi_theta_eq, h0, VR.P.nanToNum_eq]

theorem c08_lorentz_boost_p4_k_rhophi_theta_tau_xy_theta_tau (coord11 coord12 coord13 coord14 coord21 coord22 coord23 coord24 : ℝ) (h0 : 0 ≤ coord14) :
    VS.lorentz_boost_p4.k_rhophi_theta_tau_xy_theta_tau coord11 coord12 coord13 coord14 coord21 coord22 coord23 coord24 = VR.lorentz_boost_p4.k_rhophi_theta_tau_xy_theta_tau coord11 coord12 coord13 coord14 coord21 coord22 coord23 coord24 := by
  simp only [VS.lorentz_boost_p4.k_rhophi_theta_tau_xy_theta_tau, VR.lorentz_boost_p4.k_rhophi_theta_tau_xy_theta_tau, c08_lorentz_boost_p4_k_xy_z_tau_xy_theta_tau, VS.planar_x.rhophi_eq, VS.planar_y.rhophi_eq, VS.spatial_z.rhophi_theta_eq, h0, VR.P.nanToNum_eq]

theorem c08_lorentz_boost_p4_k_rhophi_theta_tau_xy_z_t (coord11 coord12 coord13 coord14 coord21 coord22 coord23 coord24 : ℝ) (h0 : 0 ≤ coord14) :
    VS.lorentz_boost_p4.k_rhophi_theta_tau_xy_z_t coord11 coord12 coord13 coord14 coord21 coord22 coord23 coord24 = VR.lorentz_boost_p4.k_rhophi_theta_tau_xy_z_t coord11 coord12 coord13 coord14 coord21 coord22 coord23 coord24 := by
  simp only [VS.lorentz_boost_p4.k_rhophi_theta_tau_xy_z_t, VR.lorentz_boost_p4.k_rhophi_theta_tau_xy_z_t, c08_lorentz_boost_p4_k_xy_z_tau_xy_z_t, VS.planar_x.rhophi_eq, VS.planar_y.rhophi_eq, VS.spatial_z.rhophi_theta_eq, h0, VR.P.nanToNum_eq]

theorem c08_lorentz_boost_p4_k_rhophi_theta_tau_xy_z_tau (coord11 coord12 coord13 coord14 coord21 coord22 coord23 coord24 : ℝ) (h0 : 0 ≤ coord14) :
    VS.lorentz_boost_p4.k_rhophi_theta_tau_xy_z_tau coord11 coord12 coord13 coord14 coord21 coord22 coord23 coord24 = VR.lorentz_boost_p4.k_rhophi_theta_tau_xy_z_tau coord11 coord12 coord13 coord14 coord21 coord22 coord23 coord24 := by
  simp only [VS.lorentz_boost_p4.k_rhophi_theta_tau_xy_z_tau, VR.lorentz_boost_p4.k_rhophi_theta_tau_xy_z_tau, c08_lorentz_boost_p4_k_xy_z_tau_xy_z_tau, VS.planar_x.rhophi_eq, VS.planar_y.rhophi_eq, VS.spatial_z.rhophi_theta_eq, h0, VR.P.nanToNum_eq]

theorem c08_lorentz_boost_p4_k_rhophi_z_tau_rhophi_eta_t (coord11 coord12 coord13 coord14 coord21 coord22 coord23 coord24 : ℝ) (h0 : 0 ≤ coord14) :
    VS.lorentz_boost_p4.k_rhophi_z_tau_rhophi_eta_t coord11 coord12 coord13 coord14 coord21 coord22 coord23 coord24 = VR.lorentz_boost_p4.k_rhophi_z_tau_rhophi_eta_t coord11 coord12 coord13 coord14 coord21 coord22 coord23 coord24 := by
  simp only [VS.lorentz_boost_p4.k_rhophi_z_tau_rhophi_eta_t, VR.lorentz_boost_p4.k_rhophi_z_tau_rhophi_eta_t, c08_lorentz_boost_p4_k_xy_z_tau_rhophi_eta_t, VS.planar_x.rhophi_eq, VS.planar_y.rhophi_eq, VS.spatial_z.rhophi_z_eq, h0, VR.P.nanToNum_eq]

theorem c08_lorentz_boost_p4_k_rhophi_z_tau_rhophi_eta_tau (coord11 coord12 coord13 coord14 coord21 coord22 coord23 coord24 : ℝ) (h0 : 0 ≤ coord14) :
    VS.lorentz_boost_p4.k_rhophi_z_tau_rhophi_eta_tau coord11 coord12 coord13 coord14 coord21 coord22 coord23 coord24 = VR.lorentz_boost_p4.k_rhophi_z_tau_rhophi_eta_tau coord11 coord12 coord13 coord14 coord21 coord22 coord23 coord24 := by
  simp only [VS.lorentz_boost_p4.k_rhophi_z_tau_rhophi_eta_tau, VR.lorentz_boost_p4.k_rhophi_z_tau_rhophi_eta_tau, c08_lorentz_boost_p4_k_xy_z_tau_rhophi_eta_tau, VS.planar_x.rhophi_eq, VS.planar_y.rhophi_eq, VS.spatial_z.rhophi_z_eq, h0, VR.P.nanToNum_eq]

theorem c08_lorentz_boost_p4_k_rhophi_z_tau_rhophi_theta_t (coord11 coord12 coord13 coord14 coord21 coord22 coord23 coord24 : ℝ) (h0 : 0 ≤ coord14) :
    VS.lorentz_boost_p4.k_rhophi_z_tau_rhophi_theta_t coord11 coord12 coord13 coord14 coord21 coord22 coord23 coord24 = VR.lorentz_boost_p4.k_rhophi_z_tau_rhophi_theta_t coord11 coord12 coord13 coord14 coord21 coord22 coord23 coord24 := by
  simp only [VS.lorentz_boost_p4.k_rhophi_z_tau_rhophi_theta_t, VR.lorentz_boost_p4.k_rhophi_z_tau_rhophi_theta_t, c08_lorentz_boost_p4_k_xy_z_tau_rhophi_theta_t, VS.planar_x.rhophi_eq, VS.planar_y.rhophi_eq, VS.spatial_z.rhophi_z_eq, h0, VR.P.nanToNum_eq]

theorem c08_lorentz_boost_p4_k_rhophi_z_tau_rhophi_theta_tau (coord11 coord12 coord13 coord14 coord21 coord22 coord23 coord24 : ℝ) (h0 : 0 ≤ coord14) :
    VS.lorentz_boost_p4.k_rhophi_z_tau_rhophi_theta_tau coord11 coord12 coord13 coord14 coord21 coord22 coord23 coord24 = VR.lorentz_boost_p4.k_rhophi_z_tau_rhophi_theta_tau coord11 coord12 coord13 coord14 coord21 coord22 coord23 coord24 := by
  simp only [VS.lorentz_boost_p4.k_rhophi_z_tau_rhophi_theta_tau, VR.lorentz_boost_p4.k_rhophi_z_tau_rhophi_theta_tau, c08_lorentz_boost_p4_k_xy_z_tau_rhophi_theta_tau, VS.planar_x.rhophi_eq, VS.planar_y.rhophi_eq, VS.spatial_z.rhophi_z_eq, h0, VR.P.nanToNum_eq]

theorem c08_lorentz_boost_p4_k_rhophi_z_tau_rhophi_z_t (coord11 coord12 coord13 coord14 coord21 coord22 coord23 coord24 : ℝ) (h0 : 0 ≤ coord14) :
    VS.lorentz_boost_p4.k_rhophi_z_tau_rhophi_z_t coord11 coord12 coord13 coord14 coord21 coord22 coord23 coord24 = VR.lorentz_boost_p4.k_rhophi_z_tau_rhophi_z_t coord11 coord12 coord13 coord14 coord21 coord22 coord23 coord24 := by
  simp only [VS.lorentz_boost_p4.k_rhophi_z_tau_rhophi_z_t, VR.lorentz_boost_p4.k_rhophi_z_tau_rhophi_z_t, c08_lorentz_boost_p4_k_xy_z_tau_rhophi_z_t, VS.planar_x.rhophi_eq, VS.planar_y.rhophi_eq, VS.spatial_z.rhophi_z_eq, h0, VR.P.nanToNum_eq]

theorem c08_lorentz_boost_p4_k_rhophi_z_tau_rhophi_z_tau (coord11 coord12 coord13 coord14 coord21 coord22 coord23 coord24 : ℝ) (h0 : 0 ≤ coord14) :
    VS.lorentz_boost_p4.k_rhophi_z_tau_rhophi_z_tau coord11 coord12 coord13 coord14 coord21 coord22 coord23 coord24 = VR.lorentz_boost_p4.k_rhophi_z_tau_rhophi_z_tau coord11 coord12 coord13 coord14 coord21 coord22 coord23 coord24 := by
  simp only [VS.lorentz_boost_p4.k_rhophi_z_tau_rhophi_z_tau, VR.lorentz_boost_p4.k_rhophi_z_tau_rhophi_z_tau, c08_lorentz_boost_p4_k_xy_z_tau_rhophi_z_tau, VS.planar_x.rhophi_eq, VS.planar_y.rhophi_eq, VS.spatial_z.rhophi_z_eq, h0, VR.P.nanToNum_eq]

theorem c08_lorentz_boost_p4_k_rhophi_z_tau_xy_eta_t (coord11 coord12 coord13 coord14 coord21 coord22 coord23 coord24 : ℝ) (h0 : 0 ≤ coord14) :
    VS.lorentz_boost_p4.k_rhophi_z_tau_xy_eta_t coord11 coord12 coord13 coord14 coord21 coord22 coord23 coord24 = VR.lorentz_boost_p4.k_rhophi_z_tau_xy_eta_t coord11 coord12 coord13 coord14 coord21 coord22 coord23 coord24 := by
  simp only [VS.lorentz_boost_p4.k_rhophi_z_tau_xy_eta_t, VR.lorentz_boost_p4.k_rhophi_z_tau_xy_eta_t, c08_lorentz_boost_p4_k_xy_z_tau_xy_eta_t, VS.planar_x.rhophi_eq, VS.planar_y.rhophi_eq, VS.spatial_z.rhophi_z_eq, h0, VR.P.nanToNum_eq]

theorem c08_lorentz_boost_p4_k_rhophi_z_tau_xy_eta_tau (coord11 coord12 coord13 coord14 coord21 coord22 coord23 coord24 : ℝ) (h0 : 0 ≤ coord14) :
    VS.lorentz_boost_p4.k_rhophi_z_tau_xy_eta_tau coord11 coord12 coord13 coord14 coord21 coord22 coord23 coord24 = VR.lorentz_boost_p4.k_rhophi_z_tau_xy_eta_tau coord11 coord12 coord13 coord14 coord21 coord22 coord23 coord24 := by
  simp only [VS.lorentz_boost_p4.k_rhophi_z_tau_xy_eta_tau, VR.lorentz_boost_p4.k_rhophi_z_tau_xy_eta_tau, c08_lorentz_boost_p4_k_xy_z_tau_xy_eta_tau, VS.planar_x.rhophi_eq, VS.planar_y.rhophi_eq, VS.spatial_z.rhophi_z_eq, h0, VR.P.nanToNum_eq]

theorem c08_lorentz_boost_p4_k_rhophi_z_tau_xy_theta_t (coord11 coord12 coord13 coord14 coord21 coord22 coord23 coord24 : ℝ) (h0 : 0 ≤ coord14) :
    VS.lorentz_boost_p4.k_rhophi_z_tau_xy_theta_t coord11 coord12 coord13 coord14 coord21 coord22 coord23 coord24 = VR.lorentz_boost_p4.k_rhophi_z_tau_xy_theta_t coord11 coord12 coord13 coord14 coord21 coord22 coord23 coord24 := by
  simp only [VS.lorentz_boost_p4.k_rhophi_z_tau_xy_theta_t, VR.lorentz_boost_p4.k_rhophi_z_tau_xy_theta_t, c08_lorentz_boost_p4_k_xy_z_tau_xy_theta_t, VS.planar_x.rhophi_eq, VS.planar_y.rhophi_eq, VS.spatial_z.rhophi_z_eq, h0, VR.P.nanToNum_eq]

theorem c08_lorentz_boost_p4_k_rhophi_z_tau_xy_theta_tau (coord11 coord12 coord13 coord14 coord21 coord22 coord23 coord24 : ℝ) (h0 : 0 ≤ coord14) :
    VS.lorentz_boost_p4.k_rhophi_z_tau_xy_theta_tau coord11 coord12 coord13 coord14 coord21 coord22 coord23 coord24 = VR.lorentz_boost_p4.k_rhophi_z_tau_xy_theta_tau coord11 coord12 coord13 coord14 coord21 coord22 coord23 coord24 := by
  simp only [VS.lorentz_boost_p4.k_rhophi_z_tau_xy_theta_tau, VR.lorentz_boost_p4.k_rhophi_z_tau_xy_theta_tau, c08_lorentz_boost_p4_k_xy_z_tau_xy_theta_tau, VS.planar_x.rhophi_eq, VS.planar_y.rhophi_eq, VS.spatial_z.rhophi_z_eq, h0, VR.P.nanToNum_eq]

theorem c08_lorentz_boost_p4_k_rhophi_z_tau_xy_z_t (coord11 coord12 coord13 coord14 coord21 coord22 coord23 coord24 : ℝ) (h0 : 0 ≤ coord14) :
    VS.lorentz_boost_p4.k_rhophi_z_tau_xy_z_t coord11 coord12 coord13 coord14 coord21 coord22 coord23 coord24 = VR.lorentz_boost_p4.k_rhophi_z_tau_xy_z_t coord11 coord12 coord13 coord14 coord21 coord22 coord23 coord24 := by
  simp only [VS.lorentz_boost_p4.k_rhophi_z_tau_xy_z_t, VR.lorentz_boost_p4.k_rhophi_z_tau_xy_z_t, c08_lorentz_boost_p4_k_xy_z_tau_xy_z_t, VS.planar_x.rhophi_eq, VS.planar_y.rhophi_eq, VS.spatial_z.rhophi_z_eq, h0, VR.P.nanToNum_eq]

theorem c08_lorentz_boost_p4_k_rhophi_z_tau_xy_z_tau (coord11 coord12 coord13 coord14 coord21 coord22 coord23 coord24 : ℝ) (h0 : 0 ≤ coord14) :
    VS.lorentz_boost_p4.k_rhophi_z_tau_xy_z_tau coord11 coord12 coord13 coord14 coord21 coord22 coord23 coord24 = VR.lorentz_boost_p4.k_rhophi_z_tau_xy_z_tau coord11 coord12 coord13 coord14 coord21 coord22 coord23 coord24 := by
  simp only [VS.lorentz_boost_p4.k_rhophi_z_tau_xy_z_tau, VR.lorentz_boost_p4.k_rhophi_z_tau_xy_z_tau, c08_lorentz_boost_p4_k_xy_z_tau_xy_z_tau, VS.planar_x.rhophi_eq, VS.planar_y.rhophi_eq, VS.spatial_z.rhophi_z_eq, h0, VR.P.nanToNum_eq]

theorem c08_lorentz_boost_p4_k_xy_eta_tau_rhophi_eta_t (coord11 coord12 coord13 coord14 coord21 coord22 coord23 coord24 : ℝ) (h0 : 0 ≤ coord14) :
    VS.lorentz_boost_p4.k_xy_eta_tau_rhophi_eta_t coord11 coord12 coord13 coord14 coord21 coord22 coord23 coord24 = VR.lorentz_boost_p4.k_xy_eta_tau_rhophi_eta_t coord11 coord12 coord13 coord14 coord21 coord22 coord23 coord24 := by
  simp only [VS.lorentz_boost_p4.k_xy_eta_tau_rhophi_eta_t, VR.lorentz_boost_p4.k_xy_eta_tau_rhophi_eta_t, c08_lorentz_boost_p4_k_xy_z_tau_rhophi_eta_t, VS.planar_x.xy_eq, VS.planar_y.xy_eq, VS.spatial_z.xy_eta_eq, h0, VR.P.nanToNum_eq]

theorem c08_lorentz_boost_p4_k_xy_eta_tau_rhophi_eta_tau (coord11 coord12 coord13 coord14 coord21 coord22 coord23 coord24 : ℝ) (h0 : 0 ≤ coord14) :
    VS.lorentz_boost_p4.k_xy_eta_tau_rhophi_eta_tau coord11 coord12 coord13 coord14 coord21 coord22 coord23 coord24 = VR.lorentz_boost_p4.k_xy_eta_tau_rhophi_eta_tau coord11 coord12 coord13 coord14 coord21 coord22 coord23 coord24 := by
  simp only [VS.lorentz_boost_p4.k_xy_eta_tau_rhophi_eta_tau, VR.lorentz_boost_p4.k_xy_eta_tau_rhophi_eta_tau, c08_lorentz_boost_p4_k_xy_z_tau_rhophi_eta_tau, VS.planar_x.xy_eq, VS.planar_y.xy_eq, VS.spatial_z.xy_eta_eq, h0, VR.P.nanToNum_eq]

theorem c08_lorentz_boost_p4_k_xy_eta_tau_rhophi_theta_t (coord11 coord12 coord13 coord14 coord21 coord22 coord23 coord24 : ℝ) (h0 : 0 ≤ coord14) :
    VS.lorentz_boost_p4.k_xy_eta_tau_rhophi_theta_t coord11 coord12 coord13 coord14 coord21 coord22 coord23 coord24 = VR.lorentz_boost_p4.k_xy_eta_tau_rhophi_theta_t coord11 coord12 coord13 coord14 coord21 coord22 coord23 coord24 := by
  simp only [VS.lorentz_boost_p4.k_xy_eta_tau_rhophi_theta_t, VR.lorentz_boost_p4.k_xy_eta_tau_rhophi_theta_t, c08_lorentz_boost_p4_k_xy_z_tau_rhophi_theta_t, VS.planar_x.xy_eq, VS.planar_y.xy_eq, VS.spatial_z.xy_eta_eq, h0, VR.P.nanToNum_eq]

theorem c08_lorentz_boost_p4_k_xy_eta_tau_rhophi_theta_tau (coord11 coord12 coord13 coord14 coord21 coord22 coord23 coord24 : ℝ) (h0 : 0 ≤ coord14) :
    VS.lorentz_boost_p4.k_xy_eta_tau_rhophi_theta_tau coord11 coord12 coord13 coord14 coord21 coord22 coord23 coord24 = VR.lorentz_boost_p4.k_xy_eta_tau_rhophi_theta_tau coord11 coord12 coord13 coord14 coord21 coord22 coord23 coord24 := by
  simp only [VS.lorentz_boost_p4.k_xy_eta_tau_rhophi_theta_tau, VR.lorentz_boost_p4.k_xy_eta_tau_rhophi_theta_tau, c08_lorentz_boost_p4_k_xy_z_tau_rhophi_theta_tau, VS.planar_x.xy_eq, VS.planar_y.xy_eq, VS.spatial_z.xy_eta_eq, h0, VR.P.nanToNum_eq]

theorem c08_lorentz_boost_p4_k_xy_eta_tau_rhophi_z_t (coord11 coord12 coord13 coord14 coord21 coord22 coord23 coord24 : ℝ) (h0 : 0 ≤ coord14) :
    VS.lorentz_boost_p4.k_xy_eta_tau_rhophi_z_t coord11 coord12 coord13 coord14 coord21 coord22 coord23 coord24 = VR.lorentz_boost_p4.k_xy_eta_tau_rhophi_z_t coord11 coord12 coord13 coord14 coord21 coord22 coord23 coord24 := by
  simp only [VS.lorentz_boost_p4.k_xy_eta_tau_rhophi_z_t, VR.lorentz_boost_p4.k_xy_eta_tau_rhophi_z_t, c08_lorentz_boost_p4_k_xy_z_tau_rhophi_z_t, VS.planar_x.xy_eq, VS.planar_y.xy_eq, VS.spatial_z.xy_eta_eq, h0, VR.P.nanToNum_eq]

theorem c08_lorentz_boost_p4_k_xy_eta_tau_rhophi_z_tau (coord11 coord12 coord13 coord14 coord21 coord22 coord23 coord24 : ℝ) (h0 : 0 ≤ coord14) :
    VS.lorentz_boost_p4.k_xy_eta_tau_rhophi_z_tau coord11 coord12 coord13 coord14 coord21 coord22 coord23 coord24 = VR.lorentz_boost_p4.k_xy_eta_tau_rhophi_z_tau coord11 coord12 coord13 coord14 coord21 coord22 coord23 coord24 := by
  simp only [VS.lorentz_boost_p4.k_xy_eta_tau_rhophi_z_tau, VR.lorentz_boost_p4.k_xy_eta_tau_rhophi_z_tau, c08_lorentz_boost_p4_k_xy_z_tau_rhophi_z_tau, VS.planar_x.xy_eq, VS.planar_y.xy_eq, VS.spatial_z.xy_eta_eq, h0, VR.P.nanToNum_eq]

theorem c08_lorentz_boost_p4_k_xy_eta_tau_xy_eta_t (coord11 coord12 coord13 coord14 coord21 coord22 coord23 coord24 : ℝ) (h0 : 0 ≤ coord14) :
    VS.lorentz_boost_p4.k_xy_eta_tau_xy_eta_t coord11 coord12 coord13 coord14 coord21 coord22 coord23 coord24 = VR.lorentz_boost_p4.k_xy_eta_tau_xy_eta_t coord11 coord12 coord13 coord14 coord21 coord22 coord23 coord24 := by
  simp only [VS.lorentz_boost_p4.k_xy_eta_tau_xy_eta_t, VR.lorentz_boost_p4.k_xy_eta_tau_xy_eta_t, c08_lorentz_boost_p4_k_xy_z_tau_xy_eta_t, VS.planar_x.xy_eq, VS.planar_y.xy_eq, VS.spatial_z.xy_eta_eq, h0, VR.P.nanToNum_eq]

theorem c08_lorentz_boost_p4_k_xy_eta_tau_xy_eta_tau (coord11 coord12 coord13 coord14 coord21 coord22 coord23 coord24 : ℝ) (h0 : 0 ≤ coord14) :
    VS.lorentz_boost_p4.k_xy_eta_tau_xy_eta_tau coord11 coord12 coord13 coord14 coord21 coord22 coord23 coord24 = VR.lorentz_boost_p4.k_xy_eta_tau_xy_eta_tau coord11 coord12 coord13 coord14 coord21 coord22 coord23 coord24 := by
  simp only [VS.lorentz_boost_p4.k_xy_eta_tau_xy_eta_tau, VR.lorentz_boost_p4.k_xy_eta_tau_xy_eta_tau, c08_lorentz_boost_p4_k_xy_z_tau_xy_eta_tau, VS.planar_x.xy_eq, VS.planar_y.xy_eq, VS.spatial_z.xy_eta_eq, h0, VR.P.nanToNum_eq]

theorem c08_lorentz_boost_p4_k_xy_eta_tau_xy_theta_t (coord11 coord12 coord13 coord14 coord21 coord22 coord23 coord24 : ℝ) (h0 : 0 ≤ coord14) :
    VS.lorentz_boost_p4.k_xy_eta_tau_xy_theta_t coord11 coord12 coord13 coord14 coord21 coord22 coord23 coord24 = VR.lorentz_boost_p4.k_xy_eta_tau_xy_theta_t coord11 coord12 coord13 coord14 coord21 coord22 coord23 coord24 := by
  simp only [VS.lorentz_boost_p4.k_xy_eta_tau_xy_theta_t, VR.lorentz_boost_p4.k_xy_eta_tau_xy_theta_t, c08_lorentz_boost_p4_k_xy_z_tau_xy_theta_t, VS.planar_x.xy_eq, VS.planar_y.xy_eq, VS.spatial_z.xy_eta_eq, h0, VR.P.nanToNum_eq]

theorem c08_lorentz_boost_p4_k_xy_eta_tau_xy_theta_tau (coord11 coord12 coord13 coord14 coord21 coord22 coord23 coord24 : ℝ) (h0 : 0 ≤ coord14) :
    VS.lorentz_boost_p4.k_xy_eta_tau_xy_theta_tau coord11 coord12 coord13 coord14 coord21 coord22 coord23 coord24 = VR.lorentz_boost_p4.k_xy_eta_tau_xy_theta_tau coord11 coord12 coord13 coord14 coord21 coord22 coord23 coord24 := by
  simp only [VS.lorentz_boost_p4.k_xy_eta_tau_xy_theta_tau, VR.lorentz_boost_p4.k_xy_eta_tau_xy_theta_tau, c08_lorentz_boost_p4_k_xy_z_tau_xy_theta_tau, VS.planar_x.xy_eq, VS.planar_y.xy_eq, VS.spatial_z.xy_eta_eq, h0, VR.P.nanToNum_eq]

theorem c08_lorentz_boost_p4_k_xy_eta_tau_xy_z_t (coord11 coord12 coord13 coord14 coord21 coord22 coord23 coord24 : ℝ) (h0 : 0 ≤ coord14) :
    VS.lorentz_boost_p4.k_xy_eta_tau_xy_z_t coord11 coord12 coord13 coord14 coord21 coord22 coord23 coord24 = VR.lorentz_boost_p4.k_xy_eta_tau_xy_z_t coord11 coord12 coord13 coord14 coord21 coord22 coord23 coord24 := by
  simp only [VS.lorentz_boost_p4.k_xy_eta_tau_xy_z_t, VR.lorentz_boost_p4.k_xy_eta_tau_xy_z_t, c08_lorentz_boost_p4_k_xy_z_tau_xy_z_t, VS.planar_x.xy_eq, VS.planar_y.xy_eq, VS.spatial_z.xy_eta_eq, h0, VR.P.nanToNum_eq]

theorem c08_lorentz_boost_p4_k_xy_eta_tau_xy_z_tau (coord11 coord12 coord13 coord14 coord21 coord22 coord23 coord24 : ℝ) (h0 : 0 ≤ coord14) :
    VS.lorentz_boost_p4.k_xy_eta_tau_xy_z_tau coord11 coord12 coord13 coord14 coord21 coord22 coord23 coord24 = VR.lorentz_boost_p4.k_xy_eta_tau_xy_z_tau coord11 coord12 coord13 coord14 coord21 coord22 coord23 coord24 := by
  simp only [VS.lorentz_boost_p4.k_xy_eta_tau_xy_z_tau, VR.lorentz_boost_p4.k_xy_eta_tau_xy_z_tau, c08_lorentz_boost_p4_k_xy_z_tau_xy_z_tau, VS.planar_x.xy_eq, VS.planar_y.xy_eq, VS.spatial_z.xy_eta_eq, h0, VR.P.nanToNum_eq]

theorem c08_lorentz_boost_p4_k_xy_theta_tau_rhophi_eta_t (coord11 coord12 coord13 coord14 coord21 coord22 coord23 coord24 : ℝ) (h0 : 0 ≤ coord14) :
    VS.lorentz_boost_p4.k_xy_theta_tau_rhophi_eta_t coord11 coord12 coord13 coord14 coord21 coord22 coord23 coord24 = VR.lorentz_boost_p4.k_xy_theta_tau_rhophi_eta_t coord11 coord12 coord13 coord14 coord21 coord22 coord23 coord24 := by
  simp only [VS.lorentz_boost_p4.k_xy_theta_tau_rhophi_eta_t, VR.lorentz_boost_p4.k_xy_theta_tau_rhophi_eta_t, c08_lorentz_boost_p4_k_xy_z_tau_rhophi_eta_t, VS.planar_x.xy_eq, VS.planar_y.xy_eq, VS.spatial_z.xy_theta_eq, h0, VR.P.nanToNum_eq]

theorem c08_lorentz_boost_p4_k_xy_theta_tau_rhophi_eta_tau (coord11 coord12 coord13 coord14 coord21 coord22 coord23 coord24 : ℝ) (h0 : 0 ≤ coord14) :
    VS.lorentz_boost_p4.k_xy_theta_tau_rhophi_eta_tau coord11 coord12 coord13 coord14 coord21 coord22 coord23 coord24 = VR.lorentz_boost_p4.k_xy_theta_tau_rhophi_eta_tau coord11 coord12 coord13 coord14 coord21 coord22 coord23 coord24 := by
  simp only [VS.lorentz_boost_p4.k_xy_theta_tau_rhophi_eta_tau, VR.lorentz_boost_p4.k_xy_theta_tau_rhophi_eta_tau, c08_lorentz_boost_p4_k_xy_z_tau_rhophi_eta_tau, VS.planar_x.xy_eq, VS.planar_y.xy_eq, VS.spatial_z.xy_theta_eq, h0, VR.P.nanToNum_eq]

theorem c08_lorentz_boost_p4_k_xy_theta_tau_rhophi_theta_t (coord11 coord12 coord13 coord14 coord21 coord22 coord23 coord24 : ℝ) (h0 : 0 ≤ coord14) :
    VS.lorentz_boost_p4.k_xy_theta_tau_rhophi_theta_t coord11 coord12 coord13 coord14 coord21 coord22 coord23 coord24 = VR.lorentz_boost_p4.k_xy_theta_tau_rhophi_theta_t coord11 coord12 coord13 coord14 coord21 coord22 coord23 coord24 := by
  simp only [VS.lorentz_boost_p4.k_xy_theta_tau_rhophi_theta_t, VR.lorentz_boost_p4.k_xy_theta_tau_rhophi_theta_t, c08_lorentz_boost_p4_k_xy_z_tau_rhophi_theta_t, VS.planar_x.xy_eq, VS.planar_y.xy_eq, VS.spatial_z.xy_theta_eq, h0, VR.P.nanToNum_eq]

theorem c08_lorentz_boost_p4_k_xy_theta_tau_rhophi_theta_tau (coord11 coord12 coord13 coord14 coord21 coord22 coord23 coord24 : ℝ) (h0 : 0 ≤ coord14) :
    VS.lorentz_boost_p4.k_xy_theta_tau_rhophi_theta_tau coord11 coord12 coord13 coord14 coord21 coord22 coord23 coord24 = VR.lorentz_boost_p4.k_xy_theta_tau_rhophi_theta_tau coord11 coord12 coord13 coord14 coord21 coord22 coord23 coord24 := by
  simp only [VS.lorentz_boost_p4.k_xy_theta_tau_rhophi_theta_tau, VR.lorentz_boost_p4.k_xy_theta_tau_rhophi_theta_tau, c08_lorentz_boost_p4_k_xy_z_tau_rhophi_theta_tau, VS.planar_x.xy_eq, VS.planar_y.xy_eq, VS.spatial_z.xy_theta_eq, h0, VR.P.nanToNum_eq]

theorem c08_lorentz_boost_p4_k_xy_theta_tau_rhophi_z_t (coord11 coord12 coord13 coord14 coord21 coord22 coord23 coord24 : ℝ) (h0 : 0 ≤ coord14) :
    VS.lorentz_boost_p4.k_xy_theta_tau_rhophi_z_t coord11 coord12 coord13 coord14 coord21 coord22 coord23 coord24 = VR.lorentz_boost_p4.k_xy_theta_tau_rhophi_z_t coord11 coord12 coord13 coord14 coord21 coord22 coord23 coord24 := by
  simp only [VS.lorentz_boost_p4.k_xy_theta_tau_rhophi_z_t, VR.lorentz_boost_p4.k_xy_theta_tau_rhophi_z_t, c08_lorentz_boost_p4_k_xy_z_tau_rhophi_z_t, VS.planar_x.xy_eq, VS.planar_y.xy_eq, VS.spatial_z.xy_theta_eq, h0, VR.P.nanToNum_eq]

theorem c08_lorentz_boost_p4_k_xy_theta_tau_rhophi_z_tau (coord11 coord12 coord13 coord14 coord21 coord22 coord23 coord24 : ℝ) (h0 : 0 ≤ coord14) :
    VS.lorentz_boost_p4.k_xy_theta_tau_rhophi_z_tau coord11 coord12 coord13 coord14 coord21 coord22 coord23 coord24 = VR.lorentz_boost_p4.k_xy_theta_tau_rhophi_z_tau coord11 coord12 coord13 coord14 coord21 coord22 coord23 coord24 := by
  simp only [VS.lorentz_boost_p4.k_xy_theta_tau_rhophi_z_tau, VR.lorentz_boost_p4.k_xy_theta_tau_rhophi_z_tau, c08_lorentz_boost_p4_k_xy_z_tau_rhophi_z_tau, VS.planar_x.xy_eq, VS.planar_y.xy_eq, VS.spatial_z.xy_theta_eq, h0, VR.P.nanToNum_eq]

theorem c08_lorentz_boost_p4_k_xy_theta_tau_xy_eta_t (coord11 coord12 coord13 coord14 coord21 coord22 coord23 coord24 : ℝ) (h0 : 0 ≤ coord14) :
    VS.lorentz_boost_p4.k_xy_theta_tau_xy_eta_t coord11 coord12 coord13 coord14 coord21 coord22 coord23 coord24 = VR.lorentz_boost_p4.k_xy_theta_tau_xy_eta_t coord11 coord12 coord13 coord14 coord21 coord22 coord23 coord24 := by
  simp only [VS.lorentz_boost_p4.k_xy_theta_tau_xy_eta_t, VR.lorentz_boost_p4.k_xy_theta_tau_xy_eta_t, c08_lorentz_boost_p4_k_xy_z_tau_xy_eta_t, VS.planar_x.xy_eq, VS.planar_y.xy_eq, VS.spatial_z.xy_theta_eq, h0, VR.P.nanToNum_eq]

theorem c08_lorentz_boost_p4_k_xy_theta_tau_xy_eta_tau (coord11 coord12 coord13 coord14 coord21 coord22 coord23 coord24 : ℝ) (h0 : 0 ≤ coord14) :
    VS.lorentz_boost_p4.k_xy_theta_tau_xy_eta_tau coord11 coord12 coord13 coord14 coord21 coord22 coord23 coord24 = VR.lorentz_boost_p4.k_xy_theta_tau_xy_eta_tau coord11 coord12 coord13 coord14 coord21 coord22 coord23 coord24 := by
  simp only [VS.lorentz_boost_p4.k_xy_theta_tau_xy_eta_tau, VR.lorentz_boost_p4.k_xy_theta_tau_xy_eta_tau, c08_lorentz_boost_p4_k_xy_z_tau_xy_eta_tau, VS.planar_x.xy_eq, VS.planar_y.xy_eq, VS.spatial_z.xy_theta_eq, h0, VR.P.nanToNum_eq]

theorem c08_lorentz_boost_p4_k_xy_theta_tau_xy_theta_t (coord11 coord12 coord13 coord14 coord21 coord22 coord23 coord24 : ℝ) (h0 : 0 ≤ coord14) :
    VS.lorentz_boost_p4.k_xy_theta_tau_xy_theta_t coord11 coord12 coord13 coord14 coord21 coord22 coord23 coord24 = VR.lorentz_boost_p4.k_xy_theta_tau_xy_theta_t coord11 coord12 coord13 coord14 coord21 coord22 coord23 coord24 := by
  simp only [VS.lorentz_boost_p4.k_xy_theta_tau_xy_theta_t, VR.lorentz_boost_p4.k_xy_theta_tau_xy_theta_t, c08_lorentz_boost_p4_k_xy_z_tau_xy_theta_t, VS.planar_x.xy_eq, VS.planar_y.xy_eq, VS.spatial_z.xy_theta_eq, h0, VR.P.nanToNum_eq]

theorem c08_lorentz_boost_p4_k_xy_theta_tau_xy_theta_tau (coord11 coord12 coord13 coord14 coord21 coord22 coord23 coord24 : ℝ) (h0 : 0 ≤ coord14) :
    VS.lorentz_boost_p4.k_xy_theta_tau_xy_theta_tau coord11 coord12 coord13 coord14 coord21 coord22 coord23 coord24 = VR.lorentz_boost_p4.k_xy_theta_tau_xy_theta_tau coord11 coord12 coord13 coord14 coord21 coord22 coord23 coord24 := by
  simp only [VS.lorentz_boost_p4.k_xy_theta_tau_xy_theta_tau, VR.lorentz_boost_p4.k_xy_theta_tau_xy_theta_tau, c08_lorentz_boost_p4_k_xy_z_tau_xy_theta_tau, VS.planar_x.xy_eq, VS.planar_y.xy_eq, VS.spatial_z.xy_theta_eq, h0, VR.P.nanToNum_eq]

theorem c08_lorentz_boost_p4_k_xy_theta_tau_xy_z_t (coord11 coord12 coord13 coord14 coord21 coord22 coord23 coord24 : ℝ) (h0 : 0 ≤ coord14) :
    VS.lorentz_boost_p4.k_xy_theta_tau_xy_z_t coord11 coord12 coord13 coord14 coord21 coord22 coord23 coord24 = VR.lorentz_boost_p4.k_xy_theta_tau_xy_z_t coord11 coord12 coord13 coord14 coord21 coord22 coord23 coord24 := by
  simp only [VS.lorentz_boost_p4.k_xy_theta_tau_xy_z_t, VR.lorentz_boost_p4.k_xy_theta_tau_xy_z_t, c08_lorentz_boost_p4_k_xy_z_tau_xy_z_t, VS.planar_x.xy_eq, VS.planar_y.xy_eq, VS.spatial_z.xy_theta_eq, h0, VR.P.nanToNum_eq]

theorem c08_lorentz_boost_p4_k_xy_theta_tau_xy_z_tau (coord11 coord12 coord13 coord14 coord21 coord22 coord23 coord24 : ℝ) (h0 : 0 ≤ coord14) :
    VS.lorentz_boost_p4.k_xy_theta_tau_xy_z_tau coord11 coord12 coord13 coord14 coord21 coord22 coord23 coord24 = VR.lorentz_boost_p4.k_xy_theta_tau_xy_z_tau coord11 coord12 coord13 coord14 coord21 coord22 coord23 coord24 := by
  simp only [VS.lorentz_boost_p4.k_xy_theta_tau_xy_z_tau, VR.lorentz_boost_p4.k_xy_theta_tau_xy_z_tau, c08_lorentz_boost_p4_k_xy_z_tau_xy_z_tau, VS.planar_x.xy_eq, VS.planar_y.xy_eq, VS.spatial_z.xy_theta_eq, h0, VR.P.nanToNum_eq]


/-! ### `lorentz_dot` -/

theorem c08_lorentz_dot_k_rhophi_eta_t_rhophi_eta_tau (coord11 coord12 coord13 coord14 coord21 coord22 coord23 coord24 : ℝ) (h0 : 0 ≤ coord24) :
    VS.lorentz_dot.k_rhophi_eta_t_rhophi_eta_tau coord11 coord12 coord13 coord14 coord21 coord22 coord23 coord24 = VR.lorentz_dot.k_rhophi_eta_t_rhophi_eta_tau coord11 coord12 coord13 coord14 coord21 coord22 coord23 coord24 := by
  simp only [VS.lorentz_dot.k_rhophi_eta_t_rhophi_eta_tau, VR.lorentz_dot.k_rhophi_eta_t_rhophi_eta_tau, VS.lorentz_t.rhophi_eta_t_eq, c08_lorentz_t_rhophi_eta_tau, VS.spatial_dot.rhophi_eta_rhophi_eta_eq, h0, VR.P.nanToNum_eq]

theorem c08_lorentz_dot_k_rhophi_eta_t_rhophi_theta_tau (coord11 coord12 coord13 coord14 coord21 coord22 coord23 coord24 : ℝ) (h0 : 0 ≤ coord24) :
    VS.lorentz_dot.k_rhophi_eta_t_rhophi_theta_tau coord11 coord12 coord13 coord14 coord21 coord22 coord23 coord24 = VR.lorentz_dot.k_rhophi_eta_t_rhophi_theta_tau coord11 coord12 coord13 coord14 coord21 coord22 coord23 coord24 := by
  simp only [VS.lorentz_dot.k_rhophi_eta_t_rhophi_theta_tau, VR.lorentz_dot.k_rhophi_eta_t_rhophi_theta_tau, VS.lorentz_t.rhophi_eta_t_eq, c08_lorentz_t_rhophi_theta_tau, VS.spatial_dot.rhophi_eta_rhophi_theta_eq, h0, VR.P.nanToNum_eq]

theorem c08_lorentz_dot_k_rhophi_eta_t_rhophi_z_tau (coord11 coord12 coord13 coord14 coord21 coord22 coord23 coord24 : ℝ) (h0 : 0 ≤ coord24) :
    VS.lorentz_dot.k_rhophi_eta_t_rhophi_z_tau coord11 coord12 coord13 coord14 coord21 coord22 coord23 coord24 = VR.lorentz_dot.k_rhophi_eta_t_rhophi_z_tau coord11 coord12 coord13 coord14 coord21 coord22 coord23 coord24 := by
  simp only [VS.lorentz_dot.k_rhophi_eta_t_rhophi_z_tau, VR.lorentz_dot.k_rhophi_eta_t_rhophi_z_tau, VS.lorentz_t.rhophi_eta_t_eq, c08_lorentz_t_rhophi_z_tau, VS.spatial_dot.rhophi_eta_rhophi_z_eq, h0, VR.P.nanToNum_eq]

theorem c08_lorentz_dot_k_rhophi_eta_t_xy_eta_tau (coord11 coord12 coord13 coord14 coord21 coord22 coord23 coord24 : ℝ) (h0 : 0 ≤ coord24) :
    VS.lorentz_dot.k_rhophi_eta_t_xy_eta_tau coord11 coord12 coord13 coord14 coord21 coord22 coord23 coord24 = VR.lorentz_dot.k_rhophi_eta_t_xy_eta_tau coord11 coord12 coord13 coord14 coord21 coord22 coord23 coord24 := by
  simp only [VS.lorentz_dot.k_rhophi_eta_t_xy_eta_tau, VR.lorentz_dot.k_rhophi_eta_t_xy_eta_tau, VS.lorentz_t.rhophi_eta_t_eq, c08_lorentz_t_xy_eta_tau, VS.spatial_dot.rhophi_eta_xy_eta_eq, h0, VR.P.nanToNum_eq]

theorem c08_lorentz_dot_k_rhophi_eta_t_xy_theta_tau (coord11 coord12 coord13 coord14 coord21 coord22 coord23 coord24 : ℝ) (h0 : 0 ≤ coord24) :
    VS.lorentz_dot.k_rhophi_eta_t_xy_theta_tau coord11 coord12 coord13 coord14 coord21 coord22 coord23 coord24 = VR.lorentz_dot.k_rhophi_eta_t_xy_theta_tau coord11 coord12 coord13 coord14 coord21 coord22 coord23 coord24 := by
  simp only [VS.lorentz_dot.k_rhophi_eta_t_xy_theta_tau, VR.lorentz_dot.k_rhophi_eta_t_xy_theta_tau, VS.lorentz_t.rhophi_eta_t_eq, c08_lorentz_t_xy_theta_tau, VS.spatial_dot.rhophi_eta_xy_theta_eq, h0, VR.P.nanToNum_eq]

theorem c08_lorentz_dot_k_rhophi_eta_t_xy_z_tau (coord11 coord12 coord13 coord14 coord21 coord22 coord23 coord24 : ℝ) (h0 : 0 ≤ coord24) :
    VS.lorentz_dot.k_rhophi_eta_t_xy_z_tau coord11 coord12 coord13 coord14 coord21 coord22 coord23 coord24 = VR.lorentz_dot.k_rhophi_eta_t_xy_z_tau coord11 coord12 coord13 coord14 coord21 coord22 coord23 coord24 := by
  simp only [VS.lorentz_dot.k_rhophi_eta_t_xy_z_tau, VR.lorentz_dot.k_rhophi_eta_t_xy_z_tau, VS.lorentz_t.rhophi_eta_t_eq, c08_lorentz_t_xy_z_tau, VS.spatial_dot.rhophi_eta_xy_z_eq, h0, VR.P.nanToNum_eq]

theorem c08_lorentz_dot_k_rhophi_eta_tau_rhophi_eta_t (coord11 coord12 coord13 coord14 coord21 coord22 coord23 coord24 : ℝ) (h0 : 0 ≤ coord14) :
    VS.lorentz_dot.k_rhophi_eta_tau_rhophi_eta_t coord11 coord12 coord13 coord14 coord21 coord22 coord23 coord24 = VR.lorentz_dot.k_rhophi_eta_tau_rhophi_eta_t coord11 coord12 coord13 coord14 coord21 coord22 coord23 coord24 := by
  simp only [VS.lorentz_dot.k_rhophi_eta_tau_rhophi_eta_t, VR.lorentz_dot.k_rhophi_eta_tau_rhophi_eta_t, c08_lorentz_t_rhophi_eta_tau, VS.lorentz_t.rhophi_eta_t_eq, VS.spatial_dot.rhophi_eta_rhophi_eta_eq, h0, VR.P.nanToNum_eq]

theorem c08_lorentz_dot_k_rhophi_eta_tau_rhophi_eta_tau (coord11 coord12 coord13 coord14 coord21 coord22 coord23 coord24 : ℝ) (h0 : 0 ≤ coord14) (h1 : 0 ≤ coord24) :
    VS.lorentz_dot.k_rhophi_eta_tau_rhophi_eta_tau coord11 coord12 coord13 coord14 coord21 coord22 coord23 coord24 = VR.lorentz_dot.k_rhophi_eta_tau_rhophi_eta_tau coord11 coord12 coord13 coord14 coord21 coord22 coord23 coord24 := by
  simp only [VS.lorentz_dot.k_rhophi_eta_tau_rhophi_eta_tau, VR.lorentz_dot.k_rhophi_eta_tau_rhophi_eta_tau, c08_lorentz_t_rhophi_eta_tau, VS.spatial_dot.rhophi_eta_rhophi_eta_eq, h0, h1, VR.P.nanToNum_eq]

theorem c08_lorentz_dot_k_rhophi_eta_tau_rhophi_theta_t (coord11 coord12 coord13 coord14 coord21 coord22 coord23 coord24 : ℝ) (h0 : 0 ≤ coord14) :
    VS.lorentz_dot.k_rhophi_eta_tau_rhophi_theta_t coord11 coord12 coord13 coord14 coord21 coord22 coord23 coord24 = VR.lorentz_dot.k_rhophi_eta_tau_rhophi_theta_t coord11 coord12 coord13 coord14 coord21 coord22 coord23 coord24 := by
  simp only [VS.lorentz_dot.k_rhophi_eta_tau_rhophi_theta_t, VR.lorentz_dot.k_rhophi_eta_tau_rhophi_theta_t, c08_lorentz_t_rhophi_eta_tau, VS.lorentz_t.rhophi_theta_t_eq, VS.spatial_dot.rhophi_eta_rhophi_theta_eq, h0, VR.P.nanToNum_eq]

theorem c08_lorentz_dot_k_rhophi_eta_tau_rhophi_theta_tau (coord11 coord12 coord13 coord14 coord21 coord22 coord23 coord24 : ℝ) (h0 : 0 ≤ coord14) (h1 : 0 ≤ coord24) :
    VS.lorentz_dot.k_rhophi_eta_tau_rhophi_theta_tau coord11 coord12 coord13 coord14 coord21 coord22 coord23 coord24 = VR.lorentz_dot.k_rhophi_eta_tau_rhophi_theta_tau coord11 coord12 coord13 coord14 coord21 coord22 coord23 coord24 := by
  simp only [VS.lorentz_dot.k_rhophi_eta_tau_rhophi_theta_tau, VR.lorentz_dot.k_rhophi_eta_tau_rhophi_theta_tau, c08_lorentz_t_rhophi_eta_tau, c08_lorentz_t_rhophi_theta_tau, VS.spatial_dot.rhophi_eta_rhophi_theta_eq, h0, h1, VR.P.nanToNum_eq]

theorem c08_lorentz_dot_k_rhophi_eta_tau_rhophi_z_t (coord11 coord12 coord13 coord14 coord21 coord22 coord23 coord24 : ℝ) (h0 : 0 ≤ coord14) :
    VS.lorentz_dot.k_rhophi_eta_tau_rhophi_z_t coord11 coord12 coord13 coord14 coord21 coord22 coord23 coord24 = VR.lorentz_dot.k_rhophi_eta_tau_rhophi_z_t coord11 coord12 coord13 coord14 coord21 coord22 coord23 coord24 := by
  simp only [VS.lorentz_dot.k_rhophi_eta_tau_rhophi_z_t, VR.lorentz_dot.k_rhophi_eta_tau_rhophi_z_t, c08_lorentz_t_rhophi_eta_tau, VS.lorentz_t.rhophi_z_t_eq, VS.spatial_dot.rhophi_eta_rhophi_z_eq, h0, VR.P.nanToNum_eq]

theorem c08_lorentz_dot_k_rhophi_eta_tau_rhophi_z_tau (coord11 coord12 coord13 coord14 coord21 coord22 coord23 coord24 : ℝ) (h0 : 0 ≤ coord24) (h1 : 0 ≤ coord14) :
    VS.lorentz_dot.k_rhophi_eta_tau_rhophi_z_tau coord11 coord12 coord13 coord14 coord21 coord22 coord23 coord24 = VR.lorentz_dot.k_rhophi_eta_tau_rhophi_z_tau coord11 coord12 coord13 coord14 coord21 coord22 coord23 coord24 := by
  simp only [VS.lorentz_dot.k_rhophi_eta_tau_rhophi_z_tau, VR.lorentz_dot.k_rhophi_eta_tau_rhophi_z_tau, c08_lorentz_t_rhophi_eta_tau, c08_lorentz_t_rhophi_z_tau, VS.spatial_dot.rhophi_eta_rhophi_z_eq, h0, h1, VR.P.nanToNum_eq]

theorem c08_lorentz_dot_k_rhophi_eta_tau_xy_eta_t (coord11 coord12 coord13 coord14 coord21 coord22 coord23 coord24 : ℝ) (h0 : 0 ≤ coord14) :
    VS.lorentz_dot.k_rhophi_eta_tau_xy_eta_t coord11 coord12 coord13 coord14 coord21 coord22 coord23 coord24 = VR.lorentz_dot.k_rhophi_eta_tau_xy_eta_t coord11 coord12 coord13 coord14 coord21 coord22 coord23 coord24 := by
  simp only [VS.lorentz_dot.k_rhophi_eta_tau_xy_eta_t, VR.lorentz_dot.k_rhophi_eta_tau_xy_eta_t, c08_lorentz_t_rhophi_eta_tau, VS.lorentz_t.xy_eta_t_eq, VS.spatial_dot.rhophi_eta_xy_eta_eq, h0, VR.P.nanToNum_eq]

theorem c08_lorentz_dot_k_rhophi_eta_tau_xy_eta_tau (coord11 coord12 coord13 coord14 coord21 coord22 coord23 coord24 : ℝ) (h0 : 0 ≤ coord24) (h1 : 0 ≤ coord14) :
    VS.lorentz_dot.k_rhophi_eta_tau_xy_eta_tau coord11 coord12 coord13 coord14 coord21 coord22 coord23 coord24 = VR.lorentz_dot.k_rhophi_eta_tau_xy_eta_tau coord11 coord12 coord13 coord14 coord21 coord22 coord23 coord24 := by
  simp only [VS.lorentz_dot.k_rhophi_eta_tau_xy_eta_tau, VR.lorentz_dot.k_rhophi_eta_tau_xy_eta_tau, c08_lorentz_t_rhophi_eta_tau, c08_lorentz_t_xy_eta_tau, VS.spatial_dot.rhophi_eta_xy_eta_eq, h0, h1, VR.P.nanToNum_eq]

theorem c08_lorentz_dot_k_rhophi_eta_tau_xy_theta_t (coord11 coord12 coord13 coord14 coord21 coord22 coord23 coord24 : ℝ) (h0 : 0 ≤ coord14) :
    VS.lorentz_dot.k_rhophi_eta_tau_xy_theta_t coord11 coord12 coord13 coord14 coord21 coord22 coord23 coord24 = VR.lorentz_dot.k_rhophi_eta_tau_xy_theta_t coord11 coord12 coord13 coord14 coord21 coord22 coord23 coord24 := by
  simp only [VS.lorentz_dot.k_rhophi_eta_tau_xy_theta_t, VR.lorentz_dot.k_rhophi_eta_tau_xy_theta_t, c08_lorentz_t_rhophi_eta_tau, VS.lorentz_t.xy_theta_t_eq, VS.spatial_dot.rhophi_eta_xy_theta_eq, h0, VR.P.nanToNum_eq]

theorem c08_lorentz_dot_k_rhophi_eta_tau_xy_theta_tau (coord11 coord12 coord13 coord14 coord21 coord22 coord23 coord24 : ℝ) (h0 : 0 ≤ coord24) (h1 : 0 ≤ coord14) :
    VS.lorentz_dot.k_rhophi_eta_tau_xy_theta_tau coord11 coord12 coord13 coord14 coord21 coord22 coord23 coord24 = VR.lorentz_dot.k_rhophi_eta_tau_xy_theta_tau coord11 coord12 coord13 coord14 coord21 coord22 coord23 coord24 := by
  simp only [VS.lorentz_dot.k_rhophi_eta_tau_xy_theta_tau, VR.lorentz_dot.k_rhophi_eta_tau_xy_theta_tau, c08_lorentz_t_rhophi_eta_tau, c08_lorentz_t_xy_theta_tau, VS.spatial_dot.rhophi_eta_xy_theta_eq, h0, h1, VR.P.nanToNum_eq]

theorem c08_lorentz_dot_k_rhophi_eta_tau_xy_z_t (coord11 coord12 coord13 coord14 coord21 coord22 coord23 coord24 : ℝ) (h0 : 0 ≤ coord14) :
    VS.lorentz_dot.k_rhophi_eta_tau_xy_z_t coord11 coord12 coord13 coord14 coord21 coord22 coord23 coord24 = VR.lorentz_dot.k_rhophi_eta_tau_xy_z_t coord11 coord12 coord13 coord14 coord21 coord22 coord23 coord24 := by
  simp only [VS.lorentz_dot.k_rhophi_eta_tau_xy_z_t, VR.lorentz_dot.k_rhophi_eta_tau_xy_z_t, c08_lorentz_t_rhophi_eta_tau, VS.lorentz_t.xy_z_t_eq, VS.spatial_dot.rhophi_eta_xy_z_eq, h0, VR.P.nanToNum_eq]

theorem c08_lorentz_dot_k_rhophi_eta_tau_xy_z_tau (coord11 coord12 coord13 coord14 coord21 coord22 coord23 coord24 : ℝ) (h0 : 0 ≤ coord14) (h1 : 0 ≤ coord24) :
    VS.lorentz_dot.k_rhophi_eta_tau_xy_z_tau coord11 coord12 coord13 coord14 coord21 coord22 coord23 coord24 = VR.lorentz_dot.k_rhophi_eta_tau_xy_z_tau coord11 coord12 coord13 coord14 coord21 coord22 coord23 coord24 := by
  simp only [VS.lorentz_dot.k_rhophi_eta_tau_xy_z_tau, VR.lorentz_dot.k_rhophi_eta_tau_xy_z_tau, c08_lorentz_t_rhophi_eta_tau, c08_lorentz_t_xy_z_tau, VS.spatial_dot.rhophi_eta_xy_z_eq, h0, h1, VR.P.nanToNum_eq]

theorem c08_lorentz_dot_k_rhophi_theta_t_rhophi_eta_tau (coord11 coord12 coord13 coord14 coord21 coord22 coord23 coord24 : ℝ) (h0 : 0 ≤ coord24) :
    VS.lorentz_dot.k_rhophi_theta_t_rhophi_eta_tau coord11 coord12 coord13 coord14 coord21 coord22 coord23 coord24 = VR.lorentz_dot.k_rhophi_theta_t_rhophi_eta_tau coord11 coord12 coord13 coord14 coord21 coord22 coord23 coord24 := by
  simp only [VS.lorentz_dot.k_rhophi_theta_t_rhophi_eta_tau, VR.lorentz_dot.k_rhophi_theta_t_rhophi_eta_tau, VS.lorentz_t.rhophi_theta_t_eq, c08_lorentz_t_rhophi_eta_tau, VS.spatial_dot.rhophi_theta_rhophi_eta_eq, h0, VR.P.nanToNum_eq]

theorem c08_lorentz_dot_k_rhophi_theta_t_rhophi_theta_tau (coord11 coord12 coord13 coord14 coord21 coord22 coord23 coord24 : ℝ) (h0 : 0 ≤ coord24) :
    VS.lorentz_dot.k_rhophi_theta_t_rhophi_theta_tau coord11 coord12 coord13 coord14 coord21 coord22 coord23 coord24 = VR.lorentz_dot.k_rhophi_theta_t_rhophi_theta_tau coord11 coord12 coord13 coord14 coord21 coord22 coord23 coord24 := by
  simp only [VS.lorentz_dot.k_rhophi_theta_t_rhophi_theta_tau, VR.lorentz_dot.k_rhophi_theta_t_rhophi_theta_tau, VS.lorentz_t.rhophi_theta_t_eq, c08_lorentz_t_rhophi_theta_tau, VS.spatial_dot.rhophi_theta_rhophi_theta_eq, h0, VR.P.nanToNum_eq]

theorem c08_lorentz_dot_k_rhophi_theta_t_rhophi_z_tau (coord11 coord12 coord13 coord14 coord21 coord22 coord23 coord24 : ℝ) (h0 : 0 ≤ coord24) :
    VS.lorentz_dot.k_rhophi_theta_t_rhophi_z_tau coord11 coord12 coord13 coord14 coord21 coord22 coord23 coord24 = VR.lorentz_dot.k_rhophi_theta_t_rhophi_z_tau coord11 coord12 coord13 coord14 coord21 coord22 coord23 coord24 := by
  simp only [VS.lorentz_dot.k_rhophi_theta_t_rhophi_z_tau, VR.lorentz_dot.k_rhophi_theta_t_rhophi_z_tau, VS.lorentz_t.rhophi_theta_t_eq, c08_lorentz_t_rhophi_z_tau, VS.spatial_dot.rhophi_theta_rhophi_z_eq, h0, VR.P.nanToNum_eq]

theorem c08_lorentz_dot_k_rhophi_theta_t_xy_eta_tau (coord11 coord12 coord13 coord14 coord21 coord22 coord23 coord24 : ℝ) (h0 : 0 ≤ coord24) :
    VS.lorentz_dot.k_rhophi_theta_t_xy_eta_tau coord11 coord12 coord13 coord14 coord21 coord22 coord23 coord24 = VR.lorentz_dot.k_rhophi_theta_t_xy_eta_tau coord11 coord12 coord13 coord14 coord21 coord22 coord23 coord24 := by
  simp only [VS.lorentz_dot.k_rhophi_theta_t_xy_eta_tau, VR.lorentz_dot.k_rhophi_theta_t_xy_eta_tau, VS.lorentz_t.rhophi_theta_t_eq, c08_lorentz_t_xy_eta_tau, VS.spatial_dot.rhophi_theta_xy_eta_eq, h0, VR.P.nanToNum_eq]

theorem c08_lorentz_dot_k_rhophi_theta_t_xy_theta_tau (coord11 coord12 coord13 coord14 coord21 coord22 coord23 coord24 : ℝ) (h0 : 0 ≤ coord24) :
    VS.lorentz_dot.k_rhophi_theta_t_xy_theta_tau coord11 coord12 coord13 coord14 coord21 coord22 coord23 coord24 = VR.lorentz_dot.k_rhophi_theta_t_xy_theta_tau coord11 coord12 coord13 coord14 coord21 coord22 coord23 coord24 := by
  simp only [VS.lorentz_dot.k_rhophi_theta_t_xy_theta_tau, VR.lorentz_dot.k_rhophi_theta_t_xy_theta_tau, VS.lorentz_t.rhophi_theta_t_eq, c08_lorentz_t_xy_theta_tau, VS.spatial_dot.rhophi_theta_xy_theta_eq, h0, VR.P.nanToNum_eq]

theorem c08_lorentz_dot_k_rhophi_theta_t_xy_z_tau (coord11 coord12 coord13 coord14 coord21 coord22 coord23 coord24 : ℝ) (h0 : 0 ≤ coord24) :
    VS.lorentz_dot.k_rhophi_theta_t_xy_z_tau coord11 coord12 coord13 coord14 coord21 coord22 coord23 coord24 = VR.lorentz_dot.k_rhophi_theta_t_xy_z_tau coord11 coord12 coord13 coord14 coord21 coord22 coord23 coord24 := by
  simp only [VS.lorentz_dot.k_rhophi_theta_t_xy_z_tau, VR.lorentz_dot.k_rhophi_theta_t_xy_z_tau, VS.lorentz_t.rhophi_theta_t_eq, c08_lorentz_t_xy_z_tau, VS.spatial_dot.rhophi_theta_xy_z_eq, h0, VR.P.nanToNum_eq]

theorem c08_lorentz_dot_k_rhophi_theta_tau_rhophi_eta_t (coord11 coord12 coord13 coord14 coord21 coord22 coord23 coord24 : ℝ) (h0 : 0 ≤ coord14) :
    VS.lorentz_dot.k_rhophi_theta_tau_rhophi_eta_t coord11 coord12 coord13 coord14 coord21 coord22 coord23 coord24 = VR.lorentz_dot.k_rhophi_theta_tau_rhophi_eta_t coord11 coord12 coord13 coord14 coord21 coord22 coord23 coord24 := by
  simp only [VS.lorentz_dot.k_rhophi_theta_tau_rhophi_eta_t, VR.lorentz_dot.k_rhophi_theta_tau_rhophi_eta_t, c08_lorentz_t_rhophi_theta_tau, VS.lorentz_t.rhophi_eta_t_eq, VS.spatial_dot.rhophi_theta_rhophi_eta_eq, h0, VR.P.nanToNum_eq]

theorem c08_lorentz_dot_k_rhophi_theta_tau_rhophi_eta_tau (coord11 coord12 coord13 coord14 coord21 coord22 coord23 coord24 : ℝ) (h0 : 0 ≤ coord14) (h1 : 0 ≤ coord24) :
    VS.lorentz_dot.k_rhophi_theta_tau_rhophi_eta_tau coord11 coord12 coord13 coord14 coord21 coord22 coord23 coord24 = VR.lorentz_dot.k_rhophi_theta_tau_rhophi_eta_tau coord11 coord12 coord13 coord14 coord21 coord22 coord23 coord24 := by
  simp only [VS.lorentz_dot.k_rhophi_theta_tau_rhophi_eta_tau, VR.lorentz_dot.k_rhophi_theta_tau_rhophi_eta_tau, c08_lorentz_t_rhophi_theta_tau, c08_lorentz_t_rhophi_eta_tau, VS.spatial_dot.rhophi_theta_rhophi_eta_eq, h0, h1, VR.P.nanToNum_eq]

theorem c08_lorentz_dot_k_rhophi_theta_tau_rhophi_theta_t (coord11 coord12 coord13 coord14 coord21 coord22 coord23 coord24 : ℝ) (h0 : 0 ≤ coord14) :
    VS.lorentz_dot.k_rhophi_theta_tau_rhophi_theta_t coord11 coord12 coord13 coord14 coord21 coord22 coord23 coord24 = VR.lorentz_dot.k_rhophi_theta_tau_rhophi_theta_t coord11 coord12 coord13 coord14 coord21 coord22 coord23 coord24 := by
  simp only [VS.lorentz_dot.k_rhophi_theta_tau_rhophi_theta_t, VR.lorentz_dot.k_rhophi_theta_tau_rhophi_theta_t, c08_lorentz_t_rhophi_theta_tau, VS.lorentz_t.rhophi_theta_t_eq, VS.spatial_dot.rhophi_theta_rhophi_theta_eq, h0, VR.P.nanToNum_eq]

theorem c08_lorentz_dot_k_rhophi_theta_tau_rhophi_theta_tau (coord11 coord12 coord13 coord14 coord21 coord22 coord23 coord24 : ℝ) (h0 : 0 ≤ coord14) (h1 : 0 ≤ coord24) :
    VS.lorentz_dot.k_rhophi_theta_tau_rhophi_theta_tau coord11 coord12 coord13 coord14 coord21 coord22 coord23 coord24 = VR.lorentz_dot.k_rhophi_theta_tau_rhophi_theta_tau coord11 coord12 coord13 coord14 coord21 coord22 coord23 coord24 := by
  simp only [VS.lorentz_dot.k_rhophi_theta_tau_rhophi_theta_tau, VR.lorentz_dot.k_rhophi_theta_tau_rhophi_theta_tau, c08_lorentz_t_rhophi_theta_tau, VS.spatial_dot.rhophi_theta_rhophi_theta_eq, h0, h1, VR.P.nanToNum_eq]

theorem c08_lorentz_dot_k_rhophi_theta_tau_rhophi_z_t (coord11 coord12 coord13 coord14 coord21 coord22 coord23 coord24 : ℝ) (h0 : 0 ≤ coord14) :
    VS.lorentz_dot.k_rhophi_theta_tau_rhophi_z_t coord11 coord12 coord13 coord14 coord21 coord22 coord23 coord24 = VR.lorentz_dot.k_rhophi_theta_tau_rhophi_z_t coord11 coord12 coord13 coord14 coord21 coord22 coord23 coord24 := by
  simp only [VS.lorentz_dot.k_rhophi_theta_tau_rhophi_z_t, VR.lorentz_dot.k_rhophi_theta_tau_rhophi_z_t, c08_lorentz_t_rhophi_theta_tau, VS.lorentz_t.rhophi_z_t_eq, VS.spatial_dot.rhophi_theta_rhophi_z_eq, h0, VR.P.nanToNum_eq]

theorem c08_lorentz_dot_k_rhophi_theta_tau_rhophi_z_tau (coord11 coord12 coord13 coord14 coord21 coord22 coord23 coord24 : ℝ) (h0 : 0 ≤ coord14) (h1 : 0 ≤ coord24) :
    VS.lorentz_dot.k_rhophi_theta_tau_rhophi_z_tau coord11 coord12 coord13 coord14 coord21 coord22 coord23 coord24 = VR.lorentz_dot.k_rhophi_theta_tau_rhophi_z_tau coord11 coord12 coord13 coord14 coord21 coord22 coord23 coord24 := by
  simp only [VS.lorentz_dot.k_rhophi_theta_tau_rhophi_z_tau, VR.lorentz_dot.k_rhophi_theta_tau_rhophi_z_tau, c08_lorentz_t_rhophi_theta_tau, c08_lorentz_t_rhophi_z_tau, VS.spatial_dot.rhophi_theta_rhophi_z_eq, h0, h1, VR.P.nanToNum_eq]

theorem c08_lorentz_dot_k_rhophi_theta_tau_xy_eta_t (coord11 coord12 coord13 coord14 coord21 coord22 coord23 coord24 : ℝ) (h0 : 0 ≤ coord14) :
    VS.lorentz_dot.k_rhophi_theta_tau_xy_eta_t coord11 coord12 coord13 coord14 coord21 coord22 coord23 coord24 = VR.lorentz_dot.k_rhophi_theta_tau_xy_eta_t coord11 coord12 coord13 coord14 coord21 coord22 coord23 coord24 := by
  simp only [VS.lorentz_dot.k_rhophi_theta_tau_xy_eta_t, VR.lorentz_dot.k_rhophi_theta_tau_xy_eta_t, c08_lorentz_t_rhophi_theta_tau, VS.lorentz_t.xy_eta_t_eq, VS.spatial_dot.rhophi_theta_xy_eta_eq, h0, VR.P.nanToNum_eq]

theorem c08_lorentz_dot_k_rhophi_theta_tau_xy_eta_tau (coord11 coord12 coord13 coord14 coord21 coord22 coord23 coord24 : ℝ) (h0 : 0 ≤ coord14) (h1 : 0 ≤ coord24) :
    VS.lorentz_dot.k_rhophi_theta_tau_xy_eta_tau coord11 coord12 coord13 coord14 coord21 coord22 coord23 coord24 = VR.lorentz_dot.k_rhophi_theta_tau_xy_eta_tau coord11 coord12 coord13 coord14 coord21 coord22 coord23 coord24 := by
  simp only [VS.lorentz_dot.k_rhophi_theta_tau_xy_eta_tau, VR.lorentz_dot.k_rhophi_theta_tau_xy_eta_tau, c08_lorentz_t_rhophi_theta_tau, c08_lorentz_t_xy_eta_tau, VS.spatial_dot.rhophi_theta_xy_eta_eq, h0, h1, VR.P.nanToNum_eq]

theorem c08_lorentz_dot_k_rhophi_theta_tau_xy_theta_t (coord11 coord12 coord13 coord14 coord21 coord22 coord23 coord24 : ℝ) (h0 : 0 ≤ coord14) :
    VS.lorentz_dot.k_rhophi_theta_tau_xy_theta_t coord11 coord12 coord13 coord14 coord21 coord22 coord23 coord24 = VR.lorentz_dot.k_rhophi_theta_tau_xy_theta_t coord11 coord12 coord13 coord14 coord21 coord22 coord23 coord24 := by
  simp only [VS.lorentz_dot.k_rhophi_theta_tau_xy_theta_t, VR.lorentz_dot.k_rhophi_theta_tau_xy_theta_t, c08_lorentz_t_rhophi_theta_tau, VS.lorentz_t.xy_theta_t_eq, VS.spatial_dot.rhophi_theta_xy_theta_eq, h0, VR.P.nanToNum_eq]

theorem c08_lorentz_dot_k_rhophi_theta_tau_xy_theta_tau (coord11 coord12 coord13 coord14 coord21 coord22 coord23 coord24 : ℝ) (h0 : 0 ≤ coord14) (h1 : 0 ≤ coord24) :
    VS.lorentz_dot.k_rhophi_theta_tau_xy_theta_tau coord11 coord12 coord13 coord14 coord21 coord22 coord23 coord24 = VR.lorentz_dot.k_rhophi_theta_tau_xy_theta_tau coord11 coord12 coord13 coord14 coord21 coord22 coord23 coord24 := by
  simp only [VS.lorentz_dot.k_rhophi_theta_tau_xy_theta_tau, VR.lorentz_dot.k_rhophi_theta_tau_xy_theta_tau, c08_lorentz_t_rhophi_theta_tau, c08_lorentz_t_xy_theta_tau, VS.spatial_dot.rhophi_theta_xy_theta_eq, h0, h1, VR.P.nanToNum_eq]

theorem c08_lorentz_dot_k_rhophi_theta_tau_xy_z_t (coord11 coord12 coord13 coord14 coord21 coord22 coord23 coord24 : ℝ) (h0 : 0 ≤ coord14) :
    VS.lorentz_dot.k_rhophi_theta_tau_xy_z_t coord11 coord12 coord13 coord14 coord21 coord22 coord23 coord24 = VR.lorentz_dot.k_rhophi_theta_tau_xy_z_t coord11 coord12 coord13 coord14 coord21 coord22 coord23 coord24 := by
  simp only [VS.lorentz_dot.k_rhophi_theta_tau_xy_z_t, VR.lorentz_dot.k_rhophi_theta_tau_xy_z_t, c08_lorentz_t_rhophi_theta_tau, VS.lorentz_t.xy_z_t_eq, VS.spatial_dot.rhophi_theta_xy_z_eq, h0, VR.P.nanToNum_eq]

theorem c08_lorentz_dot_k_rhophi_theta_tau_xy_z_tau (coord11 coord12 coord13 coord14 coord21 coord22 coord23 coord24 : ℝ) (h0 : 0 ≤ coord14) (h1 : 0 ≤ coord24) :
    VS.lorentz_dot.k_rhophi_theta_tau_xy_z_tau coord11 coord12 coord13 coord14 coord21 coord22 coord23 coord24 = VR.lorentz_dot.k_rhophi_theta_tau_xy_z_tau coord11 coord12 coord13 coord14 coord21 coord22 coord23 coord24 := by
  simp only [VS.lorentz_dot.k_rhophi_theta_tau_xy_z_tau, VR.lorentz_dot.k_rhophi_theta_tau_xy_z_tau, c08_lorentz_t_rhophi_theta_tau, c08_lorentz_t_xy_z_tau, VS.spatial_dot.rhophi_theta_xy_z_eq, h0, h1, VR.P.nanToNum_eq]

theorem c08_lorentz_dot_k_rhophi_z_t_rhophi_eta_tau (coord11 coord12 coord13 coord14 coord21 coord22 coord23 coord24 : ℝ) (h0 : 0 ≤ coord24) :
    VS.lorentz_dot.k_rhophi_z_t_rhophi_eta_tau coord11 coord12 coord13 coord14 coord21 coord22 coord23 coord24 = VR.lorentz_dot.k_rhophi_z_t_rhophi_eta_tau coord11 coord12 coord13 coord14 coord21 coord22 coord23 coord24 := by
  simp only [VS.lorentz_dot.k_rhophi_z_t_rhophi_eta_tau, VR.lorentz_dot.k_rhophi_z_t_rhophi_eta_tau, VS.lorentz_t.rhophi_z_t_eq, c08_lorentz_t_rhophi_eta_tau, VS.spatial_dot.rhophi_z_rhophi_eta_eq, h0, VR.P.nanToNum_eq]

theorem c08_lorentz_dot_k_rhophi_z_t_rhophi_theta_tau (coord11 coord12 coord13 coord14 coord21 coord22 coord23 coord24 : ℝ) (h0 : 0 ≤ coord24) :
    VS.lorentz_dot.k_rhophi_z_t_rhophi_theta_tau coord11 coord12 coord13 coord14 coord21 coord22 coord23 coord24 = VR.lorentz_dot.k_rhophi_z_t_rhophi_theta_tau coord11 coord12 coord13 coord14 coord21 coord22 coord23 coord24 := by
  simp only [VS.lorentz_dot.k_rhophi_z_t_rhophi_theta_tau, VR.lorentz_dot.k_rhophi_z_t_rhophi_theta_tau, VS.lorentz_t.rhophi_z_t_eq, c08_lorentz_t_rhophi_theta_tau, VS.spatial_dot.rhophi_z_rhophi_theta_eq, h0, VR.P.nanToNum_eq]

theorem c08_lorentz_dot_k_rhophi_z_t_rhophi_z_tau (coord11 coord12 coord13 coord14 coord21 coord22 coord23 coord24 : ℝ) (h0 : 0 ≤ coord24) :
    VS.lorentz_dot.k_rhophi_z_t_rhophi_z_tau coord11 coord12 coord13 coord14 coord21 coord22 coord23 coord24 = VR.lorentz_dot.k_rhophi_z_t_rhophi_z_tau coord11 coord12 coord13 coord14 coord21 coord22 coord23 coord24 := by
  simp only [VS.lorentz_dot.k_rhophi_z_t_rhophi_z_tau, VR.lorentz_dot.k_rhophi_z_t_rhophi_z_tau, VS.lorentz_t.rhophi_z_t_eq, c08_lorentz_t_rhophi_z_tau, VS.spatial_dot.rhophi_z_rhophi_z_eq, h0, VR.P.nanToNum_eq]

theorem c08_lorentz_dot_k_rhophi_z_t_xy_eta_tau (coord11 coord12 coord13 coord14 coord21 coord22 coord23 coord24 : ℝ) (h0 : 0 ≤ coord24) :
    VS.lorentz_dot.k_rhophi_z_t_xy_eta_tau coord11 coord12 coord13 coord14 coord21 coord22 coord23 coord24 = VR.lorentz_dot.k_rhophi_z_t_xy_eta_tau coord11 coord12 coord13 coord14 coord21 coord22 coord23 coord24 := by
  simp only [VS.lorentz_dot.k_rhophi_z_t_xy_eta_tau, VR.lorentz_dot.k_rhophi_z_t_xy_eta_tau, VS.lorentz_t.rhophi_z_t_eq, c08_lorentz_t_xy_eta_tau, VS.spatial_dot.rhophi_z_xy_eta_eq, h0, VR.P.nanToNum_eq]

theorem c08_lorentz_dot_k_rhophi_z_t_xy_theta_tau (coord11 coord12 coord13 coord14 coord21 coord22 coord23 coord24 : ℝ) (h0 : 0 ≤ coord24) :
    VS.lorentz_dot.k_rhophi_z_t_xy_theta_tau coord11 coord12 coord13 coord14 coord21 coord22 coord23 coord24 = VR.lorentz_dot.k_rhophi_z_t_xy_theta_tau coord11 coord12 coord13 coord14 coord21 coord22 coord23 coord24 := by
  simp only [VS.lorentz_dot.k_rhophi_z_t_xy_theta_tau, VR.lorentz_dot.k_rhophi_z_t_xy_theta_tau, VS.lorentz_t.rhophi_z_t_eq, c08_lorentz_t_xy_theta_tau, VS.spatial_dot.rhophi_z_xy_theta_eq, h0, VR.P.nanToNum_eq]

theorem c08_lorentz_dot_k_rhophi_z_t_xy_z_tau (coord11 coord12 coord13 coord14 coord21 coord22 coord23 coord24 : ℝ) (h0 : 0 ≤ coord24) :
    VS.lorentz_dot.k_rhophi_z_t_xy_z_tau coord11 coord12 coord13 coord14 coord21 coord22 coord23 coord24 = VR.lorentz_dot.k_rhophi_z_t_xy_z_tau coord11 coord12 coord13 coord14 coord21 coord22 coord23 coord24 := by
  simp only [VS.lorentz_dot.k_rhophi_z_t_xy_z_tau, VR.lorentz_dot.k_rhophi_z_t_xy_z_tau, VS.lorentz_t.rhophi_z_t_eq, c08_lorentz_t_xy_z_tau, VS.spatial_dot.rhophi_z_xy_z_eq, h0, VR.P.nanToNum_eq]

theorem c08_lorentz_dot_k_rhophi_z_tau_rhophi_eta_t (coord11 coord12 coord13 coord14 coord21 coord22 coord23 coord24 : ℝ) (h0 : 0 ≤ coord14) :
    VS.lorentz_dot.k_rhophi_z_tau_rhophi_eta_t coord11 coord12 coord13 coord14 coord21 coord22 coord23 coord24 = VR.lorentz_dot.k_rhophi_z_tau_rhophi_eta_t coord11 coord12 coord13 coord14 coord21 coord22 coord23 coord24 := by
  simp only [VS.lorentz_dot.k_rhophi_z_tau_rhophi_eta_t, VR.lorentz_dot.k_rhophi_z_tau_rhophi_eta_t, c08_lorentz_t_rhophi_z_tau, VS.lorentz_t.rhophi_eta_t_eq, VS.spatial_dot.rhophi_z_rhophi_eta_eq, h0, VR.P.nanToNum_eq]

theorem c08_lorentz_dot_k_rhophi_z_tau_rhophi_eta_tau (coord11 coord12 coord13 coord14 coord21 coord22 coord23 coord24 : ℝ) (h0 : 0 ≤ coord14) (h1 : 0 ≤ coord24) :
    VS.lorentz_dot.k_rhophi_z_tau_rhophi_eta_tau coord11 coord12 coord13 coord14 coord21 coord22 coord23 coord24 = VR.lorentz_dot.k_rhophi_z_tau_rhophi_eta_tau coord11 coord12 coord13 coord14 coord21 coord22 coord23 coord24 := by
  simp only [VS.lorentz_dot.k_rhophi_z_tau_rhophi_eta_tau, VR.lorentz_dot.k_rhophi_z_tau_rhophi_eta_tau, c08_lorentz_t_rhophi_z_tau, c08_lorentz_t_rhophi_eta_tau, VS.spatial_dot.rhophi_z_rhophi_eta_eq, h0, h1, VR.P.nanToNum_eq]

theorem c08_lorentz_dot_k_rhophi_z_tau_rhophi_theta_t (coord11 coord12 coord13 coord14 coord21 coord22 coord23 coord24 : ℝ) (h0 : 0 ≤ coord14) :
    VS.lorentz_dot.k_rhophi_z_tau_rhophi_theta_t coord11 coord12 coord13 coord14 coord21 coord22 coord23 coord24 = VR.lorentz_dot.k_rhophi_z_tau_rhophi_theta_t coord11 coord12 coord13 coord14 coord21 coord22 coord23 coord24 := by
  simp only [VS.lorentz_dot.k_rhophi_z_tau_rhophi_theta_t, VR.lorentz_dot.k_rhophi_z_tau_rhophi_theta_t, c08_lorentz_t_rhophi_z_tau, VS.lorentz_t.rhophi_theta_t_eq, VS.spatial_dot.rhophi_z_rhophi_theta_eq, h0, VR.P.nanToNum_eq]

theorem c08_lorentz_dot_k_rhophi_z_tau_rhophi_theta_tau (coord11 coord12 coord13 coord14 coord21 coord22 coord23 coord24 : ℝ) (h0 : 0 ≤ coord14) (h1 : 0 ≤ coord24) :
    VS.lorentz_dot.k_rhophi_z_tau_rhophi_theta_tau coord11 coord12 coord13 coord14 coord21 coord22 coord23 coord24 = VR.lorentz_dot.k_rhophi_z_tau_rhophi_theta_tau coord11 coord12 coord13 coord14 coord21 coord22 coord23 coord24 := by
  simp only [VS.lorentz_dot.k_rhophi_z_tau_rhophi_theta_tau, VR.lorentz_dot.k_rhophi_z_tau_rhophi_theta_tau, c08_lorentz_t_rhophi_z_tau, c08_lorentz_t_rhophi_theta_tau, VS.spatial_dot.rhophi_z_rhophi_theta_eq, h0, h1, VR.P.nanToNum_eq]

theorem c08_lorentz_dot_k_rhophi_z_tau_rhophi_z_t (coord11 coord12 coord13 coord14 coord21 coord22 coord23 coord24 : ℝ) (h0 : 0 ≤ coord14) :
    VS.lorentz_dot.k_rhophi_z_tau_rhophi_z_t coord11 coord12 coord13 coord14 coord21 coord22 coord23 coord24 = VR.lorentz_dot.k_rhophi_z_tau_rhophi_z_t coord11 coord12 coord13 coord14 coord21 coord22 coord23 coord24 := by
  simp only [VS.lorentz_dot.k_rhophi_z_tau_rhophi_z_t, VR.lorentz_dot.k_rhophi_z_tau_rhophi_z_t, c08_lorentz_t_rhophi_z_tau, VS.lorentz_t.rhophi_z_t_eq, VS.spatial_dot.rhophi_z_rhophi_z_eq, h0, VR.P.nanToNum_eq]

theorem c08_lorentz_dot_k_rhophi_z_tau_rhophi_z_tau (coord11 coord12 coord13 coord14 coord21 coord22 coord23 coord24 : ℝ) (h0 : 0 ≤ coord14) (h1 : 0 ≤ coord24) :
    VS.lorentz_dot.k_rhophi_z_tau_rhophi_z_tau coord11 coord12 coord13 coord14 coord21 coord22 coord23 coord24 = VR.lorentz_dot.k_rhophi_z_tau_rhophi_z_tau coord11 coord12 coord13 coord14 coord21 coord22 coord23 coord24 := by
  simp only [VS.lorentz_dot.k_rhophi_z_tau_rhophi_z_tau, VR.lorentz_dot.k_rhophi_z_tau_rhophi_z_tau, c08_lorentz_t_rhophi_z_tau, VS.spatial_dot.rhophi_z_rhophi_z_eq, h0, h1, VR.P.nanToNum_eq]

theorem c08_lorentz_dot_k_rhophi_z_tau_xy_eta_t (coord11 coord12 coord13 coord14 coord21 coord22 coord23 coord24 : ℝ) (h0 : 0 ≤ coord14) :
    VS.lorentz_dot.k_rhophi_z_tau_xy_eta_t coord11 coord12 coord13 coord14 coord21 coord22 coord23 coord24 = VR.lorentz_dot.k_rhophi_z_tau_xy_eta_t coord11 coord12 coord13 coord14 coord21 coord22 coord23 coord24 := by
  simp only [VS.lorentz_dot.k_rhophi_z_tau_xy_eta_t, VR.lorentz_dot.k_rhophi_z_tau_xy_eta_t, c08_lorentz_t_rhophi_z_tau, VS.lorentz_t.xy_eta_t_eq, VS.spatial_dot.rhophi_z_xy_eta_eq, h0, VR.P.nanToNum_eq]

theorem c08_lorentz_dot_k_rhophi_z_tau_xy_eta_tau (coord11 coord12 coord13 coord14 coord21 coord22 coord23 coord24 : ℝ) (h0 : 0 ≤ coord14) (h1 : 0 ≤ coord24) :
    VS.lorentz_dot.k_rhophi_z_tau_xy_eta_tau coord11 coord12 coord13 coord14 coord21 coord22 coord23 coord24 = VR.lorentz_dot.k_rhophi_z_tau_xy_eta_tau coord11 coord12 coord13 coord14 coord21 coord22 coord23 coord24 := by
  simp only [VS.lorentz_dot.k_rhophi_z_tau_xy_eta_tau, VR.lorentz_dot.k_rhophi_z_tau_xy_eta_tau, c08_lorentz_t_rhophi_z_tau, c08_lorentz_t_xy_eta_tau, VS.spatial_dot.rhophi_z_xy_eta_eq, h0, h1, VR.P.nanToNum_eq]

theorem c08_lorentz_dot_k_rhophi_z_tau_xy_theta_t (coord11 coord12 coord13 coord14 coord21 coord22 coord23 coord24 : ℝ) (h0 : 0 ≤ coord14) :
    VS.lorentz_dot.k_rhophi_z_tau_xy_theta_t coord11 coord12 coord13 coord14 coord21 coord22 coord23 coord24 = VR.lorentz_dot.k_rhophi_z_tau_xy_theta_t coord11 coord12 coord13 coord14 coord21 coord22 coord23 coord24 := by
  simp only [VS.lorentz_dot.k_rhophi_z_tau_xy_theta_t, VR.lorentz_dot.k_rhophi_z_tau_xy_theta_t, c08_lorentz_t_rhophi_z_tau, VS.lorentz_t.xy_theta_t_eq, VS.spatial_dot.rhophi_z_xy_theta_eq, h0, VR.P.nanToNum_eq]

theorem c08_lorentz_dot_k_rhophi_z_tau_xy_theta_tau (coord11 coord12 coord13 coord14 coord21 coord22 coord23 coord24 : ℝ) (h0 : 0 ≤ coord14) (h1 : 0 ≤ coord24) :
    VS.lorentz_dot.k_rhophi_z_tau_xy_theta_tau coord11 coord12 coord13 coord14 coord21 coord22 coord23 coord24 = VR.lorentz_dot.k_rhophi_z_tau_xy_theta_tau coord11 coord12 coord13 coord14 coord21 coord22 coord23 coord24 := by
  simp only [VS.lorentz_dot.k_rhophi_z_tau_xy_theta_tau, VR.lorentz_dot.k_rhophi_z_tau_xy_theta_tau, c08_lorentz_t_rhophi_z_tau, c08_lorentz_t_xy_theta_tau, VS.spatial_dot.rhophi_z_xy_theta_eq, h0, h1, VR.P.nanToNum_eq]

theorem c08_lorentz_dot_k_rhophi_z_tau_xy_z_t (coord11 coord12 coord13 coord14 coord21 coord22 coord23 coord24 : ℝ) (h0 : 0 ≤ coord14) :
    VS.lorentz_dot.k_rhophi_z_tau_xy_z_t coord11 coord12 coord13 coord14 coord21 coord22 coord23 coord24 = VR.lorentz_dot.k_rhophi_z_tau_xy_z_t coord11 coord12 coord13 coord14 coord21 coord22 coord23 coord24 := by
  simp only [VS.lorentz_dot.k_rhophi_z_tau_xy_z_t, VR.lorentz_dot.k_rhophi_z_tau_xy_z_t, c08_lorentz_t_rhophi_z_tau, VS.lorentz_t.xy_z_t_eq, VS.spatial_dot.rhophi_z_xy_z_eq, h0, VR.P.nanToNum_eq]

theorem c08_lorentz_dot_k_rhophi_z_tau_xy_z_tau (coord11 coord12 coord13 coord14 coord21 coord22 coord23 coord24 : ℝ) (h0 : 0 ≤ coord14) (h1 : 0 ≤ coord24) :
    VS.lorentz_dot.k_rhophi_z_tau_xy_z_tau coord11 coord12 coord13 coord14 coord21 coord22 coord23 coord24 = VR.lorentz_dot.k_rhophi_z_tau_xy_z_tau coord11 coord12 coord13 coord14 coord21 coord22 coord23 coord24 := by
  simp only [VS.lorentz_dot.k_rhophi_z_tau_xy_z_tau, VR.lorentz_dot.k_rhophi_z_tau_xy_z_tau, c08_lorentz_t_rhophi_z_tau, c08_lorentz_t_xy_z_tau, VS.spatial_dot.rhophi_z_xy_z_eq, h0, h1, VR.P.nanToNum_eq]

theorem c08_lorentz_dot_k_xy_eta_t_rhophi_eta_tau (coord11 coord12 coord13 coord14 coord21 coord22 coord23 coord24 : ℝ) (h0 : 0 ≤ coord24) :
    VS.lorentz_dot.k_xy_eta_t_rhophi_eta_tau coord11 coord12 coord13 coord14 coord21 coord22 coord23 coord24 = VR.lorentz_dot.k_xy_eta_t_rhophi_eta_tau coord11 coord12 coord13 coord14 coord21 coord22 coord23 coord24 := by
  simp only [VS.lorentz_dot.k_xy_eta_t_rhophi_eta_tau, VR.lorentz_dot.k_xy_eta_t_rhophi_eta_tau, VS.lorentz_t.xy_eta_t_eq, c08_lorentz_t_rhophi_eta_tau, VS.spatial_dot.xy_eta_rhophi_eta_eq, h0, VR.P.nanToNum_eq]

theorem c08_lorentz_dot_k_xy_eta_t_rhophi_theta_tau (coord11 coord12 coord13 coord14 coord21 coord22 coord23 coord24 : ℝ) (h0 : 0 ≤ coord24) :
    VS.lorentz_dot.k_xy_eta_t_rhophi_theta_tau coord11 coord12 coord13 coord14 coord21 coord22 coord23 coord24 = VR.lorentz_dot.k_xy_eta_t_rhophi_theta_tau coord11 coord12 coord13 coord14 coord21 coord22 coord23 coord24 := by
  simp only [VS.lorentz_dot.k_xy_eta_t_rhophi_theta_tau, VR.lorentz_dot.k_xy_eta_t_rhophi_theta_tau, VS.lorentz_t.xy_eta_t_eq, c08_lorentz_t_rhophi_theta_tau, VS.spatial_dot.xy_eta_rhophi_theta_eq, h0, VR.P.nanToNum_eq]

theorem c08_lorentz_dot_k_xy_eta_t_rhophi_z_tau (coord11 coord12 coord13 coord14 coord21 coord22 coord23 coord24 : ℝ) (h0 : 0 ≤ coord24) :
    VS.lorentz_dot.k_xy_eta_t_rhophi_z_tau coord11 coord12 coord13 coord14 coord21 coord22 coord23 coord24 = VR.lorentz_dot.k_xy_eta_t_rhophi_z_tau coord11 coord12 coord13 coord14 coord21 coord22 coord23 coord24 := by
  simp only [VS.lorentz_dot.k_xy_eta_t_rhophi_z_tau, VR.lorentz_dot.k_xy_eta_t_rhophi_z_tau, VS.lorentz_t.xy_eta_t_eq, c08_lorentz_t_rhophi_z_tau, VS.spatial_dot.xy_eta_rhophi_z_eq, h0, VR.P.nanToNum_eq]

theorem c08_lorentz_dot_k_xy_eta_t_xy_eta_tau (coord11 coord12 coord13 coord14 coord21 coord22 coord23 coord24 : ℝ) (h0 : 0 ≤ coord24) :
    VS.lorentz_dot.k_xy_eta_t_xy_eta_tau coord11 coord12 coord13 coord14 coord21 coord22 coord23 coord24 = VR.lorentz_dot.k_xy_eta_t_xy_eta_tau coord11 coord12 coord13 coord14 coord21 coord22 coord23 coord24 := by
  simp only [VS.lorentz_dot.k_xy_eta_t_xy_eta_tau, VR.lorentz_dot.k_xy_eta_t_xy_eta_tau, VS.lorentz_t.xy_eta_t_eq, c08_lorentz_t_xy_eta_tau, VS.spatial_dot.xy_eta_xy_eta_eq, h0, VR.P.nanToNum_eq]

theorem c08_lorentz_dot_k_xy_eta_t_xy_theta_tau (coord11 coord12 coord13 coord14 coord21 coord22 coord23 coord24 : ℝ) (h0 : 0 ≤ coord24) :
    VS.lorentz_dot.k_xy_eta_t_xy_theta_tau coord11 coord12 coord13 coord14 coord21 coord22 coord23 coord24 = VR.lorentz_dot.k_xy_eta_t_xy_theta_tau coord11 coord12 coord13 coord14 coord21 coord22 coord23 coord24 := by
  simp only [VS.lorentz_dot.k_xy_eta_t_xy_theta_tau, VR.lorentz_dot.k_xy_eta_t_xy_theta_tau, VS.lorentz_t.xy_eta_t_eq, c08_lorentz_t_xy_theta_tau, VS.spatial_dot.xy_eta_xy_theta_eq, h0, VR.P.nanToNum_eq]

theorem c08_lorentz_dot_k_xy_eta_t_xy_z_tau (coord11 coord12 coord13 coord14 coord21 coord22 coord23 coord24 : ℝ) (h0 : 0 ≤ coord24) :
    VS.lorentz_dot.k_xy_eta_t_xy_z_tau coord11 coord12 coord13 coord14 coord21 coord22 coord23 coord24 = VR.lorentz_dot.k_xy_eta_t_xy_z_tau coord11 coord12 coord13 coord14 coord21 coord22 coord23 coord24 := by
  simp only [VS.lorentz_dot.k_xy_eta_t_xy_z_tau, VR.lorentz_dot.k_xy_eta_t_xy_z_tau, VS.lorentz_t.xy_eta_t_eq, c08_lorentz_t_xy_z_tau, VS.spatial_dot.xy_eta_xy_z_eq, h0, VR.P.nanToNum_eq]

theorem c08_lorentz_dot_k_xy_eta_tau_rhophi_eta_t (coord11 coord12 coord13 coord14 coord21 coord22 coord23 coord24 : ℝ) (h0 : 0 ≤ coord14) :
    VS.lorentz_dot.k_xy_eta_tau_rhophi_eta_t coord11 coord12 coord13 coord14 coord21 coord22 coord23 coord24 = VR.lorentz_dot.k_xy_eta_tau_rhophi_eta_t coord11 coord12 coord13 coord14 coord21 coord22 coord23 coord24 := by
  simp only [VS.lorentz_dot.k_xy_eta_tau_rhophi_eta_t, VR.lorentz_dot.k_xy_eta_tau_rhophi_eta_t, c08_lorentz_t_xy_eta_tau, VS.lorentz_t.rhophi_eta_t_eq, VS.spatial_dot.xy_eta_rhophi_eta_eq, h0, VR.P.nanToNum_eq]

theorem c08_lorentz_dot_k_xy_eta_tau_rhophi_eta_tau (coord11 coord12 coord13 coord14 coord21 coord22 coord23 coord24 : ℝ) (h0 : 0 ≤ coord14) (h1 : 0 ≤ coord24) :
    VS.lorentz_dot.k_xy_eta_tau_rhophi_eta_tau coord11 coord12 coord13 coord14 coord21 coord22 coord23 coord24 = VR.lorentz_dot.k_xy_eta_tau_rhophi_eta_tau coord11 coord12 coord13 coord14 coord21 coord22 coord23 coord24 := by
  simp only [VS.lorentz_dot.k_xy_eta_tau_rhophi_eta_tau, VR.lorentz_dot.k_xy_eta_tau_rhophi_eta_tau, c08_lorentz_t_xy_eta_tau, c08_lorentz_t_rhophi_eta_tau, VS.spatial_dot.xy_eta_rhophi_eta_eq, h0, h1, VR.P.nanToNum_eq]

theorem c08_lorentz_dot_k_xy_eta_tau_rhophi_theta_t (coord11 coord12 coord13 coord14 coord21 coord22 coord23 coord24 : ℝ) (h0 : 0 ≤ coord14) :
    VS.lorentz_dot.k_xy_eta_tau_rhophi_theta_t coord11 coord12 coord13 coord14 coord21 coord22 coord23 coord24 = VR.lorentz_dot.k_xy_eta_tau_rhophi_theta_t coord11 coord12 coord13 coord14 coord21 coord22 coord23 coord24 := by
  simp only [VS.lorentz_dot.k_xy_eta_tau_rhophi_theta_t, VR.lorentz_dot.k_xy_eta_tau_rhophi_theta_t, c08_lorentz_t_xy_eta_tau, VS.lorentz_t.rhophi_theta_t_eq, VS.spatial_dot.xy_eta_rhophi_theta_eq, h0, VR.P.nanToNum_eq]

theorem c08_lorentz_dot_k_xy_eta_tau_rhophi_theta_tau (coord11 coord12 coord13 coord14 coord21 coord22 coord23 coord24 : ℝ) (h0 : 0 ≤ coord14) (h1 : 0 ≤ coord24) :
    VS.lorentz_dot.k_xy_eta_tau_rhophi_theta_tau coord11 coord12 coord13 coord14 coord21 coord22 coord23 coord24 = VR.lorentz_dot.k_xy_eta_tau_rhophi_theta_tau coord11 coord12 coord13 coord14 coord21 coord22 coord23 coord24 := by
  simp only [VS.lorentz_dot.k_xy_eta_tau_rhophi_theta_tau, VR.lorentz_dot.k_xy_eta_tau_rhophi_theta_tau, c08_lorentz_t_xy_eta_tau, c08_lorentz_t_rhophi_theta_tau, VS.spatial_dot.xy_eta_rhophi_theta_eq, h0, h1, VR.P.nanToNum_eq]

theorem c08_lorentz_dot_k_xy_eta_tau_rhophi_z_t (coord11 coord12 coord13 coord14 coord21 coord22 coord23 coord24 : ℝ) (h0 : 0 ≤ coord14) :
    VS.lorentz_dot.k_xy_eta_tau_rhophi_z_t coord11 coord12 coord13 coord14 coord21 coord22 coord23 coord24 = VR.lorentz_dot.k_xy_eta_tau_rhophi_z_t coord11 coord12 coord13 coord14 coord21 coord22 coord23 coord24 := by
  simp only [VS.lorentz_dot.k_xy_eta_tau_rhophi_z_t, VR.lorentz_dot.k_xy_eta_tau_rhophi_z_t, c08_lorentz_t_xy_eta_tau, VS.lorentz_t.rhophi_z_t_eq, VS.spatial_dot.xy_eta_rhophi_z_eq, h0, VR.P.nanToNum_eq]

theorem c08_lorentz_dot_k_xy_eta_tau_rhophi_z_tau (coord11 coord12 coord13 coord14 coord21 coord22 coord23 coord24 : ℝ) (h0 : 0 ≤ coord14) (h1 : 0 ≤ coord24) :
    VS.lorentz_dot.k_xy_eta_tau_rhophi_z_tau coord11 coord12 coord13 coord14 coord21 coord22 coord23 coord24 = VR.lorentz_dot.k_xy_eta_tau_rhophi_z_tau coord11 coord12 coord13 coord14 coord21 coord22 coord23 coord24 := by
  simp only [VS.lorentz_dot.k_xy_eta_tau_rhophi_z_tau, VR.lorentz_dot.k_xy_eta_tau_rhophi_z_tau, c08_lorentz_t_xy_eta_tau, c08_lorentz_t_rhophi_z_tau, VS.spatial_dot.xy_eta_rhophi_z_eq, h0, h1, VR.P.nanToNum_eq]

theorem c08_lorentz_dot_k_xy_eta_tau_xy_eta_t (coord11 coord12 coord13 coord14 coord21 coord22 coord23 coord24 : ℝ) (h0 : 0 ≤ coord14) :
    VS.lorentz_dot.k_xy_eta_tau_xy_eta_t coord11 coord12 coord13 coord14 coord21 coord22 coord23 coord24 = VR.lorentz_dot.k_xy_eta_tau_xy_eta_t coord11 coord12 coord13 coord14 coord21 coord22 coord23 coord24 := by
  simp only [VS.lorentz_dot.k_xy_eta_tau_xy_eta_t, VR.lorentz_dot.k_xy_eta_tau_xy_eta_t, c08_lorentz_t_xy_eta_tau, VS.lorentz_t.xy_eta_t_eq, VS.spatial_dot.xy_eta_xy_eta_eq, h0, VR.P.nanToNum_eq]

theorem c08_lorentz_dot_k_xy_eta_tau_xy_eta_tau (coord11 coord12 coord13 coord14 coord21 coord22 coord23 coord24 : ℝ) (h0 : 0 ≤ coord14) (h1 : 0 ≤ coord24) :
    VS.lorentz_dot.k_xy_eta_tau_xy_eta_tau coord11 coord12 coord13 coord14 coord21 coord22 coord23 coord24 = VR.lorentz_dot.k_xy_eta_tau_xy_eta_tau coord11 coord12 coord13 coord14 coord21 coord22 coord23 coord24 := by
  simp only [VS.lorentz_dot.k_xy_eta_tau_xy_eta_tau, VR.lorentz_dot.k_xy_eta_tau_xy_eta_tau, c08_lorentz_t_xy_eta_tau, VS.spatial_dot.xy_eta_xy_eta_eq, h0, h1, VR.P.nanToNum_eq]

theorem c08_lorentz_dot_k_xy_eta_tau_xy_theta_t (coord11 coord12 coord13 coord14 coord21 coord22 coord23 coord24 : ℝ) (h0 : 0 ≤ coord14) :
    VS.lorentz_dot.k_xy_eta_tau_xy_theta_t coord11 coord12 coord13 coord14 coord21 coord22 coord23 coord24 = VR.lorentz_dot.k_xy_eta_tau_xy_theta_t coord11 coord12 coord13 coord14 coord21 coord22 coord23 coord24 := by
  simp only [VS.lorentz_dot.k_xy_eta_tau_xy_theta_t, VR.lorentz_dot.k_xy_eta_tau_xy_theta_t, c08_lorentz_t_xy_eta_tau, VS.lorentz_t.xy_theta_t_eq, VS.spatial_dot.xy_eta_xy_theta_eq, h0, VR.P.nanToNum_eq]

theorem c08_lorentz_dot_k_xy_eta_tau_xy_theta_tau (coord11 coord12 coord13 coord14 coord21 coord22 coord23 coord24 : ℝ) (h0 : 0 ≤ coord14) (h1 : 0 ≤ coord24) :
    VS.lorentz_dot.k_xy_eta_tau_xy_theta_tau coord11 coord12 coord13 coord14 coord21 coord22 coord23 coord24 = VR.lorentz_dot.k_xy_eta_tau_xy_theta_tau coord11 coord12 coord13 coord14 coord21 coord22 coord23 coord24 := by
  simp only [VS.lorentz_dot.k_xy_eta_tau_xy_theta_tau, VR.lorentz_dot.k_xy_eta_tau_xy_theta_tau, c08_lorentz_t_xy_eta_tau, c08_lorentz_t_xy_theta_tau, VS.spatial_dot.xy_eta_xy_theta_eq, h0, h1, VR.P.nanToNum_eq]

theorem c08_lorentz_dot_k_xy_eta_tau_xy_z_t (coord11 coord12 coord13 coord14 coord21 coord22 coord23 coord24 : ℝ) (h0 : 0 ≤ coord14) :
    VS.lorentz_dot.k_xy_eta_tau_xy_z_t coord11 coord12 coord13 coord14 coord21 coord22 coord23 coord24 = VR.lorentz_dot.k_xy_eta_tau_xy_z_t coord11 coord12 coord13 coord14 coord21 coord22 coord23 coord24 := by
  simp only [VS.lorentz_dot.k_xy_eta_tau_xy_z_t, VR.lorentz_dot.k_xy_eta_tau_xy_z_t, c08_lorentz_t_xy_eta_tau, VS.lorentz_t.xy_z_t_eq, VS.spatial_dot.xy_eta_xy_z_eq, h0, VR.P.nanToNum_eq]

theorem c08_lorentz_dot_k_xy_eta_tau_xy_z_tau (coord11 coord12 coord13 coord14 coord21 coord22 coord23 coord24 : ℝ) (h0 : 0 ≤ coord14) (h1 : 0 ≤ coord24) :
    VS.lorentz_dot.k_xy_eta_tau_xy_z_tau coord11 coord12 coord13 coord14 coord21 coord22 coord23 coord24 = VR.lorentz_dot.k_xy_eta_tau_xy_z_tau coord11 coord12 coord13 coord14 coord21 coord22 coord23 coord24 := by
  simp only [VS.lorentz_dot.k_xy_eta_tau_xy_z_tau, VR.lorentz_dot.k_xy_eta_tau_xy_z_tau, c08_lorentz_t_xy_eta_tau, c08_lorentz_t_xy_z_tau, VS.spatial_dot.xy_eta_xy_z_eq, h0, h1, VR.P.nanToNum_eq]

theorem c08_lorentz_dot_k_xy_theta_t_rhophi_eta_tau (coord11 coord12 coord13 coord14 coord21 coord22 coord23 coord24 : ℝ) (h0 : 0 ≤ coord24) :
    VS.lorentz_dot.k_xy_theta_t_rhophi_eta_tau coord11 coord12 coord13 coord14 coord21 coord22 coord23 coord24 = VR.lorentz_dot.k_xy_theta_t_rhophi_eta_tau coord11 coord12 coord13 coord14 coord21 coord22 coord23 coord24 := by
  simp only [VS.lorentz_dot.k_xy_theta_t_rhophi_eta_tau, VR.lorentz_dot.k_xy_theta_t_rhophi_eta_tau, VS.lorentz_t.xy_theta_t_eq, c08_lorentz_t_rhophi_eta_tau, VS.spatial_dot.xy_theta_rhophi_eta_eq, h0, VR.P.nanToNum_eq]

theorem c08_lorentz_dot_k_xy_theta_t_rhophi_theta_tau (coord11 coord12 coord13 coord14 coord21 coord22 coord23 coord24 : ℝ) (h0 : 0 ≤ coord24) :
    VS.lorentz_dot.k_xy_theta_t_rhophi_theta_tau coord11 coord12 coord13 coord14 coord21 coord22 coord23 coord24 = VR.lorentz_dot.k_xy_theta_t_rhophi_theta_tau coord11 coord12 coord13 coord14 coord21 coord22 coord23 coord24 := by
  simp only [VS.lorentz_dot.k_xy_theta_t_rhophi_theta_tau, VR.lorentz_dot.k_xy_theta_t_rhophi_theta_tau, VS.lorentz_t.xy_theta_t_eq, c08_lorentz_t_rhophi_theta_tau, VS.spatial_dot.xy_theta_rhophi_theta_eq, h0, VR.P.nanToNum_eq]

theorem c08_lorentz_dot_k_xy_theta_t_rhophi_z_tau (coord11 coord12 coord13 coord14 coord21 coord22 coord23 coord24 : ℝ) (h0 : 0 ≤ coord24) :
    VS.lorentz_dot.k_xy_theta_t_rhophi_z_tau coord11 coord12 coord13 coord14 coord21 coord22 coord23 coord24 = VR.lorentz_dot.k_xy_theta_t_rhophi_z_tau coord11 coord12 coord13 coord14 coord21 coord22 coord23 coord24 := by
  simp only [VS.lorentz_dot.k_xy_theta_t_rhophi_z_tau, VR.lorentz_dot.k_xy_theta_t_rhophi_z_tau, VS.lorentz_t.xy_theta_t_eq, c08_lorentz_t_rhophi_z_tau, VS.spatial_dot.xy_theta_rhophi_z_eq, h0, VR.P.nanToNum_eq]

theorem c08_lorentz_dot_k_xy_theta_t_xy_eta_tau (coord11 coord12 coord13 coord14 coord21 coord22 coord23 coord24 : ℝ) (h0 : 0 ≤ coord24) :
    VS.lorentz_dot.k_xy_theta_t_xy_eta_tau coord11 coord12 coord13 coord14 coord21 coord22 coord23 coord24 = VR.lorentz_dot.k_xy_theta_t_xy_eta_tau coord11 coord12 coord13 coord14 coord21 coord22 coord23 coord24 := by
  simp only [VS.lorentz_dot.k_xy_theta_t_xy_eta_tau, VR.lorentz_dot.k_xy_theta_t_xy_eta_tau, VS.lorentz_t.xy_theta_t_eq, c08_lorentz_t_xy_eta_tau, VS.spatial_dot.xy_theta_xy_eta_eq, h0, VR.P.nanToNum_eq]

theorem c08_lorentz_dot_k_xy_theta_t_xy_theta_tau (coord11 coord12 coord13 coord14 coord21 coord22 coord23 coord24 : ℝ) (h0 : 0 ≤ coord24) :
    VS.lorentz_dot.k_xy_theta_t_xy_theta_tau coord11 coord12 coord13 coord14 coord21 coord22 coord23 coord24 = VR.lorentz_dot.k_xy_theta_t_xy_theta_tau coord11 coord12 coord13 coord14 coord21 coord22 coord23 coord24 := by
  simp only [VS.lorentz_dot.k_xy_theta_t_xy_theta_tau, VR.lorentz_dot.k_xy_theta_t_xy_theta_tau, VS.lorentz_t.xy_theta_t_eq, c08_lorentz_t_xy_theta_tau, VS.spatial_dot.xy_theta_xy_theta_eq, h0, VR.P.nanToNum_eq]

theorem c08_lorentz_dot_k_xy_theta_t_xy_z_tau (coord11 coord12 coord13 coord14 coord21 coord22 coord23 coord24 : ℝ) (h0 : 0 ≤ coord24) :
    VS.lorentz_dot.k_xy_theta_t_xy_z_tau coord11 coord12 coord13 coord14 coord21 coord22 coord23 coord24 = VR.lorentz_dot.k_xy_theta_t_xy_z_tau coord11 coord12 coord13 coord14 coord21 coord22 coord23 coord24 := by
  simp only [VS.lorentz_dot.k_xy_theta_t_xy_z_tau, VR.lorentz_dot.k_xy_theta_t_xy_z_tau, VS.lorentz_t.xy_theta_t_eq, c08_lorentz_t_xy_z_tau, VS.spatial_dot.xy_theta_xy_z_eq, h0, VR.P.nanToNum_eq]

theorem c08_lorentz_dot_k_xy_theta_tau_rhophi_eta_t (coord11 coord12 coord13 coord14 coord21 coord22 coord23 coord24 : ℝ) (h0 : 0 ≤ coord14) :
    VS.lorentz_dot.k_xy_theta_tau_rhophi_eta_t coord11 coord12 coord13 coord14 coord21 coord22 coord23 coord24 = VR.lorentz_dot.k_xy_theta_tau_rhophi_eta_t coord11 coord12 coord13 coord14 coord21 coord22 coord23 coord24 := by
  simp only [VS.lorentz_dot.k_xy_theta_tau_rhophi_eta_t, VR.lorentz_dot.k_xy_theta_tau_rhophi_eta_t, c08_lorentz_t_xy_theta_tau, VS.lorentz_t.rhophi_eta_t_eq, VS.spatial_dot.xy_theta_rhophi_eta_eq, h0, VR.P.nanToNum_eq]

theorem c08_lorentz_dot_k_xy_theta_tau_rhophi_eta_tau (coord11 coord12 coord13 coord14 coord21 coord22 coord23 coord24 : ℝ) (h0 : 0 ≤ coord14) (h1 : 0 ≤ coord24) :
    VS.lorentz_dot.k_xy_theta_tau_rhophi_eta_tau coord11 coord12 coord13 coord14 coord21 coord22 coord23 coord24 = VR.lorentz_dot.k_xy_theta_tau_rhophi_eta_tau coord11 coord12 coord13 coord14 coord21 coord22 coord23 coord24 := by
  simp only [VS.lorentz_dot.k_xy_theta_tau_rhophi_eta_tau, VR.lorentz_dot.k_xy_theta_tau_rhophi_eta_tau, c08_lorentz_t_xy_theta_tau, c08_lorentz_t_rhophi_eta_tau, VS.spatial_dot.xy_theta_rhophi_eta_eq, h0, h1, VR.P.nanToNum_eq]

theorem c08_lorentz_dot_k_xy_theta_tau_rhophi_theta_t (coord11 coord12 coord13 coord14 coord21 coord22 coord23 coord24 : ℝ) (h0 : 0 ≤ coord14) :
    VS.lorentz_dot.k_xy_theta_tau_rhophi_theta_t coord11 coord12 coord13 coord14 coord21 coord22 coord23 coord24 = VR.lorentz_dot.k_xy_theta_tau_rhophi_theta_t coord11 coord12 coord13 coord14 coord21 coord22 coord23 coord24 := by
  simp only [VS.lorentz_dot.k_xy_theta_tau_rhophi_theta_t, VR.lorentz_dot.k_xy_theta_tau_rhophi_theta_t, c08_lorentz_t_xy_theta_tau, VS.lorentz_t.rhophi_theta_t_eq, VS.spatial_dot.xy_theta_rhophi_theta_eq, h0, VR.P.nanToNum_eq]

theorem c08_lorentz_dot_k_xy_theta_tau_rhophi_theta_tau (coord11 coord12 coord13 coord14 coord21 coord22 coord23 coord24 : ℝ) (h0 : 0 ≤ coord14) (h1 : 0 ≤ coord24) :
    VS.lorentz_dot.k_xy_theta_tau_rhophi_theta_tau coord11 coord12 coord13 coord14 coord21 coord22 coord23 coord24 = VR.lorentz_dot.k_xy_theta_tau_rhophi_theta_tau coord11 coord12 coord13 coord14 coord21 coord22 coord23 coord24 := by
  simp only [VS.lorentz_dot.k_xy_theta_tau_rhophi_theta_tau, VR.lorentz_dot.k_xy_theta_tau_rhophi_theta_tau, c08_lorentz_t_xy_theta_tau, c08_lorentz_t_rhophi_theta_tau, VS.spatial_dot.xy_theta_rhophi_theta_eq, h0, h1, VR.P.nanToNum_eq]

theorem c08_lorentz_dot_k_xy_theta_tau_rhophi_z_t (coord11 coord12 coord13 coord14 coord21 coord22 coord23 coord24 : ℝ) (h0 : 0 ≤ coord14) :
    VS.lorentz_dot.k_xy_theta_tau_rhophi_z_t coord11 coord12 coord13 coord14 coord21 coord22 coord23 coord24 = VR.lorentz_dot.k_xy_theta_tau_rhophi_z_t coord11 coord12 coord13 coord14 coord21 coord22 coord23 coord24 := by
  simp only [VS.lorentz_dot.k_xy_theta_tau_rhophi_z_t, VR.lorentz_dot.k_xy_theta_tau_rhophi_z_t, c08_lorentz_t_xy_theta_tau, VS.lorentz_t.rhophi_z_t_eq, VS.spatial_dot.xy_theta_rhophi_z_eq, h0, VR.P.nanToNum_eq]

theorem c08_lorentz_dot_k_xy_theta_tau_rhophi_z_tau (coord11 coord12 coord13 coord14 coord21 coord22 coord23 coord24 : ℝ) (h0 : 0 ≤ coord14) (h1 : 0 ≤ coord24) :
    VS.lorentz_dot.k_xy_theta_tau_rhophi_z_tau coord11 coord12 coord13 coord14 coord21 coord22 coord23 coord24 = VR.lorentz_dot.k_xy_theta_tau_rhophi_z_tau coord11 coord12 coord13 coord14 coord21 coord22 coord23 coord24 := by
  simp only [VS.lorentz_dot.k_xy_theta_tau_rhophi_z_tau, VR.lorentz_dot.k_xy_theta_tau_rhophi_z_tau, c08_lorentz_t_xy_theta_tau, c08_lorentz_t_rhophi_z_tau, VS.spatial_dot.xy_theta_rhophi_z_eq, h0, h1, VR.P.nanToNum_eq]

theorem c08_lorentz_dot_k_xy_theta_tau_xy_eta_t (coord11 coord12 coord13 coord14 coord21 coord22 coord23 coord24 : ℝ) (h0 : 0 ≤ coord14) :
    VS.lorentz_dot.k_xy_theta_tau_xy_eta_t coord11 coord12 coord13 coord14 coord21 coord22 coord23 coord24 = VR.lorentz_dot.k_xy_theta_tau_xy_eta_t coord11 coord12 coord13 coord14 coord21 coord22 coord23 coord24 := by
  simp only [VS.lorentz_dot.k_xy_theta_tau_xy_eta_t, VR.lorentz_dot.k_xy_theta_tau_xy_eta_t, c08_lorentz_t_xy_theta_tau, VS.lorentz_t.xy_eta_t_eq, VS.spatial_dot.xy_theta_xy_eta_eq, h0, VR.P.nanToNum_eq]

theorem c08_lorentz_dot_k_xy_theta_tau_xy_eta_tau (coord11 coord12 coord13 coord14 coord21 coord22 coord23 coord24 : ℝ) (h0 : 0 ≤ coord14) (h1 : 0 ≤ coord24) :
    VS.lorentz_dot.k_xy_theta_tau_xy_eta_tau coord11 coord12 coord13 coord14 coord21 coord22 coord23 coord24 = VR.lorentz_dot.k_xy_theta_tau_xy_eta_tau coord11 coord12 coord13 coord14 coord21 coord22 coord23 coord24 := by
  simp only [VS.lorentz_dot.k_xy_theta_tau_xy_eta_tau, VR.lorentz_dot.k_xy_theta_tau_xy_eta_tau, c08_lorentz_t_xy_theta_tau, c08_lorentz_t_xy_eta_tau, VS.spatial_dot.xy_theta_xy_eta_eq, h0, h1, VR.P.nanToNum_eq]

theorem c08_lorentz_dot_k_xy_theta_tau_xy_theta_t (coord11 coord12 coord13 coord14 coord21 coord22 coord23 coord24 : ℝ) (h0 : 0 ≤ coord14) :
    VS.lorentz_dot.k_xy_theta_tau_xy_theta_t coord11 coord12 coord13 coord14 coord21 coord22 coord23 coord24 = VR.lorentz_dot.k_xy_theta_tau_xy_theta_t coord11 coord12 coord13 coord14 coord21 coord22 coord23 coord24 := by
  simp only [VS.lorentz_dot.k_xy_theta_tau_xy_theta_t, VR.lorentz_dot.k_xy_theta_tau_xy_theta_t, c08_lorentz_t_xy_theta_tau, VS.lorentz_t.xy_theta_t_eq, VS.spatial_dot.xy_theta_xy_theta_eq, h0, VR.P.nanToNum_eq]

theorem c08_lorentz_dot_k_xy_theta_tau_xy_theta_tau (coord11 coord12 coord13 coord14 coord21 coord22 coord23 coord24 : ℝ) (h0 : 0 ≤ coord14) (h1 : 0 ≤ coord24) :
    VS.lorentz_dot.k_xy_theta_tau_xy_theta_tau coord11 coord12 coord13 coord14 coord21 coord22 coord23 coord24 = VR.lorentz_dot.k_xy_theta_tau_xy_theta_tau coord11 coord12 coord13 coord14 coord21 coord22 coord23 coord24 := by
  simp only [VS.lorentz_dot.k_xy_theta_tau_xy_theta_tau, VR.lorentz_dot.k_xy_theta_tau_xy_theta_tau, c08_lorentz_t_xy_theta_tau, VS.spatial_dot.xy_theta_xy_theta_eq, h0, h1, VR.P.nanToNum_eq]

theorem c08_lorentz_dot_k_xy_theta_tau_xy_z_t (coord11 coord12 coord13 coord14 coord21 coord22 coord23 coord24 : ℝ) (h0 : 0 ≤ coord14) :
    VS.lorentz_dot.k_xy_theta_tau_xy_z_t coord11 coord12 coord13 coord14 coord21 coord22 coord23 coord24 = VR.lorentz_dot.k_xy_theta_tau_xy_z_t coord11 coord12 coord13 coord14 coord21 coord22 coord23 coord24 := by
  simp only [VS.lorentz_dot.k_xy_theta_tau_xy_z_t, VR.lorentz_dot.k_xy_theta_tau_xy_z_t, c08_lorentz_t_xy_theta_tau, VS.lorentz_t.xy_z_t_eq, VS.spatial_dot.xy_theta_xy_z_eq, h0, VR.P.nanToNum_eq]

theorem c08_lorentz_dot_k_xy_theta_tau_xy_z_tau (coord11 coord12 coord13 coord14 coord21 coord22 coord23 coord24 : ℝ) (h0 : 0 ≤ coord14) (h1 : 0 ≤ coord24) :
    VS.lorentz_dot.k_xy_theta_tau_xy_z_tau coord11 coord12 coord13 coord14 coord21 coord22 coord23 coord24 = VR.lorentz_dot.k_xy_theta_tau_xy_z_tau coord11 coord12 coord13 coord14 coord21 coord22 coord23 coord24 := by
  simp only [VS.lorentz_dot.k_xy_theta_tau_xy_z_tau, VR.lorentz_dot.k_xy_theta_tau_xy_z_tau, c08_lorentz_t_xy_theta_tau, c08_lorentz_t_xy_z_tau, VS.spatial_dot.xy_theta_xy_z_eq, h0, h1, VR.P.nanToNum_eq]

theorem c08_lorentz_dot_k_xy_z_t_rhophi_eta_tau (coord11 coord12 coord13 coord14 coord21 coord22 coord23 coord24 : ℝ) (h0 : 0 ≤ coord24) :
    VS.lorentz_dot.k_xy_z_t_rhophi_eta_tau coord11 coord12 coord13 coord14 coord21 coord22 coord23 coord24 = VR.lorentz_dot.k_xy_z_t_rhophi_eta_tau coord11 coord12 coord13 coord14 coord21 coord22 coord23 coord24 := by
  simp only [VS.lorentz_dot.k_xy_z_t_rhophi_eta_tau, VR.lorentz_dot.k_xy_z_t_rhophi_eta_tau, VS.lorentz_t.xy_z_t_eq, c08_lorentz_t_rhophi_eta_tau, VS.spatial_dot.xy_z_rhophi_eta_eq, h0, VR.P.nanToNum_eq]

theorem c08_lorentz_dot_k_xy_z_t_rhophi_theta_tau (coord11 coord12 coord13 coord14 coord21 coord22 coord23 coord24 : ℝ) (h0 : 0 ≤ coord24) :
    VS.lorentz_dot.k_xy_z_t_rhophi_theta_tau coord11 coord12 coord13 coord14 coord21 coord22 coord23 coord24 = VR.lorentz_dot.k_xy_z_t_rhophi_theta_tau coord11 coord12 coord13 coord14 coord21 coord22 coord23 coord24 := by
  simp only [VS.lorentz_dot.k_xy_z_t_rhophi_theta_tau, VR.lorentz_dot.k_xy_z_t_rhophi_theta_tau, VS.lorentz_t.xy_z_t_eq, c08_lorentz_t_rhophi_theta_tau, VS.spatial_dot.xy_z_rhophi_theta_eq, h0, VR.P.nanToNum_eq]

theorem c08_lorentz_dot_k_xy_z_t_rhophi_z_tau (coord11 coord12 coord13 coord14 coord21 coord22 coord23 coord24 : ℝ) (h0 : 0 ≤ coord24) :
    VS.lorentz_dot.k_xy_z_t_rhophi_z_tau coord11 coord12 coord13 coord14 coord21 coord22 coord23 coord24 = VR.lorentz_dot.k_xy_z_t_rhophi_z_tau coord11 coord12 coord13 coord14 coord21 coord22 coord23 coord24 := by
  simp only [VS.lorentz_dot.k_xy_z_t_rhophi_z_tau, VR.lorentz_dot.k_xy_z_t_rhophi_z_tau, VS.lorentz_t.xy_z_t_eq, c08_lorentz_t_rhophi_z_tau, VS.spatial_dot.xy_z_rhophi_z_eq, h0, VR.P.nanToNum_eq]

theorem c08_lorentz_dot_k_xy_z_t_xy_eta_tau (coord11 coord12 coord13 coord14 coord21 coord22 coord23 coord24 : ℝ) (h0 : 0 ≤ coord24) :
    VS.lorentz_dot.k_xy_z_t_xy_eta_tau coord11 coord12 coord13 coord14 coord21 coord22 coord23 coord24 = VR.lorentz_dot.k_xy_z_t_xy_eta_tau coord11 coord12 coord13 coord14 coord21 coord22 coord23 coord24 := by
  simp only [VS.lorentz_dot.k_xy_z_t_xy_eta_tau, VR.lorentz_dot.k_xy_z_t_xy_eta_tau, VS.lorentz_t.xy_z_t_eq, c08_lorentz_t_xy_eta_tau, VS.spatial_dot.xy_z_xy_eta_eq, h0, VR.P.nanToNum_eq]

theorem c08_lorentz_dot_k_xy_z_t_xy_theta_tau (coord11 coord12 coord13 coord14 coord21 coord22 coord23 coord24 : ℝ) (h0 : 0 ≤ coord24) :
    VS.lorentz_dot.k_xy_z_t_xy_theta_tau coord11 coord12 coord13 coord14 coord21 coord22 coord23 coord24 = VR.lorentz_dot.k_xy_z_t_xy_theta_tau coord11 coord12 coord13 coord14 coord21 coord22 coord23 coord24 := by
  simp only [VS.lorentz_dot.k_xy_z_t_xy_theta_tau, VR.lorentz_dot.k_xy_z_t_xy_theta_tau, VS.lorentz_t.xy_z_t_eq, c08_lorentz_t_xy_theta_tau, VS.spatial_dot.xy_z_xy_theta_eq, h0, VR.P.nanToNum_eq]

theorem c08_lorentz_dot_k_xy_z_t_xy_z_tau (coord11 coord12 coord13 coord14 coord21 coord22 coord23 coord24 : ℝ) (h0 : 0 ≤ coord24) :
    VS.lorentz_dot.k_xy_z_t_xy_z_tau coord11 coord12 coord13 coord14 coord21 coord22 coord23 coord24 = VR.lorentz_dot.k_xy_z_t_xy_z_tau coord11 coord12 coord13 coord14 coord21 coord22 coord23 coord24 := by
  simp only [VS.lorentz_dot.k_xy_z_t_xy_z_tau, VR.lorentz_dot.k_xy_z_t_xy_z_tau, VS.lorentz_t.xy_z_t_eq, c08_lorentz_t_xy_z_tau, VS.spatial_dot.xy_z_xy_z_eq, h0, VR.P.nanToNum_eq]

theorem c08_lorentz_dot_k_xy_z_tau_rhophi_eta_t (coord11 coord12 coord13 coord14 coord21 coord22 coord23 coord24 : ℝ) (h0 : 0 ≤ coord14) :
    VS.lorentz_dot.k_xy_z_tau_rhophi_eta_t coord11 coord12 coord13 coord14 coord21 coord22 coord23 coord24 = VR.lorentz_dot.k_xy_z_tau_rhophi_eta_t coord11 coord12 coord13 coord14 coord21 coord22 coord23 coord24 := by
  simp only [VS.lorentz_dot.k_xy_z_tau_rhophi_eta_t, VR.lorentz_dot.k_xy_z_tau_rhophi_eta_t, c08_lorentz_t_xy_z_tau, VS.lorentz_t.rhophi_eta_t_eq, VS.spatial_dot.xy_z_rhophi_eta_eq, h0, VR.P.nanToNum_eq]

theorem c08_lorentz_dot_k_xy_z_tau_rhophi_eta_tau (coord11 coord12 coord13 coord14 coord21 coord22 coord23 coord24 : ℝ) (h0 : 0 ≤ coord14) (h1 : 0 ≤ coord24) :
    VS.lorentz_dot.k_xy_z_tau_rhophi_eta_tau coord11 coord12 coord13 coord14 coord21 coord22 coord23 coord24 = VR.lorentz_dot.k_xy_z_tau_rhophi_eta_tau coord11 coord12 coord13 coord14 coord21 coord22 coord23 coord24 := by
  simp only [VS.lorentz_dot.k_xy_z_tau_rhophi_eta_tau, VR.lorentz_dot.k_xy_z_tau_rhophi_eta_tau, c08_lorentz_t_xy_z_tau, c08_lorentz_t_rhophi_eta_tau, VS.spatial_dot.xy_z_rhophi_eta_eq, h0, h1, VR.P.nanToNum_eq]

theorem c08_lorentz_dot_k_xy_z_tau_rhophi_theta_t (coord11 coord12 coord13 coord14 coord21 coord22 coord23 coord24 : ℝ) (h0 : 0 ≤ coord14) :
    VS.lorentz_dot.k_xy_z_tau_rhophi_theta_t coord11 coord12 coord13 coord14 coord21 coord22 coord23 coord24 = VR.lorentz_dot.k_xy_z_tau_rhophi_theta_t coord11 coord12 coord13 coord14 coord21 coord22 coord23 coord24 := by
  simp only [VS.lorentz_dot.k_xy_z_tau_rhophi_theta_t, VR.lorentz_dot.k_xy_z_tau_rhophi_theta_t, c08_lorentz_t_xy_z_tau, VS.lorentz_t.rhophi_theta_t_eq, VS.spatial_dot.xy_z_rhophi_theta_eq, h0, VR.P.nanToNum_eq]

theorem c08_lorentz_dot_k_xy_z_tau_rhophi_theta_tau (coord11 coord12 coord13 coord14 coord21 coord22 coord23 coord24 : ℝ) (h0 : 0 ≤ coord14) (h1 : 0 ≤ coord24) :
    VS.lorentz_dot.k_xy_z_tau_rhophi_theta_tau coord11 coord12 coord13 coord14 coord21 coord22 coord23 coord24 = VR.lorentz_dot.k_xy_z_tau_rhophi_theta_tau coord11 coord12 coord13 coord14 coord21 coord22 coord23 coord24 := by
  simp only [VS.lorentz_dot.k_xy_z_tau_rhophi_theta_tau, VR.lorentz_dot.k_xy_z_tau_rhophi_theta_tau, c08_lorentz_t_xy_z_tau, c08_lorentz_t_rhophi_theta_tau, VS.spatial_dot.xy_z_rhophi_theta_eq, h0, h1, VR.P.nanToNum_eq]

theorem c08_lorentz_dot_k_xy_z_tau_rhophi_z_t (coord11 coord12 coord13 coord14 coord21 coord22 coord23 coord24 : ℝ) (h0 : 0 ≤ coord14) :
    VS.lorentz_dot.k_xy_z_tau_rhophi_z_t coord11 coord12 coord13 coord14 coord21 coord22 coord23 coord24 = VR.lorentz_dot.k_xy_z_tau_rhophi_z_t coord11 coord12 coord13 coord14 coord21 coord22 coord23 coord24 := by
  simp only [VS.lorentz_dot.k_xy_z_tau_rhophi_z_t, VR.lorentz_dot.k_xy_z_tau_rhophi_z_t, c08_lorentz_t_xy_z_tau, VS.lorentz_t.rhophi_z_t_eq, VS.spatial_dot.xy_z_rhophi_z_eq, h0, VR.P.nanToNum_eq]

theorem c08_lorentz_dot_k_xy_z_tau_rhophi_z_tau (coord11 coord12 coord13 coord14 coord21 coord22 coord23 coord24 : ℝ) (h0 : 0 ≤ coord24) (h1 : 0 ≤ coord14) :
    VS.lorentz_dot.k_xy_z_tau_rhophi_z_tau coord11 coord12 coord13 coord14 coord21 coord22 coord23 coord24 = VR.lorentz_dot.k_xy_z_tau_rhophi_z_tau coord11 coord12 coord13 coord14 coord21 coord22 coord23 coord24 := by
  simp only [VS.lorentz_dot.k_xy_z_tau_rhophi_z_tau, VR.lorentz_dot.k_xy_z_tau_rhophi_z_tau, c08_lorentz_t_xy_z_tau, c08_lorentz_t_rhophi_z_tau, VS.spatial_dot.xy_z_rhophi_z_eq, h0, h1, VR.P.nanToNum_eq]

theorem c08_lorentz_dot_k_xy_z_tau_xy_eta_t (coord11 coord12 coord13 coord14 coord21 coord22 coord23 coord24 : ℝ) (h0 : 0 ≤ coord14) :
    VS.lorentz_dot.k_xy_z_tau_xy_eta_t coord11 coord12 coord13 coord14 coord21 coord22 coord23 coord24 = VR.lorentz_dot.k_xy_z_tau_xy_eta_t coord11 coord12 coord13 coord14 coord21 coord22 coord23 coord24 := by
  simp only [VS.lorentz_dot.k_xy_z_tau_xy_eta_t, VR.lorentz_dot.k_xy_z_tau_xy_eta_t, c08_lorentz_t_xy_z_tau, VS.lorentz_t.xy_eta_t_eq, VS.spatial_dot.xy_z_xy_eta_eq, h0, VR.P.nanToNum_eq]

theorem c08_lorentz_dot_k_xy_z_tau_xy_eta_tau (coord11 coord12 coord13 coord14 coord21 coord22 coord23 coord24 : ℝ) (h0 : 0 ≤ coord24) (h1 : 0 ≤ coord14) :
    VS.lorentz_dot.k_xy_z_tau_xy_eta_tau coord11 coord12 coord13 coord14 coord21 coord22 coord23 coord24 = VR.lorentz_dot.k_xy_z_tau_xy_eta_tau coord11 coord12 coord13 coord14 coord21 coord22 coord23 coord24 := by
  simp only [VS.lorentz_dot.k_xy_z_tau_xy_eta_tau, VR.lorentz_dot.k_xy_z_tau_xy_eta_tau, c08_lorentz_t_xy_z_tau, c08_lorentz_t_xy_eta_tau, VS.spatial_dot.xy_z_xy_eta_eq, h0, h1, VR.P.nanToNum_eq]

theorem c08_lorentz_dot_k_xy_z_tau_xy_theta_t (coord11 coord12 coord13 coord14 coord21 coord22 coord23 coord24 : ℝ) (h0 : 0 ≤ coord14) :
    VS.lorentz_dot.k_xy_z_tau_xy_theta_t coord11 coord12 coord13 coord14 coord21 coord22 coord23 coord24 = VR.lorentz_dot.k_xy_z_tau_xy_theta_t coord11 coord12 coord13 coord14 coord21 coord22 coord23 coord24 := by
  simp only [VS.lorentz_dot.k_xy_z_tau_xy_theta_t, VR.lorentz_dot.k_xy_z_tau_xy_theta_t, c08_lorentz_t_xy_z_tau, VS.lorentz_t.xy_theta_t_eq, VS.spatial_dot.xy_z_xy_theta_eq, h0, VR.P.nanToNum_eq]

theorem c08_lorentz_dot_k_xy_z_tau_xy_theta_tau (coord11 coord12 coord13 coord14 coord21 coord22 coord23 coord24 : ℝ) (h0 : 0 ≤ coord14) (h1 : 0 ≤ coord24) :
    VS.lorentz_dot.k_xy_z_tau_xy_theta_tau coord11 coord12 coord13 coord14 coord21 coord22 coord23 coord24 = VR.lorentz_dot.k_xy_z_tau_xy_theta_tau coord11 coord12 coord13 coord14 coord21 coord22 coord23 coord24 := by
  simp only [VS.lorentz_dot.k_xy_z_tau_xy_theta_tau, VR.lorentz_dot.k_xy_z_tau_xy_theta_tau, c08_lorentz_t_xy_z_tau, c08_lorentz_t_xy_theta_tau, VS.spatial_dot.xy_z_xy_theta_eq, h0, h1, VR.P.nanToNum_eq]

theorem c08_lorentz_dot_k_xy_z_tau_xy_z_t (coord11 coord12 coord13 coord14 coord21 coord22 coord23 coord24 : ℝ) (h0 : 0 ≤ coord14) :
    VS.lorentz_dot.k_xy_z_tau_xy_z_t coord11 coord12 coord13 coord14 coord21 coord22 coord23 coord24 = VR.lorentz_dot.k_xy_z_tau_xy_z_t coord11 coord12 coord13 coord14 coord21 coord22 coord23 coord24 := by
  simp only [VS.lorentz_dot.k_xy_z_tau_xy_z_t, VR.lorentz_dot.k_xy_z_tau_xy_z_t, c08_lorentz_t_xy_z_tau, VS.lorentz_t.xy_z_t_eq, VS.spatial_dot.xy_z_xy_z_eq, h0, VR.P.nanToNum_eq]

theorem c08_lorentz_dot_k_xy_z_tau_xy_z_tau (coord11 coord12 coord13 coord14 coord21 coord22 coord23 coord24 : ℝ) (h0 : 0 ≤ coord14) (h1 : 0 ≤ coord24) :
    VS.lorentz_dot.k_xy_z_tau_xy_z_tau coord11 coord12 coord13 coord14 coord21 coord22 coord23 coord24 = VR.lorentz_dot.k_xy_z_tau_xy_z_tau coord11 coord12 coord13 coord14 coord21 coord22 coord23 coord24 := by
  simp only [VS.lorentz_dot.k_xy_z_tau_xy_z_tau, VR.lorentz_dot.k_xy_z_tau_xy_z_tau, c08_lorentz_t_xy_z_tau, VS.spatial_dot.xy_z_xy_z_eq, h0, h1, VR.P.nanToNum_eq]


/-! ### `lorentz_equal` -/

theorem c08_lorentz_equal_k_rhophi_eta_t_rhophi_eta_tau (coord11 coord12 coord13 coord14 coord21 coord22 coord23 coord24 : ℝ) (h0 : 0 ≤ coord24) :
    VS.lorentz_equal.k_rhophi_eta_t_rhophi_eta_tau coord11 coord12 coord13 coord14 coord21 coord22 coord23 coord24 = VR.lorentz_equal.k_rhophi_eta_t_rhophi_eta_tau coord11 coord12 coord13 coord14 coord21 coord22 coord23 coord24 := by
  simp only [VS.lorentz_equal.k_rhophi_eta_t_rhophi_eta_tau, VR.lorentz_equal.k_rhophi_eta_t_rhophi_eta_tau, VS.lorentz_t.rhophi_eta_t_eq, c08_lorentz_t_rhophi_eta_tau, VS.spatial_equal.rhophi_eta_rhophi_eta_eq, h0, VR.P.nanToNum_eq]

theorem c08_lorentz_equal_k_rhophi_eta_t_rhophi_theta_tau (coord11 coord12 coord13 coord14 coord21 coord22 coord23 coord24 : ℝ) (h0 : 0 ≤ coord24) :
    VS.lorentz_equal.k_rhophi_eta_t_rhophi_theta_tau coord11 coord12 coord13 coord14 coord21 coord22 coord23 coord24 = VR.lorentz_equal.k_rhophi_eta_t_rhophi_theta_tau coord11 coord12 coord13 coord14 coord21 coord22 coord23 coord24 := by
  simp only [VS.lorentz_equal.k_rhophi_eta_t_rhophi_theta_tau, VR.lorentz_equal.k_rhophi_eta_t_rhophi_theta_tau, VS.lorentz_t.rhophi_eta_t_eq, c08_lorentz_t_rhophi_theta_tau, VS.spatial_equal.rhophi_eta_rhophi_theta_eq, h0, VR.P.nanToNum_eq]

theorem c08_lorentz_equal_k_rhophi_eta_t_rhophi_z_tau (coord11 coord12 coord13 coord14 coord21 coord22 coord23 coord24 : ℝ) (h0 : 0 ≤ coord24) :
    VS.lorentz_equal.k_rhophi_eta_t_rhophi_z_tau coord11 coord12 coord13 coord14 coord21 coord22 coord23 coord24 = VR.lorentz_equal.k_rhophi_eta_t_rhophi_z_tau coord11 coord12 coord13 coord14 coord21 coord22 coord23 coord24 := by
  simp only [VS.lorentz_equal.k_rhophi_eta_t_rhophi_z_tau, VR.lorentz_equal.k_rhophi_eta_t_rhophi_z_tau, VS.lorentz_t.rhophi_eta_t_eq, c08_lorentz_t_rhophi_z_tau, VS.spatial_equal.rhophi_eta_rhophi_z_eq, h0, VR.P.nanToNum_eq]

theorem c08_lorentz_equal_k_rhophi_eta_t_xy_eta_tau (coord11 coord12 coord13 coord14 coord21 coord22 coord23 coord24 : ℝ) (h0 : 0 ≤ coord24) :
    VS.lorentz_equal.k_rhophi_eta_t_xy_eta_tau coord11 coord12 coord13 coord14 coord21 coord22 coord23 coord24 = VR.lorentz_equal.k_rhophi_eta_t_xy_eta_tau coord11 coord12 coord13 coord14 coord21 coord22 coord23 coord24 := by
  simp only [VS.lorentz_equal.k_rhophi_eta_t_xy_eta_tau, VR.lorentz_equal.k_rhophi_eta_t_xy_eta_tau, VS.lorentz_t.rhophi_eta_t_eq, c08_lorentz_t_xy_eta_tau, VS.spatial_equal.rhophi_eta_xy_eta_eq, h0, VR.P.nanToNum_eq]

theorem c08_lorentz_equal_k_rhophi_eta_t_xy_theta_tau (coord11 coord12 coord13 coord14 coord21 coord22 coord23 coord24 : ℝ) (h0 : 0 ≤ coord24) :
    VS.lorentz_equal.k_rhophi_eta_t_xy_theta_tau coord11 coord12 coord13 coord14 coord21 coord22 coord23 coord24 = VR.lorentz_equal.k_rhophi_eta_t_xy_theta_tau coord11 coord12 coord13 coord14 coord21 coord22 coord23 coord24 := by
  simp only [VS.lorentz_equal.k_rhophi_eta_t_xy_theta_tau, VR.lorentz_equal.k_rhophi_eta_t_xy_theta_tau, VS.lorentz_t.rhophi_eta_t_eq, c08_lorentz_t_xy_theta_tau, VS.spatial_equal.rhophi_eta_xy_theta_eq, h0, VR.P.nanToNum_eq]

theorem c08_lorentz_equal_k_rhophi_eta_t_xy_z_tau (coord11 coord12 coord13 coord14 coord21 coord22 coord23 coord24 : ℝ) (h0 : 0 ≤ coord24) :
    VS.lorentz_equal.k_rhophi_eta_t_xy_z_tau coord11 coord12 coord13 coord14 coord21 coord22 coord23 coord24 = VR.lorentz_equal.k_rhophi_eta_t_xy_z_tau coord11 coord12 coord13 coord14 coord21 coord22 coord23 coord24 := by
  simp only [VS.lorentz_equal.k_rhophi_eta_t_xy_z_tau, VR.lorentz_equal.k_rhophi_eta_t_xy_z_tau, VS.lorentz_t.rhophi_eta_t_eq, c08_lorentz_t_xy_z_tau, VS.spatial_equal.rhophi_eta_xy_z_eq, h0, VR.P.nanToNum_eq]

theorem c08_lorentz_equal_k_rhophi_eta_tau_rhophi_eta_t (coord11 coord12 coord13 coord14 coord21 coord22 coord23 coord24 : ℝ) (h0 : 0 ≤ coord14) :
    VS.lorentz_equal.k_rhophi_eta_tau_rhophi_eta_t coord11 coord12 coord13 coord14 coord21 coord22 coord23 coord24 = VR.lorentz_equal.k_rhophi_eta_tau_rhophi_eta_t coord11 coord12 coord13 coord14 coord21 coord22 coord23 coord24 := by
  simp only [VS.lorentz_equal.k_rhophi_eta_tau_rhophi_eta_t, VR.lorentz_equal.k_rhophi_eta_tau_rhophi_eta_t, c08_lorentz_t_rhophi_eta_tau, VS.lorentz_t.rhophi_eta_t_eq, VS.spatial_equal.rhophi_eta_rhophi_eta_eq, h0, VR.P.nanToNum_eq]

theorem c08_lorentz_equal_k_rhophi_eta_tau_rhophi_theta_t (coord11 coord12 coord13 coord14 coord21 coord22 coord23 coord24 : ℝ) (h0 : 0 ≤ coord14) :
    VS.lorentz_equal.k_rhophi_eta_tau_rhophi_theta_t coord11 coord12 coord13 coord14 coord21 coord22 coord23 coord24 = VR.lorentz_equal.k_rhophi_eta_tau_rhophi_theta_t coord11 coord12 coord13 coord14 coord21 coord22 coord23 coord24 := by
  simp only [VS.lorentz_equal.k_rhophi_eta_tau_rhophi_theta_t, VR.lorentz_equal.k_rhophi_eta_tau_rhophi_theta_t, c08_lorentz_t_rhophi_eta_tau, VS.lorentz_t.rhophi_theta_t_eq, VS.spatial_equal.rhophi_eta_rhophi_theta_eq, h0, VR.P.nanToNum_eq]

theorem c08_lorentz_equal_k_rhophi_eta_tau_rhophi_z_t (coord11 coord12 coord13 coord14 coord21 coord22 coord23 coord24 : ℝ) (h0 : 0 ≤ coord14) :
    VS.lorentz_equal.k_rhophi_eta_tau_rhophi_z_t coord11 coord12 coord13 coord14 coord21 coord22 coord23 coord24 = VR.lorentz_equal.k_rhophi_eta_tau_rhophi_z_t coord11 coord12 coord13 coord14 coord21 coord22 coord23 coord24 := by
  simp only [VS.lorentz_equal.k_rhophi_eta_tau_rhophi_z_t, VR.lorentz_equal.k_rhophi_eta_tau_rhophi_z_t, c08_lorentz_t_rhophi_eta_tau, VS.lorentz_t.rhophi_z_t_eq, VS.spatial_equal.rhophi_eta_rhophi_z_eq, h0, VR.P.nanToNum_eq]

theorem c08_lorentz_equal_k_rhophi_eta_tau_xy_eta_t (coord11 coord12 coord13 coord14 coord21 coord22 coord23 coord24 : ℝ) (h0 : 0 ≤ coord14) :
    VS.lorentz_equal.k_rhophi_eta_tau_xy_eta_t coord11 coord12 coord13 coord14 coord21 coord22 coord23 coord24 = VR.lorentz_equal.k_rhophi_eta_tau_xy_eta_t coord11 coord12 coord13 coord14 coord21 coord22 coord23 coord24 := by
  simp only [VS.lorentz_equal.k_rhophi_eta_tau_xy_eta_t, VR.lorentz_equal.k_rhophi_eta_tau_xy_eta_t, c08_lorentz_t_rhophi_eta_tau, VS.lorentz_t.xy_eta_t_eq, VS.spatial_equal.rhophi_eta_xy_eta_eq, h0, VR.P.nanToNum_eq]

theorem c08_lorentz_equal_k_rhophi_eta_tau_xy_theta_t (coord11 coord12 coord13 coord14 coord21 coord22 coord23 coord24 : ℝ) (h0 : 0 ≤ coord14) :
    VS.lorentz_equal.k_rhophi_eta_tau_xy_theta_t coord11 coord12 coord13 coord14 coord21 coord22 coord23 coord24 = VR.lorentz_equal.k_rhophi_eta_tau_xy_theta_t coord11 coord12 coord13 coord14 coord21 coord22 coord23 coord24 := by
  simp only [VS.lorentz_equal.k_rhophi_eta_tau_xy_theta_t, VR.lorentz_equal.k_rhophi_eta_tau_xy_theta_t, c08_lorentz_t_rhophi_eta_tau, VS.lorentz_t.xy_theta_t_eq, VS.spatial_equal.rhophi_eta_xy_theta_eq, h0, VR.P.nanToNum_eq]

theorem c08_lorentz_equal_k_rhophi_eta_tau_xy_z_t (coord11 coord12 coord13 coord14 coord21 coord22 coord23 coord24 : ℝ) (h0 : 0 ≤ coord14) :
    VS.lorentz_equal.k_rhophi_eta_tau_xy_z_t coord11 coord12 coord13 coord14 coord21 coord22 coord23 coord24 = VR.lorentz_equal.k_rhophi_eta_tau_xy_z_t coord11 coord12 coord13 coord14 coord21 coord22 coord23 coord24 := by
  simp only [VS.lorentz_equal.k_rhophi_eta_tau_xy_z_t, VR.lorentz_equal.k_rhophi_eta_tau_xy_z_t, c08_lorentz_t_rhophi_eta_tau, VS.lorentz_t.xy_z_t_eq, VS.spatial_equal.rhophi_eta_xy_z_eq, h0, VR.P.nanToNum_eq]

theorem c08_lorentz_equal_k_rhophi_theta_t_rhophi_eta_tau (coord11 coord12 coord13 coord14 coord21 coord22 coord23 coord24 : ℝ) (h0 : 0 ≤ coord24) :
    VS.lorentz_equal.k_rhophi_theta_t_rhophi_eta_tau coord11 coord12 coord13 coord14 coord21 coord22 coord23 coord24 = VR.lorentz_equal.k_rhophi_theta_t_rhophi_eta_tau coord11 coord12 coord13 coord14 coord21 coord22 coord23 coord24 := by
  simp only [VS.lorentz_equal.k_rhophi_theta_t_rhophi_eta_tau, VR.lorentz_equal.k_rhophi_theta_t_rhophi_eta_tau, VS.lorentz_t.rhophi_theta_t_eq, c08_lorentz_t_rhophi_eta_tau, VS.spatial_equal.rhophi_theta_rhophi_eta_eq, h0, VR.P.nanToNum_eq]

theorem c08_lorentz_equal_k_rhophi_theta_t_rhophi_theta_tau (coord11 coord12 coord13 coord14 coord21 coord22 coord23 coord24 : ℝ) (h0 : 0 ≤ coord24) :
    VS.lorentz_equal.k_rhophi_theta_t_rhophi_theta_tau coord11 coord12 coord13 coord14 coord21 coord22 coord23 coord24 = VR.lorentz_equal.k_rhophi_theta_t_rhophi_theta_tau coord11 coord12 coord13 coord14 coord21 coord22 coord23 coord24 := by
  simp only [VS.lorentz_equal.k_rhophi_theta_t_rhophi_theta_tau, VR.lorentz_equal.k_rhophi_theta_t_rhophi_theta_tau, VS.lorentz_t.rhophi_theta_t_eq, c08_lorentz_t_rhophi_theta_tau, VS.spatial_equal.rhophi_theta_rhophi_theta_eq, h0, VR.P.nanToNum_eq]

theorem c08_lorentz_equal_k_rhophi_theta_t_rhophi_z_tau (coord11 coord12 coord13 coord14 coord21 coord22 coord23 coord24 : ℝ) (h0 : 0 ≤ coord24) :
    VS.lorentz_equal.k_rhophi_theta_t_rhophi_z_tau coord11 coord12 coord13 coord14 coord21 coord22 coord23 coord24 = VR.lorentz_equal.k_rhophi_theta_t_rhophi_z_tau coord11 coord12 coord13 coord14 coord21 coord22 coord23 coord24 := by
  simp only [VS.lorentz_equal.k_rhophi_theta_t_rhophi_z_tau, VR.lorentz_equal.k_rhophi_theta_t_rhophi_z_tau, VS.lorentz_t.rhophi_theta_t_eq, c08_lorentz_t_rhophi_z_tau, VS.spatial_equal.rhophi_theta_rhophi_z_eq, h0, VR.P.nanToNum_eq]

theorem c08_lorentz_equal_k_rhophi_theta_t_xy_eta_tau (coord11 coord12 coord13 coord14 coord21 coord22 coord23 coord24 : ℝ) (h0 : 0 ≤ coord24) :
    VS.lorentz_equal.k_rhophi_theta_t_xy_eta_tau coord11 coord12 coord13 coord14 coord21 coord22 coord23 coord24 = VR.lorentz_equal.k_rhophi_theta_t_xy_eta_tau coord11 coord12 coord13 coord14 coord21 coord22 coord23 coord24 := by
  simp only [VS.lorentz_equal.k_rhophi_theta_t_xy_eta_tau, VR.lorentz_equal.k_rhophi_theta_t_xy_eta_tau, VS.lorentz_t.rhophi_theta_t_eq, c08_lorentz_t_xy_eta_tau, VS.spatial_equal.rhophi_theta_xy_eta_eq, h0, VR.P.nanToNum_eq]

theorem c08_lorentz_equal_k_rhophi_theta_t_xy_theta_tau (coord11 coord12 coord13 coord14 coord21 coord22 coord23 coord24 : ℝ) (h0 : 0 ≤ coord24) :
    VS.lorentz_equal.k_rhophi_theta_t_xy_theta_tau coord11 coord12 coord13 coord14 coord21 coord22 coord23 coord24 = VR.lorentz_equal.k_rhophi_theta_t_xy_theta_tau coord11 coord12 coord13 coord14 coord21 coord22 coord23 coord24 := by
  simp only [VS.lorentz_equal.k_rhophi_theta_t_xy_theta_tau, VR.lorentz_equal.k_rhophi_theta_t_xy_theta_tau, VS.lorentz_t.rhophi_theta_t_eq, c08_lorentz_t_xy_theta_tau, VS.spatial_equal.rhophi_theta_xy_theta_eq, h0, VR.P.nanToNum_eq]

theorem c08_lorentz_equal_k_rhophi_theta_t_xy_z_tau (coord11 coord12 coord13 coord14 coord21 coord22 coord23 coord24 : ℝ) (h0 : 0 ≤ coord24) :
    VS.lorentz_equal.k_rhophi_theta_t_xy_z_tau coord11 coord12 coord13 coord14 coord21 coord22 coord23 coord24 = VR.lorentz_equal.k_rhophi_theta_t_xy_z_tau coord11 coord12 coord13 coord14 coord21 coord22 coord23 coord24 := by
  simp only [VS.lorentz_equal.k_rhophi_theta_t_xy_z_tau, VR.lorentz_equal.k_rhophi_theta_t_xy_z_tau, VS.lorentz_t.rhophi_theta_t_eq, c08_lorentz_t_xy_z_tau, VS.spatial_equal.rhophi_theta_xy_z_eq, h0, VR.P.nanToNum_eq]

theorem c08_lorentz_equal_k_rhophi_theta_tau_rhophi_eta_t (coord11 coord12 coord13 coord14 coord21 coord22 coord23 coord24 : ℝ) (h0 : 0 ≤ coord14) :
    VS.lorentz_equal.k_rhophi_theta_tau_rhophi_eta_t coord11 coord12 coord13 coord14 coord21 coord22 coord23 coord24 = VR.lorentz_equal.k_rhophi_theta_tau_rhophi_eta_t coord11 coord12 coord13 coord14 coord21 coord22 coord23 coord24 := by
  simp only [VS.lorentz_equal.k_rhophi_theta_tau_rhophi_eta_t, VR.lorentz_equal.k_rhophi_theta_tau_rhophi_eta_t, c08_lorentz_t_rhophi_theta_tau, VS.lorentz_t.rhophi_eta_t_eq, VS.spatial_equal.rhophi_theta_rhophi_eta_eq, h0, VR.P.nanToNum_eq]

theorem c08_lorentz_equal_k_rhophi_theta_tau_rhophi_theta_t (coord11 coord12 coord13 coord14 coord21 coord22 coord23 coord24 : ℝ) (h0 : 0 ≤ coord14) :
    VS.lorentz_equal.k_rhophi_theta_tau_rhophi_theta_t coord11 coord12 coord13 coord14 coord21 coord22 coord23 coord24 = VR.lorentz_equal.k_rhophi_theta_tau_rhophi_theta_t coord11 coord12 coord13 coord14 coord21 coord22 coord23 coord24 := by
  simp only [VS.lorentz_equal.k_rhophi_theta_tau_rhophi_theta_t, VR.lorentz_equal.k_rhophi_theta_tau_rhophi_theta_t, c08_lorentz_t_rhophi_theta_tau, VS.lorentz_t.rhophi_theta_t_eq, VS.spatial_equal.rhophi_theta_rhophi_theta_eq, h0, VR.P.nanToNum_eq]

theorem c08_lorentz_equal_k_rhophi_theta_tau_rhophi_z_t (coord11 coord12 coord13 coord14 coord21 coord22 coord23 coord24 : ℝ) (h0 : 0 ≤ coord14) :
    VS.lorentz_equal.k_rhophi_theta_tau_rhophi_z_t coord11 coord12 coord13 coord14 coord21 coord22 coord23 coord24 = VR.lorentz_equal.k_rhophi_theta_tau_rhophi_z_t coord11 coord12 coord13 coord14 coord21 coord22 coord23 coord24 := by
  simp only [VS.lorentz_equal.k_rhophi_theta_tau_rhophi_z_t, VR.lorentz_equal.k_rhophi_theta_tau_rhophi_z_t, c08_lorentz_t_rhophi_theta_tau, VS.lorentz_t.rhophi_z_t_eq, VS.spatial_equal.rhophi_theta_rhophi_z_eq, h0, VR.P.nanToNum_eq]

theorem c08_lorentz_equal_k_rhophi_theta_tau_xy_eta_t (coord11 coord12 coord13 coord14 coord21 coord22 coord23 coord24 : ℝ) (h0 : 0 ≤ coord14) :
    VS.lorentz_equal.k_rhophi_theta_tau_xy_eta_t coord11 coord12 coord13 coord14 coord21 coord22 coord23 coord24 = VR.lorentz_equal.k_rhophi_theta_tau_xy_eta_t coord11 coord12 coord13 coord14 coord21 coord22 coord23 coord24 := by
  simp only [VS.lorentz_equal.k_rhophi_theta_tau_xy_eta_t, VR.lorentz_equal.k_rhophi_theta_tau_xy_eta_t, c08_lorentz_t_rhophi_theta_tau, VS.lorentz_t.xy_eta_t_eq, VS.spatial_equal.rhophi_theta_xy_eta_eq, h0, VR.P.nanToNum_eq]

theorem c08_lorentz_equal_k_rhophi_theta_tau_xy_theta_t (coord11 coord12 coord13 coord14 coord21 coord22 coord23 coord24 : ℝ) (h0 : 0 ≤ coord14) :
    VS.lorentz_equal.k_rhophi_theta_tau_xy_theta_t coord11 coord12 coord13 coord14 coord21 coord22 coord23 coord24 = VR.lorentz_equal.k_rhophi_theta_tau_xy_theta_t coord11 coord12 coord13 coord14 coord21 coord22 coord23 coord24 := by
  simp only [VS.lorentz_equal.k_rhophi_theta_tau_xy_theta_t, VR.lorentz_equal.k_rhophi_theta_tau_xy_theta_t, c08_lorentz_t_rhophi_theta_tau, VS.lorentz_t.xy_theta_t_eq, VS.spatial_equal.rhophi_theta_xy_theta_eq, h0, VR.P.nanToNum_eq]

theorem c08_lorentz_equal_k_rhophi_theta_tau_xy_z_t (coord11 coord12 coord13 coord14 coord21 coord22 coord23 coord24 : ℝ) (h0 : 0 ≤ coord14) :
    VS.lorentz_equal.k_rhophi_theta_tau_xy_z_t coord11 coord12 coord13 coord14 coord21 coord22 coord23 coord24 = VR.lorentz_equal.k_rhophi_theta_tau_xy_z_t coord11 coord12 coord13 coord14 coord21 coord22 coord23 coord24 := by
  simp only [VS.lorentz_equal.k_rhophi_theta_tau_xy_z_t, VR.lorentz_equal.k_rhophi_theta_tau_xy_z_t, c08_lorentz_t_rhophi_theta_tau, VS.lorentz_t.xy_z_t_eq, VS.spatial_equal.rhophi_theta_xy_z_eq, h0, VR.P.nanToNum_eq]

theorem c08_lorentz_equal_k_rhophi_z_t_rhophi_eta_tau (coord11 coord12 coord13 coord14 coord21 coord22 coord23 coord24 : ℝ) (h0 : 0 ≤ coord24) :
    VS.lorentz_equal.k_rhophi_z_t_rhophi_eta_tau coord11 coord12 coord13 coord14 coord21 coord22 coord23 coord24 = VR.lorentz_equal.k_rhophi_z_t_rhophi_eta_tau coord11 coord12 coord13 coord14 coord21 coord22 coord23 coord24 := by
  simp only [VS.lorentz_equal.k_rhophi_z_t_rhophi_eta_tau, VR.lorentz_equal.k_rhophi_z_t_rhophi_eta_tau, VS.lorentz_t.rhophi_z_t_eq, c08_lorentz_t_rhophi_eta_tau, VS.spatial_equal.rhophi_z_rhophi_eta_eq, h0, VR.P.nanToNum_eq]

theorem c08_lorentz_equal_k_rhophi_z_t_rhophi_theta_tau (coord11 coord12 coord13 coord14 coord21 coord22 coord23 coord24 : ℝ) (h0 : 0 ≤ coord24) :
    VS.lorentz_equal.k_rhophi_z_t_rhophi_theta_tau coord11 coord12 coord13 coord14 coord21 coord22 coord23 coord24 = VR.lorentz_equal.k_rhophi_z_t_rhophi_theta_tau coord11 coord12 coord13 coord14 coord21 coord22 coord23 coord24 := by
  simp only [VS.lorentz_equal.k_rhophi_z_t_rhophi_theta_tau, VR.lorentz_equal.k_rhophi_z_t_rhophi_theta_tau, VS.lorentz_t.rhophi_z_t_eq, c08_lorentz_t_rhophi_theta_tau, VS.spatial_equal.rhophi_z_rhophi_theta_eq, h0, VR.P.nanToNum_eq]

theorem c08_lorentz_equal_k_rhophi_z_t_rhophi_z_tau (coord11 coord12 coord13 coord14 coord21 coord22 coord23 coord24 : ℝ) (h0 : 0 ≤ coord24) :
    VS.lorentz_equal.k_rhophi_z_t_rhophi_z_tau coord11 coord12 coord13 coord14 coord21 coord22 coord23 coord24 = VR.lorentz_equal.k_rhophi_z_t_rhophi_z_tau coord11 coord12 coord13 coord14 coord21 coord22 coord23 coord24 := by
  simp only [VS.lorentz_equal.k_rhophi_z_t_rhophi_z_tau, VR.lorentz_equal.k_rhophi_z_t_rhophi_z_tau, VS.lorentz_t.rhophi_z_t_eq, c08_lorentz_t_rhophi_z_tau, VS.spatial_equal.rhophi_z_rhophi_z_eq, h0, VR.P.nanToNum_eq]

theorem c08_lorentz_equal_k_rhophi_z_t_xy_eta_tau (coord11 coord12 coord13 coord14 coord21 coord22 coord23 coord24 : ℝ) (h0 : 0 ≤ coord24) :
    VS.lorentz_equal.k_rhophi_z_t_xy_eta_tau coord11 coord12 coord13 coord14 coord21 coord22 coord23 coord24 = VR.lorentz_equal.k_rhophi_z_t_xy_eta_tau coord11 coord12 coord13 coord14 coord21 coord22 coord23 coord24 := by
  simp only [VS.lorentz_equal.k_rhophi_z_t_xy_eta_tau, VR.lorentz_equal.k_rhophi_z_t_xy_eta_tau, VS.lorentz_t.rhophi_z_t_eq, c08_lorentz_t_xy_eta_tau, VS.spatial_equal.rhophi_z_xy_eta_eq, h0, VR.P.nanToNum_eq]

theorem c08_lorentz_equal_k_rhophi_z_t_xy_theta_tau (coord11 coord12 coord13 coord14 coord21 coord22 coord23 coord24 : ℝ) (h0 : 0 ≤ coord24) :
    VS.lorentz_equal.k_rhophi_z_t_xy_theta_tau coord11 coord12 coord13 coord14 coord21 coord22 coord23 coord24 = VR.lorentz_equal.k_rhophi_z_t_xy_theta_tau coord11 coord12 coord13 coord14 coord21 coord22 coord23 coord24 := by
  simp only [VS.lorentz_equal.k_rhophi_z_t_xy_theta_tau, VR.lorentz_equal.k_rhophi_z_t_xy_theta_tau, VS.lorentz_t.rhophi_z_t_eq, c08_lorentz_t_xy_theta_tau, VS.spatial_equal.rhophi_z_xy_theta_eq, h0, VR.P.nanToNum_eq]

theorem c08_lorentz_equal_k_rhophi_z_t_xy_z_tau (coord11 coord12 coord13 coord14 coord21 coord22 coord23 coord24 : ℝ) (h0 : 0 ≤ coord24) :
    VS.lorentz_equal.k_rhophi_z_t_xy_z_tau coord11 coord12 coord13 coord14 coord21 coord22 coord23 coord24 = VR.lorentz_equal.k_rhophi_z_t_xy_z_tau coord11 coord12 coord13 coord14 coord21 coord22 coord23 coord24 := by
  simp only [VS.lorentz_equal.k_rhophi_z_t_xy_z_tau, VR.lorentz_equal.k_rhophi_z_t_xy_z_tau, VS.lorentz_t.rhophi_z_t_eq, c08_lorentz_t_xy_z_tau, VS.spatial_equal.rhophi_z_xy_z_eq, h0, VR.P.nanToNum_eq]

theorem c08_lorentz_equal_k_rhophi_z_tau_rhophi_eta_t (coord11 coord12 coord13 coord14 coord21 coord22 coord23 coord24 : ℝ) (h0 : 0 ≤ coord14) :
    VS.lorentz_equal.k_rhophi_z_tau_rhophi_eta_t coord11 coord12 coord13 coord14 coord21 coord22 coord23 coord24 = VR.lorentz_equal.k_rhophi_z_tau_rhophi_eta_t coord11 coord12 coord13 coord14 coord21 coord22 coord23 coord24 := by
  simp only [VS.lorentz_equal.k_rhophi_z_tau_rhophi_eta_t, VR.lorentz_equal.k_rhophi_z_tau_rhophi_eta_t, c08_lorentz_t_rhophi_z_tau, VS.lorentz_t.rhophi_eta_t_eq, VS.spatial_equal.rhophi_z_rhophi_eta_eq, h0, VR.P.nanToNum_eq]

theorem c08_lorentz_equal_k_rhophi_z_tau_rhophi_theta_t (coord11 coord12 coord13 coord14 coord21 coord22 coord23 coord24 : ℝ) (h0 : 0 ≤ coord14) :
    VS.lorentz_equal.k_rhophi_z_tau_rhophi_theta_t coord11 coord12 coord13 coord14 coord21 coord22 coord23 coord24 = VR.lorentz_equal.k_rhophi_z_tau_rhophi_theta_t coord11 coord12 coord13 coord14 coord21 coord22 coord23 coord24 := by
  simp only [VS.lorentz_equal.k_rhophi_z_tau_rhophi_theta_t, VR.lorentz_equal.k_rhophi_z_tau_rhophi_theta_t, c08_lorentz_t_rhophi_z_tau, VS.lorentz_t.rhophi_theta_t_eq, VS.spatial_equal.rhophi_z_rhophi_theta_eq, h0, VR.P.nanToNum_eq]

theorem c08_lorentz_equal_k_rhophi_z_tau_rhophi_z_t (coord11 coord12 coord13 coord14 coord21 coord22 coord23 coord24 : ℝ) (h0 : 0 ≤ coord14) :
    VS.lorentz_equal.k_rhophi_z_tau_rhophi_z_t coord11 coord12 coord13 coord14 coord21 coord22 coord23 coord24 = VR.lorentz_equal.k_rhophi_z_tau_rhophi_z_t coord11 coord12 coord13 coord14 coord21 coord22 coord23 coord24 := by
  simp only [VS.lorentz_equal.k_rhophi_z_tau_rhophi_z_t, VR.lorentz_equal.k_rhophi_z_tau_rhophi_z_t, c08_lorentz_t_rhophi_z_tau, VS.lorentz_t.rhophi_z_t_eq, VS.spatial_equal.rhophi_z_rhophi_z_eq, h0, VR.P.nanToNum_eq]

theorem c08_lorentz_equal_k_rhophi_z_tau_xy_eta_t (coord11 coord12 coord13 coord14 coord21 coord22 coord23 coord24 : ℝ) (h0 : 0 ≤ coord14) :
    VS.lorentz_equal.k_rhophi_z_tau_xy_eta_t coord11 coord12 coord13 coord14 coord21 coord22 coord23 coord24 = VR.lorentz_equal.k_rhophi_z_tau_xy_eta_t coord11 coord12 coord13 coord14 coord21 coord22 coord23 coord24 := by
  simp only [VS.lorentz_equal.k_rhophi_z_tau_xy_eta_t, VR.lorentz_equal.k_rhophi_z_tau_xy_eta_t, c08_lorentz_t_rhophi_z_tau, VS.lorentz_t.xy_eta_t_eq, VS.spatial_equal.rhophi_z_xy_eta_eq, h0, VR.P.nanToNum_eq]

theorem c08_lorentz_equal_k_rhophi_z_tau_xy_theta_t (coord11 coord12 coord13 coord14 coord21 coord22 coord23 coord24 : ℝ) (h0 : 0 ≤ coord14) :
    VS.lorentz_equal.k_rhophi_z_tau_xy_theta_t coord11 coord12 coord13 coord14 coord21 coord22 coord23 coord24 = VR.lorentz_equal.k_rhophi_z_tau_xy_theta_t coord11 coord12 coord13 coord14 coord21 coord22 coord23 coord24 := by
  simp only [VS.lorentz_equal.k_rhophi_z_tau_xy_theta_t, VR.lorentz_equal.k_rhophi_z_tau_xy_theta_t, c08_lorentz_t_rhophi_z_tau, VS.lorentz_t.xy_theta_t_eq, VS.spatial_equal.rhophi_z_xy_theta_eq, h0, VR.P.nanToNum_eq]

theorem c08_lorentz_equal_k_rhophi_z_tau_xy_z_t (coord11 coord12 coord13 coord14 coord21 coord22 coord23 coord24 : ℝ) (h0 : 0 ≤ coord14) :
    VS.lorentz_equal.k_rhophi_z_tau_xy_z_t coord11 coord12 coord13 coord14 coord21 coord22 coord23 coord24 = VR.lorentz_equal.k_rhophi_z_tau_xy_z_t coord11 coord12 coord13 coord14 coord21 coord22 coord23 coord24 := by
  simp only [VS.lorentz_equal.k_rhophi_z_tau_xy_z_t, VR.lorentz_equal.k_rhophi_z_tau_xy_z_t, c08_lorentz_t_rhophi_z_tau, VS.lorentz_t.xy_z_t_eq, VS.spatial_equal.rhophi_z_xy_z_eq, h0, VR.P.nanToNum_eq]

theorem c08_lorentz_equal_k_xy_eta_t_rhophi_eta_tau (coord11 coord12 coord13 coord14 coord21 coord22 coord23 coord24 : ℝ) (h0 : 0 ≤ coord24) :
    VS.lorentz_equal.k_xy_eta_t_rhophi_eta_tau coord11 coord12 coord13 coord14 coord21 coord22 coord23 coord24 = VR.lorentz_equal.k_xy_eta_t_rhophi_eta_tau coord11 coord12 coord13 coord14 coord21 coord22 coord23 coord24 := by
  simp only [VS.lorentz_equal.k_xy_eta_t_rhophi_eta_tau, VR.lorentz_equal.k_xy_eta_t_rhophi_eta_tau, VS.lorentz_t.xy_eta_t_eq, c08_lorentz_t_rhophi_eta_tau, VS.spatial_equal.xy_eta_rhophi_eta_eq, h0, VR.P.nanToNum_eq]

theorem c08_lorentz_equal_k_xy_eta_t_rhophi_theta_tau (coord11 coord12 coord13 coord14 coord21 coord22 coord23 coord24 : ℝ) (h0 : 0 ≤ coord24) :
    VS.lorentz_equal.k_xy_eta_t_rhophi_theta_tau coord11 coord12 coord13 coord14 coord21 coord22 coord23 coord24 = VR.lorentz_equal.k_xy_eta_t_rhophi_theta_tau coord11 coord12 coord13 coord14 coord21 coord22 coord23 coord24 := by
  simp only [VS.lorentz_equal.k_xy_eta_t_rhophi_theta_tau, VR.lorentz_equal.k_xy_eta_t_rhophi_theta_tau, VS.lorentz_t.xy_eta_t_eq, c08_lorentz_t_rhophi_theta_tau, VS.spatial_equal.xy_eta_rhophi_theta_eq, h0, VR.P.nanToNum_eq]

theorem c08_lorentz_equal_k_xy_eta_t_rhophi_z_tau (coord11 coord12 coord13 coord14 coord21 coord22 coord23 coord24 : ℝ) (h0 : 0 ≤ coord24) :
    VS.lorentz_equal.k_xy_eta_t_rhophi_z_tau coord11 coord12 coord13 coord14 coord21 coord22 coord23 coord24 = VR.lorentz_equal.k_xy_eta_t_rhophi_z_tau coord11 coord12 coord13 coord14 coord21 coord22 coord23 coord24 := by
  simp only [VS.lorentz_equal.k_xy_eta_t_rhophi_z_tau, VR.lorentz_equal.k_xy_eta_t_rhophi_z_tau, VS.lorentz_t.xy_eta_t_eq, c08_lorentz_t_rhophi_z_tau, VS.spatial_equal.xy_eta_rhophi_z_eq, h0, VR.P.nanToNum_eq]

theorem c08_lorentz_equal_k_xy_eta_t_xy_eta_tau (coord11 coord12 coord13 coord14 coord21 coord22 coord23 coord24 : ℝ) (h0 : 0 ≤ coord24) :
    VS.lorentz_equal.k_xy_eta_t_xy_eta_tau coord11 coord12 coord13 coord14 coord21 coord22 coord23 coord24 = VR.lorentz_equal.k_xy_eta_t_xy_eta_tau coord11 coord12 coord13 coord14 coord21 coord22 coord23 coord24 := by
  simp only [VS.lorentz_equal.k_xy_eta_t_xy_eta_tau, VR.lorentz_equal.k_xy_eta_t_xy_eta_tau, VS.lorentz_t.xy_eta_t_eq, c08_lorentz_t_xy_eta_tau, VS.spatial_equal.xy_eta_xy_eta_eq, h0, VR.P.nanToNum_eq]

theorem c08_lorentz_equal_k_xy_eta_t_xy_theta_tau (coord11 coord12 coord13 coord14 coord21 coord22 coord23 coord24 : ℝ) (h0 : 0 ≤ coord24) :
    VS.lorentz_equal.k_xy_eta_t_xy_theta_tau coord11 coord12 coord13 coord14 coord21 coord22 coord23 coord24 = VR.lorentz_equal.k_xy_eta_t_xy_theta_tau coord11 coord12 coord13 coord14 coord21 coord22 coord23 coord24 := by
  simp only [VS.lorentz_equal.k_xy_eta_t_xy_theta_tau, VR.lorentz_equal.k_xy_eta_t_xy_theta_tau, VS.lorentz_t.xy_eta_t_eq, c08_lorentz_t_xy_theta_tau, VS.spatial_equal.xy_eta_xy_theta_eq, h0, VR.P.nanToNum_eq]

theorem c08_lorentz_equal_k_xy_eta_t_xy_z_tau (coord11 coord12 coord13 coord14 coord21 coord22 coord23 coord24 : ℝ) (h0 : 0 ≤ coord24) :
    VS.lorentz_equal.k_xy_eta_t_xy_z_tau coord11 coord12 coord13 coord14 coord21 coord22 coord23 coord24 = VR.lorentz_equal.k_xy_eta_t_xy_z_tau coord11 coord12 coord13 coord14 coord21 coord22 coord23 coord24 := by
  simp only [VS.lorentz_equal.k_xy_eta_t_xy_z_tau, VR.lorentz_equal.k_xy_eta_t_xy_z_tau, VS.lorentz_t.xy_eta_t_eq, c08_lorentz_t_xy_z_tau, VS.spatial_equal.xy_eta_xy_z_eq, h0, VR.P.nanToNum_eq]

theorem c08_lorentz_equal_k_xy_eta_tau_rhophi_eta_t (coord11 coord12 coord13 coord14 coord21 coord22 coord23 coord24 : ℝ) (h0 : 0 ≤ coord14) :
    VS.lorentz_equal.k_xy_eta_tau_rhophi_eta_t coord11 coord12 coord13 coord14 coord21 coord22 coord23 coord24 = VR.lorentz_equal.k_xy_eta_tau_rhophi_eta_t coord11 coord12 coord13 coord14 coord21 coord22 coord23 coord24 := by
  simp only [VS.lorentz_equal.k_xy_eta_tau_rhophi_eta_t, VR.lorentz_equal.k_xy_eta_tau_rhophi_eta_t, c08_lorentz_t_xy_eta_tau, VS.lorentz_t.rhophi_eta_t_eq, VS.spatial_equal.xy_eta_rhophi_eta_eq, h0, VR.P.nanToNum_eq]

theorem c08_lorentz_equal_k_xy_eta_tau_rhophi_theta_t (coord11 coord12 coord13 coord14 coord21 coord22 coord23 coord24 : ℝ) (h0 : 0 ≤ coord14) :
    VS.lorentz_equal.k_xy_eta_tau_rhophi_theta_t coord11 coord12 coord13 coord14 coord21 coord22 coord23 coord24 = VR.lorentz_equal.k_xy_eta_tau_rhophi_theta_t coord11 coord12 coord13 coord14 coord21 coord22 coord23 coord24 := by
  simp only [VS.lorentz_equal.k_xy_eta_tau_rhophi_theta_t, VR.lorentz_equal.k_xy_eta_tau_rhophi_theta_t, c08_lorentz_t_xy_eta_tau, VS.lorentz_t.rhophi_theta_t_eq, VS.spatial_equal.xy_eta_rhophi_theta_eq, h0, VR.P.nanToNum_eq]

theorem c08_lorentz_equal_k_xy_eta_tau_rhophi_z_t (coord11 coord12 coord13 coord14 coord21 coord22 coord23 coord24 : ℝ) (h0 : 0 ≤ coord14) :
    VS.lorentz_equal.k_xy_eta_tau_rhophi_z_t coord11 coord12 coord13 coord14 coord21 coord22 coord23 coord24 = VR.lorentz_equal.k_xy_eta_tau_rhophi_z_t coord11 coord12 coord13 coord14 coord21 coord22 coord23 coord24 := by
  simp only [VS.lorentz_equal.k_xy_eta_tau_rhophi_z_t, VR.lorentz_equal.k_xy_eta_tau_rhophi_z_t, c08_lorentz_t_xy_eta_tau, VS.lorentz_t.rhophi_z_t_eq, VS.spatial_equal.xy_eta_rhophi_z_eq, h0, VR.P.nanToNum_eq]

theorem c08_lorentz_equal_k_xy_eta_tau_xy_eta_t (coord11 coord12 coord13 coord14 coord21 coord22 coord23 coord24 : ℝ) (h0 : 0 ≤ coord14) :
    VS.lorentz_equal.k_xy_eta_tau_xy_eta_t coord11 coord12 coord13 coord14 coord21 coord22 coord23 coord24 = VR.lorentz_equal.k_xy_eta_tau_xy_eta_t coord11 coord12 coord13 coord14 coord21 coord22 coord23 coord24 := by
  simp only [VS.lorentz_equal.k_xy_eta_tau_xy_eta_t, VR.lorentz_equal.k_xy_eta_tau_xy_eta_t, c08_lorentz_t_xy_eta_tau, VS.lorentz_t.xy_eta_t_eq, VS.spatial_equal.xy_eta_xy_eta_eq, h0, VR.P.nanToNum_eq]

theorem c08_lorentz_equal_k_xy_eta_tau_xy_theta_t (coord11 coord12 coord13 coord14 coord21 coord22 coord23 coord24 : ℝ) (h0 : 0 ≤ coord14) :
    VS.lorentz_equal.k_xy_eta_tau_xy_theta_t coord11 coord12 coord13 coord14 coord21 coord22 coord23 coord24 = VR.lorentz_equal.k_xy_eta_tau_xy_theta_t coord11 coord12 coord13 coord14 coord21 coord22 coord23 coord24 := by
  simp only [VS.lorentz_equal.k_xy_eta_tau_xy_theta_t, VR.lorentz_equal.k_xy_eta_tau_xy_theta_t, c08_lorentz_t_xy_eta_tau, VS.lorentz_t.xy_theta_t_eq, VS.spatial_equal.xy_eta_xy_theta_eq, h0, VR.P.nanToNum_eq]

theorem c08_lorentz_equal_k_xy_eta_tau_xy_z_t (coord11 coord12 coord13 coord14 coord21 coord22 coord23 coord24 : ℝ) (h0 : 0 ≤ coord14) :
    VS.lorentz_equal.k_xy_eta_tau_xy_z_t coord11 coord12 coord13 coord14 coord21 coord22 coord23 coord24 = VR.lorentz_equal.k_xy_eta_tau_xy_z_t coord11 coord12 coord13 coord14 coord21 coord22 coord23 coord24 := by
  simp only [VS.lorentz_equal.k_xy_eta_tau_xy_z_t, VR.lorentz_equal.k_xy_eta_tau_xy_z_t, c08_lorentz_t_xy_eta_tau, VS.lorentz_t.xy_z_t_eq, VS.spatial_equal.xy_eta_xy_z_eq, h0, VR.P.nanToNum_eq]

theorem c08_lorentz_equal_k_xy_theta_t_rhophi_eta_tau (coord11 coord12 coord13 coord14 coord21 coord22 coord23 coord24 : ℝ) (h0 : 0 ≤ coord24) :
    VS.lorentz_equal.k_xy_theta_t_rhophi_eta_tau coord11 coord12 coord13 coord14 coord21 coord22 coord23 coord24 = VR.lorentz_equal.k_xy_theta_t_rhophi_eta_tau coord11 coord12 coord13 coord14 coord21 coord22 coord23 coord24 := by
  simp only [VS.lorentz_equal.k_xy_theta_t_rhophi_eta_tau, VR.lorentz_equal.k_xy_theta_t_rhophi_eta_tau, VS.lorentz_t.xy_theta_t_eq, c08_lorentz_t_rhophi_eta_tau, VS.spatial_equal.xy_theta_rhophi_eta_eq, h0, VR.P.nanToNum_eq]

theorem c08_lorentz_equal_k_xy_theta_t_rhophi_theta_tau (coord11 coord12 coord13 coord14 coord21 coord22 coord23 coord24 : ℝ) (h0 : 0 ≤ coord24) :
    VS.lorentz_equal.k_xy_theta_t_rhophi_theta_tau coord11 coord12 coord13 coord14 coord21 coord22 coord23 coord24 = VR.lorentz_equal.k_xy_theta_t_rhophi_theta_tau coord11 coord12 coord13 coord14 coord21 coord22 coord23 coord24 := by
  simp only [VS.lorentz_equal.k_xy_theta_t_rhophi_theta_tau, VR.lorentz_equal.k_xy_theta_t_rhophi_theta_tau, VS.lorentz_t.xy_theta_t_eq, c08_lorentz_t_rhophi_theta_tau, VS.spatial_equal.xy_theta_rhophi_theta_eq, h0, VR.P.nanToNum_eq]

theorem c08_lorentz_equal_k_xy_theta_t_rhophi_z_tau (coord11 coord12 coord13 coord14 coord21 coord22 coord23 coord24 : ℝ) (h0 : 0 ≤ coord24) :
    VS.lorentz_equal.k_xy_theta_t_rhophi_z_tau coord11 coord12 coord13 coord14 coord21 coord22 coord23 coord24 = VR.lorentz_equal.k_xy_theta_t_rhophi_z_tau coord11 coord12 coord13 coord14 coord21 coord22 coord23 coord24 := by
  simp only [VS.lorentz_equal.k_xy_theta_t_rhophi_z_tau, VR.lorentz_equal.k_xy_theta_t_rhophi_z_tau, VS.lorentz_t.xy_theta_t_eq, c08_lorentz_t_rhophi_z_tau, VS.spatial_equal.xy_theta_rhophi_z_eq, h0, VR.P.nanToNum_eq]

theorem c08_lorentz_equal_k_xy_theta_t_xy_eta_tau (coord11 coord12 coord13 coord14 coord21 coord22 coord23 coord24 : ℝ) (h0 : 0 ≤ coord24) :
    VS.lorentz_equal.k_xy_theta_t_xy_eta_tau coord11 coord12 coord13 coord14 coord21 coord22 coord23 coord24 = VR.lorentz_equal.k_xy_theta_t_xy_eta_tau coord11 coord12 coord13 coord14 coord21 coord22 coord23 coord24 := by
  simp only [VS.lorentz_equal.k_xy_theta_t_xy_eta_tau, VR.lorentz_equal.k_xy_theta_t_xy_eta_tau, VS.lorentz_t.xy_theta_t_eq, c08_lorentz_t_xy_eta_tau, VS.spatial_equal.xy_theta_xy_eta_eq, h0, VR.P.nanToNum_eq]

theorem c08_lorentz_equal_k_xy_theta_t_xy_theta_tau (coord11 coord12 coord13 coord14 coord21 coord22 coord23 coord24 : ℝ) (h0 : 0 ≤ coord24) :
    VS.lorentz_equal.k_xy_theta_t_xy_theta_tau coord11 coord12 coord13 coord14 coord21 coord22 coord23 coord24 = VR.lorentz_equal.k_xy_theta_t_xy_theta_tau coord11 coord12 coord13 coord14 coord21 coord22 coord23 coord24 := by
  simp only [VS.lorentz_equal.k_xy_theta_t_xy_theta_tau, VR.lorentz_equal.k_xy_theta_t_xy_theta_tau, VS.lorentz_t.xy_theta_t_eq, c08_lorentz_t_xy_theta_tau, VS.spatial_equal.xy_theta_xy_theta_eq, h0, VR.P.nanToNum_eq]

theorem c08_lorentz_equal_k_xy_theta_t_xy_z_tau (coord11 coord12 coord13 coord14 coord21 coord22 coord23 coord24 : ℝ) (h0 : 0 ≤ coord24) :
    VS.lorentz_equal.k_xy_theta_t_xy_z_tau coord11 coord12 coord13 coord14 coord21 coord22 coord23 coord24 = VR.lorentz_equal.k_xy_theta_t_xy_z_tau coord11 coord12 coord13 coord14 coord21 coord22 coord23 coord24 := by
  simp only [VS.lorentz_equal.k_xy_theta_t_xy_z_tau, VR.lorentz_equal.k_xy_theta_t_xy_z_tau, VS.lorentz_t.xy_theta_t_eq, c08_lorentz_t_xy_z_tau, VS.spatial_equal.xy_theta_xy_z_eq, h0, VR.P.nanToNum_eq]

theorem c08_lorentz_equal_k_xy_theta_tau_rhophi_eta_t (coord11 coord12 coord13 coord14 coord21 coord22 coord23 coord24 : ℝ) (h0 : 0 ≤ coord14) :
    VS.lorentz_equal.k_xy_theta_tau_rhophi_eta_t coord11 coord12 coord13 coord14 coord21 coord22 coord23 coord24 = VR.lorentz_equal.k_xy_theta_tau_rhophi_eta_t coord11 coord12 coord13 coord14 coord21 coord22 coord23 coord24 := by
  simp only [VS.lorentz_equal.k_xy_theta_tau_rhophi_eta_t, VR.lorentz_equal.k_xy_theta_tau_rhophi_eta_t, c08_lorentz_t_xy_theta_tau, VS.lorentz_t.rhophi_eta_t_eq, VS.spatial_equal.xy_theta_rhophi_eta_eq, h0, VR.P.nanToNum_eq]

theorem c08_lorentz_equal_k_xy_theta_tau_rhophi_theta_t (coord11 coord12 coord13 coord14 coord21 coord22 coord23 coord24 : ℝ) (h0 : 0 ≤ coord14) :
    VS.lorentz_equal.k_xy_theta_tau_rhophi_theta_t coord11 coord12 coord13 coord14 coord21 coord22 coord23 coord24 = VR.lorentz_equal.k_xy_theta_tau_rhophi_theta_t coord11 coord12 coord13 coord14 coord21 coord22 coord23 coord24 := by
  simp only [VS.lorentz_equal.k_xy_theta_tau_rhophi_theta_t, VR.lorentz_equal.k_xy_theta_tau_rhophi_theta_t, c08_lorentz_t_xy_theta_tau, VS.lorentz_t.rhophi_theta_t_eq, VS.spatial_equal.xy_theta_rhophi_theta_eq, h0, VR.P.nanToNum_eq]

theorem c08_lorentz_equal_k_xy_theta_tau_rhophi_z_t (coord11 coord12 coord13 coord14 coord21 coord22 coord23 coord24 : ℝ) (h0 : 0 ≤ coord14) :
    VS.lorentz_equal.k_xy_theta_tau_rhophi_z_t coord11 coord12 coord13 coord14 coord21 coord22 coord23 coord24 = VR.lorentz_equal.k_xy_theta_tau_rhophi_z_t coord11 coord12 coord13 coord14 coord21 coord22 coord23 coord24 := by
  simp only [VS.lorentz_equal.k_xy_theta_tau_rhophi_z_t, VR.lorentz_equal.k_xy_theta_tau_rhophi_z_t, c08_lorentz_t_xy_theta_tau, VS.lorentz_t.rhophi_z_t_eq, VS.spatial_equal.xy_theta_rhophi_z_eq, h0, VR.P.nanToNum_eq]

theorem c08_lorentz_equal_k_xy_theta_tau_xy_eta_t (coord11 coord12 coord13 coord14 coord21 coord22 coord23 coord24 : ℝ) (h0 : 0 ≤ coord14) :
    VS.lorentz_equal.k_xy_theta_tau_xy_eta_t coord11 coord12 coord13 coord14 coord21 coord22 coord23 coord24 = VR.lorentz_equal.k_xy_theta_tau_xy_eta_t coord11 coord12 coord13 coord14 coord21 coord22 coord23 coord24 := by
  simp only [VS.lorentz_equal.k_xy_theta_tau_xy_eta_t, VR.lorentz_equal.k_xy_theta_tau_xy_eta_t, c08_lorentz_t_xy_theta_tau, VS.lorentz_t.xy_eta_t_eq, VS.spatial_equal.xy_theta_xy_eta_eq, h0, VR.P.nanToNum_eq]

theorem c08_lorentz_equal_k_xy_theta_tau_xy_theta_t (coord11 coord12 coord13 coord14 coord21 coord22 coord23 coord24 : ℝ) (h0 : 0 ≤ coord14) :
    VS.lorentz_equal.k_xy_theta_tau_xy_theta_t coord11 coord12 coord13 coord14 coord21 coord22 coord23 coord24 = VR.lorentz_equal.k_xy_theta_tau_xy_theta_t coord11 coord12 coord13 coord14 coord21 coord22 coord23 coord24 := by
  simp only [VS.lorentz_equal.k_xy_theta_tau_xy_theta_t, VR.lorentz_equal.k_xy_theta_tau_xy_theta_t, c08_lorentz_t_xy_theta_tau, VS.lorentz_t.xy_theta_t_eq, VS.spatial_equal.xy_theta_xy_theta_eq, h0, VR.P.nanToNum_eq]

theorem c08_lorentz_equal_k_xy_theta_tau_xy_z_t (coord11 coord12 coord13 coord14 coord21 coord22 coord23 coord24 : ℝ) (h0 : 0 ≤ coord14) :
    VS.lorentz_equal.k_xy_theta_tau_xy_z_t coord11 coord12 coord13 coord14 coord21 coord22 coord23 coord24 = VR.lorentz_equal.k_xy_theta_tau_xy_z_t coord11 coord12 coord13 coord14 coord21 coord22 coord23 coord24 := by
  simp only [VS.lorentz_equal.k_xy_theta_tau_xy_z_t, VR.lorentz_equal.k_xy_theta_tau_xy_z_t, c08_lorentz_t_xy_theta_tau, VS.lorentz_t.xy_z_t_eq, VS.spatial_equal.xy_theta_xy_z_eq, h0, VR.P.nanToNum_eq]

theorem c08_lorentz_equal_k_xy_z_t_rhophi_eta_tau (coord11 coord12 coord13 coord14 coord21 coord22 coord23 coord24 : ℝ) (h0 : 0 ≤ coord24) :
    VS.lorentz_equal.k_xy_z_t_rhophi_eta_tau coord11 coord12 coord13 coord14 coord21 coord22 coord23 coord24 = VR.lorentz_equal.k_xy_z_t_rhophi_eta_tau coord11 coord12 coord13 coord14 coord21 coord22 coord23 coord24 := by
  simp only [VS.lorentz_equal.k_xy_z_t_rhophi_eta_tau, VR.lorentz_equal.k_xy_z_t_rhophi_eta_tau, VS.lorentz_t.xy_z_t_eq, c08_lorentz_t_rhophi_eta_tau, VS.spatial_equal.xy_z_rhophi_eta_eq, h0, VR.P.nanToNum_eq]

theorem c08_lorentz_equal_k_xy_z_t_rhophi_theta_tau (coord11 coord12 coord13 coord14 coord21 coord22 coord23 coord24 : ℝ) (h0 : 0 ≤ coord24) :
    VS.lorentz_equal.k_xy_z_t_rhophi_theta_tau coord11 coord12 coord13 coord14 coord21 coord22 coord23 coord24 = VR.lorentz_equal.k_xy_z_t_rhophi_theta_tau coord11 coord12 coord13 coord14 coord21 coord22 coord23 coord24 := by
  simp only [VS.lorentz_equal.k_xy_z_t_rhophi_theta_tau, VR.lorentz_equal.k_xy_z_t_rhophi_theta_tau, VS.lorentz_t.xy_z_t_eq, c08_lorentz_t_rhophi_theta_tau, VS.spatial_equal.xy_z_rhophi_theta_eq, h0, VR.P.nanToNum_eq]

theorem c08_lorentz_equal_k_xy_z_t_rhophi_z_tau (coord11 coord12 coord13 coord14 coord21 coord22 coord23 coord24 : ℝ) (h0 : 0 ≤ coord24) :
    VS.lorentz_equal.k_xy_z_t_rhophi_z_tau coord11 coord12 coord13 coord14 coord21 coord22 coord23 coord24 = VR.lorentz_equal.k_xy_z_t_rhophi_z_tau coord11 coord12 coord13 coord14 coord21 coord22 coord23 coord24 := by
  simp only [VS.lorentz_equal.k_xy_z_t_rhophi_z_tau, VR.lorentz_equal.k_xy_z_t_rhophi_z_tau, VS.lorentz_t.xy_z_t_eq, c08_lorentz_t_rhophi_z_tau, VS.spatial_equal.xy_z_rhophi_z_eq, h0, VR.P.nanToNum_eq]

theorem c08_lorentz_equal_k_xy_z_t_xy_eta_tau (coord11 coord12 coord13 coord14 coord21 coord22 coord23 coord24 : ℝ) (h0 : 0 ≤ coord24) :
    VS.lorentz_equal.k_xy_z_t_xy_eta_tau coord11 coord12 coord13 coord14 coord21 coord22 coord23 coord24 = VR.lorentz_equal.k_xy_z_t_xy_eta_tau coord11 coord12 coord13 coord14 coord21 coord22 coord23 coord24 := by
  simp only [VS.lorentz_equal.k_xy_z_t_xy_eta_tau, VR.lorentz_equal.k_xy_z_t_xy_eta_tau, VS.lorentz_t.xy_z_t_eq, c08_lorentz_t_xy_eta_tau, VS.spatial_equal.xy_z_xy_eta_eq, h0, VR.P.nanToNum_eq]

theorem c08_lorentz_equal_k_xy_z_t_xy_theta_tau (coord11 coord12 coord13 coord14 coord21 coord22 coord23 coord24 : ℝ) (h0 : 0 ≤ coord24) :
    VS.lorentz_equal.k_xy_z_t_xy_theta_tau coord11 coord12 coord13 coord14 coord21 coord22 coord23 coord24 = VR.lorentz_equal.k_xy_z_t_xy_theta_tau coord11 coord12 coord13 coord14 coord21 coord22 coord23 coord24 := by
  simp only [VS.lorentz_equal.k_xy_z_t_xy_theta_tau, VR.lorentz_equal.k_xy_z_t_xy_theta_tau, VS.lorentz_t.xy_z_t_eq, c08_lorentz_t_xy_theta_tau, VS.spatial_equal.xy_z_xy_theta_eq, h0, VR.P.nanToNum_eq]

theorem c08_lorentz_equal_k_xy_z_t_xy_z_tau (coord11 coord12 coord13 coord14 coord21 coord22 coord23 coord24 : ℝ) (h0 : 0 ≤ coord24) :
    VS.lorentz_equal.k_xy_z_t_xy_z_tau coord11 coord12 coord13 coord14 coord21 coord22 coord23 coord24 = VR.lorentz_equal.k_xy_z_t_xy_z_tau coord11 coord12 coord13 coord14 coord21 coord22 coord23 coord24 := by
  simp only [VS.lorentz_equal.k_xy_z_t_xy_z_tau, VR.lorentz_equal.k_xy_z_t_xy_z_tau, VS.lorentz_t.xy_z_t_eq, c08_lorentz_t_xy_z_tau, VS.spatial_equal.xy_z_xy_z_eq, h0, VR.P.nanToNum_eq]

theorem c08_lorentz_equal_k_xy_z_tau_rhophi_eta_t (coord11 coord12 coord13 coord14 coord21 coord22 coord23 coord24 : ℝ) (h0 : 0 ≤ coord14) :
    VS.lorentz_equal.k_xy_z_tau_rhophi_eta_t coord11 coord12 coord13 coord14 coord21 coord22 coord23 coord24 = VR.lorentz_equal.k_xy_z_tau_rhophi_eta_t coord11 coord12 coord13 coord14 coord21 coord22 coord23 coord24 := by
  simp only [VS.lorentz_equal.k_xy_z_tau_rhophi_eta_t, VR.lorentz_equal.k_xy_z_tau_rhophi_eta_t, c08_lorentz_t_xy_z_tau, VS.lorentz_t.rhophi_eta_t_eq, VS.spatial_equal.xy_z_rhophi_eta_eq, h0, VR.P.nanToNum_eq]

theorem c08_lorentz_equal_k_xy_z_tau_rhophi_theta_t (coord11 coord12 coord13 coord14 coord21 coord22 coord23 coord24 : ℝ) (h0 : 0 ≤ coord14) :
    VS.lorentz_equal.k_xy_z_tau_rhophi_theta_t coord11 coord12 coord13 coord14 coord21 coord22 coord23 coord24 = VR.lorentz_equal.k_xy_z_tau_rhophi_theta_t coord11 coord12 coord13 coord14 coord21 coord22 coord23 coord24 := by
  simp only [VS.lorentz_equal.k_xy_z_tau_rhophi_theta_t, VR.lorentz_equal.k_xy_z_tau_rhophi_theta_t, c08_lorentz_t_xy_z_tau, VS.lorentz_t.rhophi_theta_t_eq, VS.spatial_equal.xy_z_rhophi_theta_eq, h0, VR.P.nanToNum_eq]

theorem c08_lorentz_equal_k_xy_z_tau_rhophi_z_t (coord11 coord12 coord13 coord14 coord21 coord22 coord23 coord24 : ℝ) (h0 : 0 ≤ coord14) :
    VS.lorentz_equal.k_xy_z_tau_rhophi_z_t coord11 coord12 coord13 coord14 coord21 coord22 coord23 coord24 = VR.lorentz_equal.k_xy_z_tau_rhophi_z_t coord11 coord12 coord13 coord14 coord21 coord22 coord23 coord24 := by
  simp only [VS.lorentz_equal.k_xy_z_tau_rhophi_z_t, VR.lorentz_equal.k_xy_z_tau_rhophi_z_t, c08_lorentz_t_xy_z_tau, VS.lorentz_t.rhophi_z_t_eq, VS.spatial_equal.xy_z_rhophi_z_eq, h0, VR.P.nanToNum_eq]

theorem c08_lorentz_equal_k_xy_z_tau_xy_eta_t (coord11 coord12 coord13 coord14 coord21 coord22 coord23 coord24 : ℝ) (h0 : 0 ≤ coord14) :
    VS.lorentz_equal.k_xy_z_tau_xy_eta_t coord11 coord12 coord13 coord14 coord21 coord22 coord23 coord24 = VR.lorentz_equal.k_xy_z_tau_xy_eta_t coord11 coord12 coord13 coord14 coord21 coord22 coord23 coord24 := by
  simp only [VS.lorentz_equal.k_xy_z_tau_xy_eta_t, VR.lorentz_equal.k_xy_z_tau_xy_eta_t, c08_lorentz_t_xy_z_tau, VS.lorentz_t.xy_eta_t_eq, VS.spatial_equal.xy_z_xy_eta_eq, h0, VR.P.nanToNum_eq]

theorem c08_lorentz_equal_k_xy_z_tau_xy_theta_t (coord11 coord12 coord13 coord14 coord21 coord22 coord23 coord24 : ℝ) (h0 : 0 ≤ coord14) :
    VS.lorentz_equal.k_xy_z_tau_xy_theta_t coord11 coord12 coord13 coord14 coord21 coord22 coord23 coord24 = VR.lorentz_equal.k_xy_z_tau_xy_theta_t coord11 coord12 coord13 coord14 coord21 coord22 coord23 coord24 := by
  simp only [VS.lorentz_equal.k_xy_z_tau_xy_theta_t, VR.lorentz_equal.k_xy_z_tau_xy_theta_t, c08_lorentz_t_xy_z_tau, VS.lorentz_t.xy_theta_t_eq, VS.spatial_equal.xy_z_xy_theta_eq, h0, VR.P.nanToNum_eq]

theorem c08_lorentz_equal_k_xy_z_tau_xy_z_t (coord11 coord12 coord13 coord14 coord21 coord22 coord23 coord24 : ℝ) (h0 : 0 ≤ coord14) :
    VS.lorentz_equal.k_xy_z_tau_xy_z_t coord11 coord12 coord13 coord14 coord21 coord22 coord23 coord24 = VR.lorentz_equal.k_xy_z_tau_xy_z_t coord11 coord12 coord13 coord14 coord21 coord22 coord23 coord24 := by
  simp only [VS.lorentz_equal.k_xy_z_tau_xy_z_t, VR.lorentz_equal.k_xy_z_tau_xy_z_t, c08_lorentz_t_xy_z_tau, VS.lorentz_t.xy_z_t_eq, VS.spatial_equal.xy_z_xy_z_eq, h0, VR.P.nanToNum_eq]


/-! ### `lorentz_gamma` -/

theorem c08_lorentz_gamma_rhophi_eta_t (rho phi eta t : ℝ) (h0 : 0 ≤ VR.lorentz_tau2.rhophi_eta_t rho phi eta t) :
    VS.lorentz_gamma.rhophi_eta_t rho phi eta t = VR.lorentz_gamma.rhophi_eta_t rho phi eta t := by
  simp only [VS.lorentz_gamma.rhophi_eta_t, VR.lorentz_gamma.rhophi_eta_t, c08_lorentz_tau_rhophi_eta_t, h0, VR.P.nanToNum_eq]

theorem c08_lorentz_gamma_rhophi_eta_tau (rho phi eta tau : ℝ) (h0 : 0 ≤ tau) :
    VS.lorentz_gamma.rhophi_eta_tau rho phi eta tau = VR.lorentz_gamma.rhophi_eta_tau rho phi eta tau := by
  simp only [VS.lorentz_gamma.rhophi_eta_tau, VR.lorentz_gamma.rhophi_eta_tau, c08_lorentz_t_rhophi_eta_tau, h0, VR.P.nanToNum_eq]

theorem c08_lorentz_gamma_rhophi_theta_t (rho phi theta t : ℝ) (h0 : 0 ≤ VR.lorentz_tau2.rhophi_theta_t rho phi theta t) :
    VS.lorentz_gamma.rhophi_theta_t rho phi theta t = VR.lorentz_gamma.rhophi_theta_t rho phi theta t := by
  simp only [VS.lorentz_gamma.rhophi_theta_t, VR.lorentz_gamma.rhophi_theta_t, c08_lorentz_tau_rhophi_theta_t, h0, VR.P.nanToNum_eq]

theorem c08_lorentz_gamma_rhophi_theta_tau (rho phi theta tau : ℝ) (h0 : 0 ≤ tau) :
    VS.lorentz_gamma.rhophi_theta_tau rho phi theta tau = VR.lorentz_gamma.rhophi_theta_tau rho phi theta tau := by
  simp only [VS.lorentz_gamma.rhophi_theta_tau, VR.lorentz_gamma.rhophi_theta_tau, c08_lorentz_t_rhophi_theta_tau, h0, VR.P.nanToNum_eq]

theorem c08_lorentz_gamma_rhophi_z_t (rho phi z t : ℝ) (h0 : 0 ≤ VR.lorentz_tau2.rhophi_z_t rho phi z t) :
    VS.lorentz_gamma.rhophi_z_t rho phi z t = VR.lorentz_gamma.rhophi_z_t rho phi z t := by
  simp only [VS.lorentz_gamma.rhophi_z_t, VR.lorentz_gamma.rhophi_z_t, c08_lorentz_tau_rhophi_z_t, h0, VR.P.nanToNum_eq]

theorem c08_lorentz_gamma_rhophi_z_tau (rho phi z tau : ℝ) (h0 : 0 ≤ tau) :
    VS.lorentz_gamma.rhophi_z_tau rho phi z tau = VR.lorentz_gamma.rhophi_z_tau rho phi z tau := by
  simp only [VS.lorentz_gamma.rhophi_z_tau, VR.lorentz_gamma.rhophi_z_tau, c08_lorentz_t_rhophi_z_tau, h0, VR.P.nanToNum_eq]

theorem c08_lorentz_gamma_xy_eta_t (x y eta t : ℝ) (h0 : 0 ≤ VR.lorentz_tau2.xy_eta_t x y eta t) :
    VS.lorentz_gamma.xy_eta_t x y eta t = VR.lorentz_gamma.xy_eta_t x y eta t := by
  simp only [VS.lorentz_gamma.xy_eta_t, VR.lorentz_gamma.xy_eta_t, c08_lorentz_tau_xy_eta_t, h0, VR.P.nanToNum_eq]

theorem c08_lorentz_gamma_xy_eta_tau (x y eta tau : ℝ) (h0 : 0 ≤ tau) :
    VS.lorentz_gamma.xy_eta_tau x y eta tau = VR.lorentz_gamma.xy_eta_tau x y eta tau := by
  simp only [VS.lorentz_gamma.xy_eta_tau, VR.lorentz_gamma.xy_eta_tau, c08_lorentz_t_xy_eta_tau, h0, VR.P.nanToNum_eq]

theorem c08_lorentz_gamma_xy_theta_t (x y theta t : ℝ) (h0 : 0 ≤ VR.lorentz_tau2.xy_theta_t x y theta t) :
    VS.lorentz_gamma.xy_theta_t x y theta t = VR.lorentz_gamma.xy_theta_t x y theta t := by
  simp only [VS.lorentz_gamma.xy_theta_t, VR.lorentz_gamma.xy_theta_t, c08_lorentz_tau_xy_theta_t, h0, VR.P.nanToNum_eq]

theorem c08_lorentz_gamma_xy_theta_tau (x y theta tau : ℝ) (h0 : 0 ≤ tau) :
    VS.lorentz_gamma.xy_theta_tau x y theta tau = VR.lorentz_gamma.xy_theta_tau x y theta tau := by
  simp only [VS.lorentz_gamma.xy_theta_tau, VR.lorentz_gamma.xy_theta_tau, c08_lorentz_t_xy_theta_tau, h0, VR.P.nanToNum_eq]

theorem c08_lorentz_gamma_xy_z_t (x y z t : ℝ) (h0 : 0 ≤ VR.lorentz_tau2.xy_z_t x y z t) :
    VS.lorentz_gamma.xy_z_t x y z t = VR.lorentz_gamma.xy_z_t x y z t := by
  simp only [VS.lorentz_gamma.xy_z_t, VR.lorentz_gamma.xy_z_t, c08_lorentz_tau_xy_z_t, h0, VR.P.nanToNum_eq]

theorem c08_lorentz_gamma_xy_z_tau (x y z tau : ℝ) (h0 : 0 ≤ tau) :
    VS.lorentz_gamma.xy_z_tau x y z tau = VR.lorentz_gamma.xy_z_tau x y z tau := by
  simp only [VS.lorentz_gamma.xy_z_tau, VR.lorentz_gamma.xy_z_tau, c08_lorentz_t_xy_z_tau, h0, VR.P.nanToNum_eq]


/-! ### `lorentz_is_lightlike` -/

theorem c08_lorentz_is_lightlike_k_rhophi_eta_tau (tolerance coord1 coord2 coord3 coord4 : ℝ) (h0 : 0 ≤ coord4) :
    VS.lorentz_is_lightlike.k_rhophi_eta_tau tolerance coord1 coord2 coord3 coord4 = VR.lorentz_is_lightlike.k_rhophi_eta_tau tolerance coord1 coord2 coord3 coord4 := by
  simp only [VS.lorentz_is_lightlike.k_rhophi_eta_tau, VR.lorentz_is_lightlike.k_rhophi_eta_tau, c08_lorentz_dot_k_rhophi_eta_tau_rhophi_eta_tau, h0, VR.P.nanToNum_eq]

theorem c08_lorentz_is_lightlike_k_rhophi_theta_tau (tolerance coord1 coord2 coord3 coord4 : ℝ) (h0 : 0 ≤ coord4) :
    VS.lorentz_is_lightlike.k_rhophi_theta_tau tolerance coord1 coord2 coord3 coord4 = VR.lorentz_is_lightlike.k_rhophi_theta_tau tolerance coord1 coord2 coord3 coord4 := by
  simp only [VS.lorentz_is_lightlike.k_rhophi_theta_tau, VR.lorentz_is_lightlike.k_rhophi_theta_tau, c08_lorentz_dot_k_rhophi_theta_tau_rhophi_theta_tau, h0, VR.P.nanToNum_eq]

theorem c08_lorentz_is_lightlike_k_rhophi_z_tau (tolerance coord1 coord2 coord3 coord4 : ℝ) (h0 : 0 ≤ coord4) :
    VS.lorentz_is_lightlike.k_rhophi_z_tau tolerance coord1 coord2 coord3 coord4 = VR.lorentz_is_lightlike.k_rhophi_z_tau tolerance coord1 coord2 coord3 coord4 := by
  simp only [VS.lorentz_is_lightlike.k_rhophi_z_tau, VR.lorentz_is_lightlike.k_rhophi_z_tau, c08_lorentz_dot_k_rhophi_z_tau_rhophi_z_tau, h0, VR.P.nanToNum_eq]

theorem c08_lorentz_is_lightlike_k_xy_eta_tau (tolerance coord1 coord2 coord3 coord4 : ℝ) (h0 : 0 ≤ coord4) :
    VS.lorentz_is_lightlike.k_xy_eta_tau tolerance coord1 coord2 coord3 coord4 = VR.lorentz_is_lightlike.k_xy_eta_tau tolerance coord1 coord2 coord3 coord4 := by
  simp only [VS.lorentz_is_lightlike.k_xy_eta_tau, VR.lorentz_is_lightlike.k_xy_eta_tau, c08_lorentz_dot_k_xy_eta_tau_xy_eta_tau, h0, VR.P.nanToNum_eq]

theorem c08_lorentz_is_lightlike_k_xy_theta_tau (tolerance coord1 coord2 coord3 coord4 : ℝ) (h0 : 0 ≤ coord4) :
    VS.lorentz_is_lightlike.k_xy_theta_tau tolerance coord1 coord2 coord3 coord4 = VR.lorentz_is_lightlike.k_xy_theta_tau tolerance coord1 coord2 coord3 coord4 := by
  simp only [VS.lorentz_is_lightlike.k_xy_theta_tau, VR.lorentz_is_lightlike.k_xy_theta_tau, c08_lorentz_dot_k_xy_theta_tau_xy_theta_tau, h0, VR.P.nanToNum_eq]

theorem c08_lorentz_is_lightlike_k_xy_z_tau (tolerance coord1 coord2 coord3 coord4 : ℝ) (h0 : 0 ≤ coord4) :
    VS.lorentz_is_lightlike.k_xy_z_tau tolerance coord1 coord2 coord3 coord4 = VR.lorentz_is_lightlike.k_xy_z_tau tolerance coord1 coord2 coord3 coord4 := by
  simp only [VS.lorentz_is_lightlike.k_xy_z_tau, VR.lorentz_is_lightlike.k_xy_z_tau, c08_lorentz_dot_k_xy_z_tau_xy_z_tau, h0, VR.P.nanToNum_eq]


/-! ### `lorentz_is_spacelike` -/

theorem c08_lorentz_is_spacelike_k_rhophi_eta_tau (tolerance coord1 coord2 coord3 coord4 : ℝ) (h0 : 0 ≤ coord4) :
    VS.lorentz_is_spacelike.k_rhophi_eta_tau tolerance coord1 coord2 coord3 coord4 = VR.lorentz_is_spacelike.k_rhophi_eta_tau tolerance coord1 coord2 coord3 coord4 := by
  simp only [VS.lorentz_is_spacelike.k_rhophi_eta_tau, VR.lorentz_is_spacelike.k_rhophi_eta_tau, c08_lorentz_dot_k_rhophi_eta_tau_rhophi_eta_tau, h0, VR.P.nanToNum_eq]

theorem c08_lorentz_is_spacelike_k_rhophi_theta_tau (tolerance coord1 coord2 coord3 coord4 : ℝ) (h0 : 0 ≤ coord4) :
    VS.lorentz_is_spacelike.k_rhophi_theta_tau tolerance coord1 coord2 coord3 coord4 = VR.lorentz_is_spacelike.k_rhophi_theta_tau tolerance coord1 coord2 coord3 coord4 := by
  simp only [VS.lorentz_is_spacelike.k_rhophi_theta_tau, VR.lorentz_is_spacelike.k_rhophi_theta_tau, c08_lorentz_dot_k_rhophi_theta_tau_rhophi_theta_tau, h0, VR.P.nanToNum_eq]

theorem c08_lorentz_is_spacelike_k_rhophi_z_tau (tolerance coord1 coord2 coord3 coord4 : ℝ) (h0 : 0 ≤ coord4) :
    VS.lorentz_is_spacelike.k_rhophi_z_tau tolerance coord1 coord2 coord3 coord4 = VR.lorentz_is_spacelike.k_rhophi_z_tau tolerance coord1 coord2 coord3 coord4 := by
  simp only [VS.lorentz_is_spacelike.k_rhophi_z_tau, VR.lorentz_is_spacelike.k_rhophi_z_tau, c08_lorentz_dot_k_rhophi_z_tau_rhophi_z_tau, h0, VR.P.nanToNum_eq]

theorem c08_lorentz_is_spacelike_k_xy_eta_tau (tolerance coord1 coord2 coord3 coord4 : ℝ) (h0 : 0 ≤ coord4) :
    VS.lorentz_is_spacelike.k_xy_eta_tau tolerance coord1 coord2 coord3 coord4 = VR.lorentz_is_spacelike.k_xy_eta_tau tolerance coord1 coord2 coord3 coord4 := by
  simp only [VS.lorentz_is_spacelike.k_xy_eta_tau, VR.lorentz_is_spacelike.k_xy_eta_tau, c08_lorentz_dot_k_xy_eta_tau_xy_eta_tau, h0, VR.P.nanToNum_eq]

theorem c08_lorentz_is_spacelike_k_xy_theta_tau (tolerance coord1 coord2 coord3 coord4 : ℝ) (h0 : 0 ≤ coord4) :
    VS.lorentz_is_spacelike.k_xy_theta_tau tolerance coord1 coord2 coord3 coord4 = VR.lorentz_is_spacelike.k_xy_theta_tau tolerance coord1 coord2 coord3 coord4 := by
  simp only [VS.lorentz_is_spacelike.k_xy_theta_tau, VR.lorentz_is_spacelike.k_xy_theta_tau, c08_lorentz_dot_k_xy_theta_tau_xy_theta_tau, h0, VR.P.nanToNum_eq]

theorem c08_lorentz_is_spacelike_k_xy_z_tau (tolerance coord1 coord2 coord3 coord4 : ℝ) (h0 : 0 ≤ coord4) :
    VS.lorentz_is_spacelike.k_xy_z_tau tolerance coord1 coord2 coord3 coord4 = VR.lorentz_is_spacelike.k_xy_z_tau tolerance coord1 coord2 coord3 coord4 := by
  simp only [VS.lorentz_is_spacelike.k_xy_z_tau, VR.lorentz_is_spacelike.k_xy_z_tau, c08_lorentz_dot_k_xy_z_tau_xy_z_tau, h0, VR.P.nanToNum_eq]


/-! ### `lorentz_is_timelike` -/

theorem c08_lorentz_is_timelike_k_rhophi_eta_tau (tolerance coord1 coord2 coord3 coord4 : ℝ) (h0 : 0 ≤ coord4) :
    VS.lorentz_is_timelike.k_rhophi_eta_tau tolerance coord1 coord2 coord3 coord4 = VR.lorentz_is_timelike.k_rhophi_eta_tau tolerance coord1 coord2 coord3 coord4 := by
  simp only [VS.lorentz_is_timelike.k_rhophi_eta_tau, VR.lorentz_is_timelike.k_rhophi_eta_tau, c08_lorentz_dot_k_rhophi_eta_tau_rhophi_eta_tau, h0, VR.P.nanToNum_eq]

theorem c08_lorentz_is_timelike_k_rhophi_theta_tau (tolerance coord1 coord2 coord3 coord4 : ℝ) (h0 : 0 ≤ coord4) :
    VS.lorentz_is_timelike.k_rhophi_theta_tau tolerance coord1 coord2 coord3 coord4 = VR.lorentz_is_timelike.k_rhophi_theta_tau tolerance coord1 coord2 coord3 coord4 := by
  simp only [VS.lorentz_is_timelike.k_rhophi_theta_tau, VR.lorentz_is_timelike.k_rhophi_theta_tau, c08_lorentz_dot_k_rhophi_theta_tau_rhophi_theta_tau, h0, VR.P.nanToNum_eq]

theorem c08_lorentz_is_timelike_k_rhophi_z_tau (tolerance coord1 coord2 coord3 coord4 : ℝ) (h0 : 0 ≤ coord4) :
    VS.lorentz_is_timelike.k_rhophi_z_tau tolerance coord1 coord2 coord3 coord4 = VR.lorentz_is_timelike.k_rhophi_z_tau tolerance coord1 coord2 coord3 coord4 := by
  simp only [VS.lorentz_is_timelike.k_rhophi_z_tau, VR.lorentz_is_timelike.k_rhophi_z_tau, c08_lorentz_dot_k_rhophi_z_tau_rhophi_z_tau, h0, VR.P.nanToNum_eq]

theorem c08_lorentz_is_timelike_k_xy_eta_tau (tolerance coord1 coord2 coord3 coord4 : ℝ) (h0 : 0 ≤ coord4) :
    VS.lorentz_is_timelike.k_xy_eta_tau tolerance coord1 coord2 coord3 coord4 = VR.lorentz_is_timelike.k_xy_eta_tau tolerance coord1 coord2 coord3 coord4 := by
  simp only [VS.lorentz_is_timelike.k_xy_eta_tau, VR.lorentz_is_timelike.k_xy_eta_tau, c08_lorentz_dot_k_xy_eta_tau_xy_eta_tau, h0, VR.P.nanToNum_eq]

theorem c08_lorentz_is_timelike_k_xy_theta_tau (tolerance coord1 coord2 coord3 coord4 : ℝ) (h0 : 0 ≤ coord4) :
    VS.lorentz_is_timelike.k_xy_theta_tau tolerance coord1 coord2 coord3 coord4 = VR.lorentz_is_timelike.k_xy_theta_tau tolerance coord1 coord2 coord3 coord4 := by
  simp only [VS.lorentz_is_timelike.k_xy_theta_tau, VR.lorentz_is_timelike.k_xy_theta_tau, c08_lorentz_dot_k_xy_theta_tau_xy_theta_tau, h0, VR.P.nanToNum_eq]

theorem c08_lorentz_is_timelike_k_xy_z_tau (tolerance coord1 coord2 coord3 coord4 : ℝ) (h0 : 0 ≤ coord4) :
    VS.lorentz_is_timelike.k_xy_z_tau tolerance coord1 coord2 coord3 coord4 = VR.lorentz_is_timelike.k_xy_z_tau tolerance coord1 coord2 coord3 coord4 := by
  simp only [VS.lorentz_is_timelike.k_xy_z_tau, VR.lorentz_is_timelike.k_xy_z_tau, c08_lorentz_dot_k_xy_z_tau_xy_z_tau, h0, VR.P.nanToNum_eq]


/-! ### `lorentz_not_equal` -/

theorem c08_lorentz_not_equal_k_rhophi_eta_t_rhophi_eta_tau (coord11 coord12 coord13 coord14 coord21 coord22 coord23 coord24 : ℝ) (h0 : 0 ≤ coord24) :
    VS.lorentz_not_equal.k_rhophi_eta_t_rhophi_eta_tau coord11 coord12 coord13 coord14 coord21 coord22 coord23 coord24 = VR.lorentz_not_equal.k_rhophi_eta_t_rhophi_eta_tau coord11 coord12 coord13 coord14 coord21 coord22 coord23 coord24 := by
  simp only [VS.lorentz_not_equal.k_rhophi_eta_t_rhophi_eta_tau, VR.lorentz_not_equal.k_rhophi_eta_t_rhophi_eta_tau, VS.lorentz_t.rhophi_eta_t_eq, c08_lorentz_t_rhophi_eta_tau, VS.spatial_not_equal.rhophi_eta_rhophi_eta_eq, h0, VR.P.nanToNum_eq]

theorem c08_lorentz_not_equal_k_rhophi_eta_t_rhophi_theta_tau (coord11 coord12 coord13 coord14 coord21 coord22 coord23 coord24 : ℝ) (h0 : 0 ≤ coord24) :
    VS.lorentz_not_equal.k_rhophi_eta_t_rhophi_theta_tau coord11 coord12 coord13 coord14 coord21 coord22 coord23 coord24 = VR.lorentz_not_equal.k_rhophi_eta_t_rhophi_theta_tau coord11 coord12 coord13 coord14 coord21 coord22 coord23 coord24 := by
  simp only [VS.lorentz_not_equal.k_rhophi_eta_t_rhophi_theta_tau, VR.lorentz_not_equal.k_rhophi_eta_t_rhophi_theta_tau, VS.lorentz_t.rhophi_eta_t_eq, c08_lorentz_t_rhophi_theta_tau, VS.spatial_not_equal.rhophi_eta_rhophi_theta_eq, h0, VR.P.nanToNum_eq]

theorem c08_lorentz_not_equal_k_rhophi_eta_t_rhophi_z_tau (coord11 coord12 coord13 coord14 coord21 coord22 coord23 coord24 : ℝ) (h0 : 0 ≤ coord24) :
    VS.lorentz_not_equal.k_rhophi_eta_t_rhophi_z_tau coord11 coord12 coord13 coord14 coord21 coord22 coord23 coord24 = VR.lorentz_not_equal.k_rhophi_eta_t_rhophi_z_tau coord11 coord12 coord13 coord14 coord21 coord22 coord23 coord24 := by
  simp only [VS.lorentz_not_equal.k_rhophi_eta_t_rhophi_z_tau, VR.lorentz_not_equal.k_rhophi_eta_t_rhophi_z_tau, VS.lorentz_t.rhophi_eta_t_eq, c08_lorentz_t_rhophi_z_tau, VS.spatial_not_equal.rhophi_eta_rhophi_z_eq, h0, VR.P.nanToNum_eq]

theorem c08_lorentz_not_equal_k_rhophi_eta_t_xy_eta_tau (coord11 coord12 coord13 coord14 coord21 coord22 coord23 coord24 : ℝ) (h0 : 0 ≤ coord24) :
    VS.lorentz_not_equal.k_rhophi_eta_t_xy_eta_tau coord11 coord12 coord13 coord14 coord21 coord22 coord23 coord24 = VR.lorentz_not_equal.k_rhophi_eta_t_xy_eta_tau coord11 coord12 coord13 coord14 coord21 coord22 coord23 coord24 := by
  simp only [VS.lorentz_not_equal.k_rhophi_eta_t_xy_eta_tau, VR.lorentz_not_equal.k_rhophi_eta_t_xy_eta_tau, VS.lorentz_t.rhophi_eta_t_eq, c08_lorentz_t_xy_eta_tau, VS.spatial_not_equal.rhophi_eta_xy_eta_eq, h0, VR.P.nanToNum_eq]

theorem c08_lorentz_not_equal_k_rhophi_eta_t_xy_theta_tau (coord11 coord12 coord13 coord14 coord21 coord22 coord23 coord24 : ℝ) (h0 : 0 ≤ coord24) :
    VS.lorentz_not_equal.k_rhophi_eta_t_xy_theta_tau coord11 coord12 coord13 coord14 coord21 coord22 coord23 coord24 = VR.lorentz_not_equal.k_rhophi_eta_t_xy_theta_tau coord11 coord12 coord13 coord14 coord21 coord22 coord23 coord24 := by
  simp only [VS.lorentz_not_equal.k_rhophi_eta_t_xy_theta_tau, VR.lorentz_not_equal.k_rhophi_eta_t_xy_theta_tau, VS.lorentz_t.rhophi_eta_t_eq, c08_lorentz_t_xy_theta_tau, VS.spatial_not_equal.rhophi_eta_xy_theta_eq, h0, VR.P.nanToNum_eq]

theorem c08_lorentz_not_equal_k_rhophi_eta_t_xy_z_tau (coord11 coord12 coord13 coord14 coord21 coord22 coord23 coord24 : ℝ) (h0 : 0 ≤ coord24) :
    VS.lorentz_not_equal.k_rhophi_eta_t_xy_z_tau coord11 coord12 coord13 coord14 coord21 coord22 coord23 coord24 = VR.lorentz_not_equal.k_rhophi_eta_t_xy_z_tau coord11 coord12 coord13 coord14 coord21 coord22 coord23 coord24 := by
  simp only [VS.lorentz_not_equal.k_rhophi_eta_t_xy_z_tau, VR.lorentz_not_equal.k_rhophi_eta_t_xy_z_tau, VS.lorentz_t.rhophi_eta_t_eq, c08_lorentz_t_xy_z_tau, VS.spatial_not_equal.rhophi_eta_xy_z_eq, h0, VR.P.nanToNum_eq]

theorem c08_lorentz_not_equal_k_rhophi_eta_tau_rhophi_eta_t (coord11 coord12 coord13 coord14 coord21 coord22 coord23 coord24 : ℝ) (h0 : 0 ≤ coord14) :
    VS.lorentz_not_equal.k_rhophi_eta_tau_rhophi_eta_t coord11 coord12 coord13 coord14 coord21 coord22 coord23 coord24 = VR.lorentz_not_equal.k_rhophi_eta_tau_rhophi_eta_t coord11 coord12 coord13 coord14 coord21 coord22 coord23 coord24 := by
  simp only [VS.lorentz_not_equal.k_rhophi_eta_tau_rhophi_eta_t, VR.lorentz_not_equal.k_rhophi_eta_tau_rhophi_eta_t, c08_lorentz_t_rhophi_eta_tau, VS.lorentz_t.rhophi_eta_t_eq, VS.spatial_not_equal.rhophi_eta_rhophi_eta_eq, h0, VR.P.nanToNum_eq]

theorem c08_lorentz_not_equal_k_rhophi_eta_tau_rhophi_theta_t (coord11 coord12 coord13 coord14 coord21 coord22 coord23 coord24 : ℝ) (h0 : 0 ≤ coord14) :
    VS.lorentz_not_equal.k_rhophi_eta_tau_rhophi_theta_t coord11 coord12 coord13 coord14 coord21 coord22 coord23 coord24 = VR.lorentz_not_equal.k_rhophi_eta_tau_rhophi_theta_t coord11 coord12 coord13 coord14 coord21 coord22 coord23 coord24 := by
  simp only [VS.lorentz_not_equal.k_rhophi_eta_tau_rhophi_theta_t, VR.lorentz_not_equal.k_rhophi_eta_tau_rhophi_theta_t, c08_lorentz_t_rhophi_eta_tau, VS.lorentz_t.rhophi_theta_t_eq, VS.spatial_not_equal.rhophi_eta_rhophi_theta_eq, h0, VR.P.nanToNum_eq]

theorem c08_lorentz_not_equal_k_rhophi_eta_tau_rhophi_z_t (coord11 coord12 coord13 coord14 coord21 coord22 coord23 coord24 : ℝ) (h0 : 0 ≤ coord14) :
    VS.lorentz_not_equal.k_rhophi_eta_tau_rhophi_z_t coord11 coord12 coord13 coord14 coord21 coord22 coord23 coord24 = VR.lorentz_not_equal.k_rhophi_eta_tau_rhophi_z_t coord11 coord12 coord13 coord14 coord21 coord22 coord23 coord24 := by
  simp only [VS.lorentz_not_equal.k_rhophi_eta_tau_rhophi_z_t, VR.lorentz_not_equal.k_rhophi_eta_tau_rhophi_z_t, c08_lorentz_t_rhophi_eta_tau, VS.lorentz_t.rhophi_z_t_eq, VS.spatial_not_equal.rhophi_eta_rhophi_z_eq, h0, VR.P.nanToNum_eq]

theorem c08_lorentz_not_equal_k_rhophi_eta_tau_xy_eta_t (coord11 coord12 coord13 coord14 coord21 coord22 coord23 coord24 : ℝ) (h0 : 0 ≤ coord14) :
    VS.lorentz_not_equal.k_rhophi_eta_tau_xy_eta_t coord11 coord12 coord13 coord14 coord21 coord22 coord23 coord24 = VR.lorentz_not_equal.k_rhophi_eta_tau_xy_eta_t coord11 coord12 coord13 coord14 coord21 coord22 coord23 coord24 := by
  simp only [VS.lorentz_not_equal.k_rhophi_eta_tau_xy_eta_t, VR.lorentz_not_equal.k_rhophi_eta_tau_xy_eta_t, c08_lorentz_t_rhophi_eta_tau, VS.lorentz_t.xy_eta_t_eq, VS.spatial_not_equal.rhophi_eta_xy_eta_eq, h0, VR.P.nanToNum_eq]

theorem c08_lorentz_not_equal_k_rhophi_eta_tau_xy_theta_t (coord11 coord12 coord13 coord14 coord21 coord22 coord23 coord24 : ℝ) (h0 : 0 ≤ coord14) :
    VS.lorentz_not_equal.k_rhophi_eta_tau_xy_theta_t coord11 coord12 coord13 coord14 coord21 coord22 coord23 coord24 = VR.lorentz_not_equal.k_rhophi_eta_tau_xy_theta_t coord11 coord12 coord13 coord14 coord21 coord22 coord23 coord24 := by
  simp only [VS.lorentz_not_equal.k_rhophi_eta_tau_xy_theta_t, VR.lorentz_not_equal.k_rhophi_eta_tau_xy_theta_t, c08_lorentz_t_rhophi_eta_tau, VS.lorentz_t.xy_theta_t_eq, VS.spatial_not_equal.rhophi_eta_xy_theta_eq, h0, VR.P.nanToNum_eq]

theorem c08_lorentz_not_equal_k_rhophi_eta_tau_xy_z_t (coord11 coord12 coord13 coord14 coord21 coord22 coord23 coord24 : ℝ) (h0 : 0 ≤ coord14) :
    VS.lorentz_not_equal.k_rhophi_eta_tau_xy_z_t coord11 coord12 coord13 coord14 coord21 coord22 coord23 coord24 = VR.lorentz_not_equal.k_rhophi_eta_tau_xy_z_t coord11 coord12 coord13 coord14 coord21 coord22 coord23 coord24 := by
  simp only [VS.lorentz_not_equal.k_rhophi_eta_tau_xy_z_t, VR.lorentz_not_equal.k_rhophi_eta_tau_xy_z_t, c08_lorentz_t_rhophi_eta_tau, VS.lorentz_t.xy_z_t_eq, VS.spatial_not_equal.rhophi_eta_xy_z_eq, h0, VR.P.nanToNum_eq]

theorem c08_lorentz_not_equal_k_rhophi_theta_t_rhophi_eta_tau (coord11 coord12 coord13 coord14 coord21 coord22 coord23 coord24 : ℝ) (h0 : 0 ≤ coord24) :
    VS.lorentz_not_equal.k_rhophi_theta_t_rhophi_eta_tau coord11 coord12 coord13 coord14 coord21 coord22 coord23 coord24 = VR.lorentz_not_equal.k_rhophi_theta_t_rhophi_eta_tau coord11 coord12 coord13 coord14 coord21 coord22 coord23 coord24 := by
  simp only [VS.lorentz_not_equal.k_rhophi_theta_t_rhophi_eta_tau, VR.lorentz_not_equal.k_rhophi_theta_t_rhophi_eta_tau, VS.lorentz_t.rhophi_theta_t_eq, c08_lorentz_t_rhophi_eta_tau, VS.spatial_not_equal.rhophi_theta_rhophi_eta_eq, h0, VR.P.nanToNum_eq]

theorem c08_lorentz_not_equal_k_rhophi_theta_t_rhophi_theta_tau (coord11 coord12 coord13 coord14 coord21 coord22 coord23 coord24 : ℝ) (h0 : 0 ≤ coord24) :
    VS.lorentz_not_equal.k_rhophi_theta_t_rhophi_theta_tau coord11 coord12 coord13 coord14 coord21 coord22 coord23 coord24 = VR.lorentz_not_equal.k_rhophi_theta_t_rhophi_theta_tau coord11 coord12 coord13 coord14 coord21 coord22 coord23 coord24 := by
  simp only [VS.lorentz_not_equal.k_rhophi_theta_t_rhophi_theta_tau, VR.lorentz_not_equal.k_rhophi_theta_t_rhophi_theta_tau, VS.lorentz_t.rhophi_theta_t_eq, c08_lorentz_t_rhophi_theta_tau, VS.spatial_not_equal.rhophi_theta_rhophi_theta_eq, h0, VR.P.nanToNum_eq]

theorem c08_lorentz_not_equal_k_rhophi_theta_t_rhophi_z_tau (coord11 coord12 coord13 coord14 coord21 coord22 coord23 coord24 : ℝ) (h0 : 0 ≤ coord24) :
    VS.lorentz_not_equal.k_rhophi_theta_t_rhophi_z_tau coord11 coord12 coord13 coord14 coord21 coord22 coord23 coord24 = VR.lorentz_not_equal.k_rhophi_theta_t_rhophi_z_tau coord11 coord12 coord13 coord14 coord21 coord22 coord23 coord24 := by
  simp only [VS.lorentz_not_equal.k_rhophi_theta_t_rhophi_z_tau, VR.lorentz_not_equal.k_rhophi_theta_t_rhophi_z_tau, VS.lorentz_t.rhophi_theta_t_eq, c08_lorentz_t_rhophi_z_tau, VS.spatial_not_equal.rhophi_theta_rhophi_z_eq, h0, VR.P.nanToNum_eq]

theorem c08_lorentz_not_equal_k_rhophi_theta_t_xy_eta_tau (coord11 coord12 coord13 coord14 coord21 coord22 coord23 coord24 : ℝ) (h0 : 0 ≤ coord24) :
    VS.lorentz_not_equal.k_rhophi_theta_t_xy_eta_tau coord11 coord12 coord13 coord14 coord21 coord22 coord23 coord24 = VR.lorentz_not_equal.k_rhophi_theta_t_xy_eta_tau coord11 coord12 coord13 coord14 coord21 coord22 coord23 coord24 := by
  simp only [VS.lorentz_not_equal.k_rhophi_theta_t_xy_eta_tau, VR.lorentz_not_equal.k_rhophi_theta_t_xy_eta_tau, VS.lorentz_t.rhophi_theta_t_eq, c08_lorentz_t_xy_eta_tau, VS.spatial_not_equal.rhophi_theta_xy_eta_eq, h0, VR.P.nanToNum_eq]

theorem c08_lorentz_not_equal_k_rhophi_theta_t_xy_theta_tau (coord11 coord12 coord13 coord14 coord21 coord22 coord23 coord24 : ℝ) (h0 : 0 ≤ coord24) :
    VS.lorentz_not_equal.k_rhophi_theta_t_xy_theta_tau coord11 coord12 coord13 coord14 coord21 coord22 coord23 coord24 = VR.lorentz_not_equal.k_rhophi_theta_t_xy_theta_tau coord11 coord12 coord13 coord14 coord21 coord22 coord23 coord24 := by
  simp only [VS.lorentz_not_equal.k_rhophi_theta_t_xy_theta_tau, VR.lorentz_not_equal.k_rhophi_theta_t_xy_theta_tau, VS.lorentz_t.rhophi_theta_t_eq, c08_lorentz_t_xy_theta_tau, VS.spatial_not_equal.rhophi_theta_xy_theta_eq, h0, VR.P.nanToNum_eq]

theorem c08_lorentz_not_equal_k_rhophi_theta_t_xy_z_tau (coord11 coord12 coord13 coord14 coord21 coord22 coord23 coord24 : ℝ) (h0 : 0 ≤ coord24) :
    VS.lorentz_not_equal.k_rhophi_theta_t_xy_z_tau coord11 coord12 coord13 coord14 coord21 coord22 coord23 coord24 = VR.lorentz_not_equal.k_rhophi_theta_t_xy_z_tau coord11 coord12 coord13 coord14 coord21 coord22 coord23 coord24 := by
  simp only [VS.lorentz_not_equal.k_rhophi_theta_t_xy_z_tau, VR.lorentz_not_equal.k_rhophi_theta_t_xy_z_tau, VS.lorentz_t.rhophi_theta_t_eq, c08_lorentz_t_xy_z_tau, VS.spatial_not_equal.rhophi_theta_xy_z_eq, h0, VR.P.nanToNum_eq]

theorem c08_lorentz_not_equal_k_rhophi_theta_tau_rhophi_eta_t (coord11 coord12 coord13 coord14 coord21 coord22 coord23 coord24 : ℝ) (h0 : 0 ≤ coord14) :
    VS.lorentz_not_equal.k_rhophi_theta_tau_rhophi_eta_t coord11 coord12 coord13 coord14 coord21 coord22 coord23 coord24 = VR.lorentz_not_equal.k_rhophi_theta_tau_rhophi_eta_t coord11 coord12 coord13 coord14 coord21 coord22 coord23 coord24 := by
  simp only [VS.lorentz_not_equal.k_rhophi_theta_tau_rhophi_eta_t, VR.lorentz_not_equal.k_rhophi_theta_tau_rhophi_eta_t, c08_lorentz_t_rhophi_theta_tau, VS.lorentz_t.rhophi_eta_t_eq, VS.spatial_not_equal.rhophi_theta_rhophi_eta_eq, h0, VR.P.nanToNum_eq]

theorem c08_lorentz_not_equal_k_rhophi_theta_tau_rhophi_theta_t (coord11 coord12 coord13 coord14 coord21 coord22 coord23 coord24 : ℝ) (h0 : 0 ≤ coord14) :
    VS.lorentz_not_equal.k_rhophi_theta_tau_rhophi_theta_t coord11 coord12 coord13 coord14 coord21 coord22 coord23 coord24 = VR.lorentz_not_equal.k_rhophi_theta_tau_rhophi_theta_t coord11 coord12 coord13 coord14 coord21 coord22 coord23 coord24 := by
  simp only [VS.lorentz_not_equal.k_rhophi_theta_tau_rhophi_theta_t, VR.lorentz_not_equal.k_rhophi_theta_tau_rhophi_theta_t, c08_lorentz_t_rhophi_theta_tau, VS.lorentz_t.rhophi_theta_t_eq, VS.spatial_not_equal.rhophi_theta_rhophi_theta_eq, h0, VR.P.nanToNum_eq]

theorem c08_lorentz_not_equal_k_rhophi_theta_tau_rhophi_z_t (coord11 coord12 coord13 coord14 coord21 coord22 coord23 coord24 : ℝ) (h0 : 0 ≤ coord14) :
    VS.lorentz_not_equal.k_rhophi_theta_tau_rhophi_z_t coord11 coord12 coord13 coord14 coord21 coord22 coord23 coord24 = VR.lorentz_not_equal.k_rhophi_theta_tau_rhophi_z_t coord11 coord12 coord13 coord14 coord21 coord22 coord23 coord24 := by
  simp only [VS.lorentz_not_equal.k_rhophi_theta_tau_rhophi_z_t, VR.lorentz_not_equal.k_rhophi_theta_tau_rhophi_z_t, c08_lorentz_t_rhophi_theta_tau, VS.lorentz_t.rhophi_z_t_eq, VS.spatial_not_equal.rhophi_theta_rhophi_z_eq, h0, VR.P.nanToNum_eq]

theorem c08_lorentz_not_equal_k_rhophi_theta_tau_xy_eta_t (coord11 coord12 coord13 coord14 coord21 coord22 coord23 coord24 : ℝ) (h0 : 0 ≤ coord14) :
    VS.lorentz_not_equal.k_rhophi_theta_tau_xy_eta_t coord11 coord12 coord13 coord14 coord21 coord22 coord23 coord24 = VR.lorentz_not_equal.k_rhophi_theta_tau_xy_eta_t coord11 coord12 coord13 coord14 coord21 coord22 coord23 coord24 := by
  simp only [VS.lorentz_not_equal.k_rhophi_theta_tau_xy_eta_t, VR.lorentz_not_equal.k_rhophi_theta_tau_xy_eta_t, c08_lorentz_t_rhophi_theta_tau, VS.lorentz_t.xy_eta_t_eq, VS.spatial_not_equal.rhophi_theta_xy_eta_eq, h0, VR.P.nanToNum_eq]

theorem c08_lorentz_not_equal_k_rhophi_theta_tau_xy_theta_t (coord11 coord12 coord13 coord14 coord21 coord22 coord23 coord24 : ℝ) (h0 : 0 ≤ coord14) :
    VS.lorentz_not_equal.k_rhophi_theta_tau_xy_theta_t coord11 coord12 coord13 coord14 coord21 coord22 coord23 coord24 = VR.lorentz_not_equal.k_rhophi_theta_tau_xy_theta_t coord11 coord12 coord13 coord14 coord21 coord22 coord23 coord24 := by
  simp only [VS.lorentz_not_equal.k_rhophi_theta_tau_xy_theta_t, VR.lorentz_not_equal.k_rhophi_theta_tau_xy_theta_t, c08_lorentz_t_rhophi_theta_tau, VS.lorentz_t.xy_theta_t_eq, VS.spatial_not_equal.rhophi_theta_xy_theta_eq, h0, VR.P.nanToNum_eq]

theorem c08_lorentz_not_equal_k_rhophi_theta_tau_xy_z_t (coord11 coord12 coord13 coord14 coord21 coord22 coord23 coord24 : ℝ) (h0 : 0 ≤ coord14) :
    VS.lorentz_not_equal.k_rhophi_theta_tau_xy_z_t coord11 coord12 coord13 coord14 coord21 coord22 coord23 coord24 = VR.lorentz_not_equal.k_rhophi_theta_tau_xy_z_t coord11 coord12 coord13 coord14 coord21 coord22 coord23 coord24 := by
  simp only [VS.lorentz_not_equal.k_rhophi_theta_tau_xy_z_t, VR.lorentz_not_equal.k_rhophi_theta_tau_xy_z_t, c08_lorentz_t_rhophi_theta_tau, VS.lorentz_t.xy_z_t_eq, VS.spatial_not_equal.rhophi_theta_xy_z_eq, h0, VR.P.nanToNum_eq]

theorem c08_lorentz_not_equal_k_rhophi_z_t_rhophi_eta_tau (coord11 coord12 coord13 coord14 coord21 coord22 coord23 coord24 : ℝ) (h0 : 0 ≤ coord24) :
    VS.lorentz_not_equal.k_rhophi_z_t_rhophi_eta_tau coord11 coord12 coord13 coord14 coord21 coord22 coord23 coord24 = VR.lorentz_not_equal.k_rhophi_z_t_rhophi_eta_tau coord11 coord12 coord13 coord14 coord21 coord22 coord23 coord24 := by
  simp only [VS.lorentz_not_equal.k_rhophi_z_t_rhophi_eta_tau, VR.lorentz_not_equal.k_rhophi_z_t_rhophi_eta_tau, VS.lorentz_t.rhophi_z_t_eq, c08_lorentz_t_rhophi_eta_tau, VS.spatial_not_equal.rhophi_z_rhophi_eta_eq, h0, VR.P.nanToNum_eq]

theorem c08_lorentz_not_equal_k_rhophi_z_t_rhophi_theta_tau (coord11 coord12 coord13 coord14 coord21 coord22 coord23 coord24 : ℝ) (h0 : 0 ≤ coord24) :
    VS.lorentz_not_equal.k_rhophi_z_t_rhophi_theta_tau coord11 coord12 coord13 coord14 coord21 coord22 coord23 coord24 = VR.lorentz_not_equal.k_rhophi_z_t_rhophi_theta_tau coord11 coord12 coord13 coord14 coord21 coord22 coord23 coord24 := by
  simp only [VS.lorentz_not_equal.k_rhophi_z_t_rhophi_theta_tau, VR.lorentz_not_equal.k_rhophi_z_t_rhophi_theta_tau, VS.lorentz_t.rhophi_z_t_eq, c08_lorentz_t_rhophi_theta_tau, VS.spatial_not_equal.rhophi_z_rhophi_theta_eq, h0, VR.P.nanToNum_eq]

theorem c08_lorentz_not_equal_k_rhophi_z_t_rhophi_z_tau (coord11 coord12 coord13 coord14 coord21 coord22 coord23 coord24 : ℝ) (h0 : 0 ≤ coord24) :
    VS.lorentz_not_equal.k_rhophi_z_t_rhophi_z_tau coord11 coord12 coord13 coord14 coord21 coord22 coord23 coord24 = VR.lorentz_not_equal.k_rhophi_z_t_rhophi_z_tau coord11 coord12 coord13 coord14 coord21 coord22 coord23 coord24 := by
  simp only [VS.lorentz_not_equal.k_rhophi_z_t_rhophi_z_tau, VR.lorentz_not_equal.k_rhophi_z_t_rhophi_z_tau, VS.lorentz_t.rhophi_z_t_eq, c08_lorentz_t_rhophi_z_tau, VS.spatial_not_equal.rhophi_z_rhophi_z_eq, h0, VR.P.nanToNum_eq]

theorem c08_lorentz_not_equal_k_rhophi_z_t_xy_eta_tau (coord11 coord12 coord13 coord14 coord21 coord22 coord23 coord24 : ℝ) (h0 : 0 ≤ coord24) :
    VS.lorentz_not_equal.k_rhophi_z_t_xy_eta_tau coord11 coord12 coord13 coord14 coord21 coord22 coord23 coord24 = VR.lorentz_not_equal.k_rhophi_z_t_xy_eta_tau coord11 coord12 coord13 coord14 coord21 coord22 coord23 coord24 := by
  simp only [VS.lorentz_not_equal.k_rhophi_z_t_xy_eta_tau, VR.lorentz_not_equal.k_rhophi_z_t_xy_eta_tau, VS.lorentz_t.rhophi_z_t_eq, c08_lorentz_t_xy_eta_tau, VS.spatial_not_equal.rhophi_z_xy_eta_eq, h0, VR.P.nanToNum_eq]

theorem c08_lorentz_not_equal_k_rhophi_z_t_xy_theta_tau (coord11 coord12 coord13 coord14 coord21 coord22 coord23 coord24 : ℝ) (h0 : 0 ≤ coord24) :
    VS.lorentz_not_equal.k_rhophi_z_t_xy_theta_tau coord11 coord12 coord13 coord14 coord21 coord22 coord23 coord24 = VR.lorentz_not_equal.k_rhophi_z_t_xy_theta_tau coord11 coord12 coord13 coord14 coord21 coord22 coord23 coord24 := by
  simp only [VS.lorentz_not_equal.k_rhophi_z_t_xy_theta_tau, VR.lorentz_not_equal.k_rhophi_z_t_xy_theta_tau, VS.lorentz_t.rhophi_z_t_eq, c08_lorentz_t_xy_theta_tau, VS.spatial_not_equal.rhophi_z_xy_theta_eq, h0, VR.P.nanToNum_eq]

theorem c08_lorentz_not_equal_k_rhophi_z_t_xy_z_tau (coord11 coord12 coord13 coord14 coord21 coord22 coord23 coord24 : ℝ) (h0 : 0 ≤ coord24) :
    VS.lorentz_not_equal.k_rhophi_z_t_xy_z_tau coord11 coord12 coord13 coord14 coord21 coord22 coord23 coord24 = VR.lorentz_not_equal.k_rhophi_z_t_xy_z_tau coord11 coord12 coord13 coord14 coord21 coord22 coord23 coord24 := by
  simp only [VS.lorentz_not_equal.k_rhophi_z_t_xy_z_tau, VR.lorentz_not_equal.k_rhophi_z_t_xy_z_tau, VS.lorentz_t.rhophi_z_t_eq, c08_lorentz_t_xy_z_tau, VS.spatial_not_equal.rhophi_z_xy_z_eq, h0, VR.P.nanToNum_eq]

theorem c08_lorentz_not_equal_k_rhophi_z_tau_rhophi_eta_t (coord11 coord12 coord13 coord14 coord21 coord22 coord23 coord24 : ℝ) (h0 : 0 ≤ coord14) :
    VS.lorentz_not_equal.k_rhophi_z_tau_rhophi_eta_t coord11 coord12 coord13 coord14 coord21 coord22 coord23 coord24 = VR.lorentz_not_equal.k_rhophi_z_tau_rhophi_eta_t coord11 coord12 coord13 coord14 coord21 coord22 coord23 coord24 := by
  simp only [VS.lorentz_not_equal.k_rhophi_z_tau_rhophi_eta_t, VR.lorentz_not_equal.k_rhophi_z_tau_rhophi_eta_t, c08_lorentz_t_rhophi_z_tau, VS.lorentz_t.rhophi_eta_t_eq, VS.spatial_not_equal.rhophi_z_rhophi_eta_eq, h0, VR.P.nanToNum_eq]

theorem c08_lorentz_not_equal_k_rhophi_z_tau_rhophi_theta_t (coord11 coord12 coord13 coord14 coord21 coord22 coord23 coord24 : ℝ) (h0 : 0 ≤ coord14) :
    VS.lorentz_not_equal.k_rhophi_z_tau_rhophi_theta_t coord11 coord12 coord13 coord14 coord21 coord22 coord23 coord24 = VR.lorentz_not_equal.k_rhophi_z_tau_rhophi_theta_t coord11 coord12 coord13 coord14 coord21 coord22 coord23 coord24 := by
  simp only [VS.lorentz_not_equal.k_rhophi_z_tau_rhophi_theta_t, VR.lorentz_not_equal.k_rhophi_z_tau_rhophi_theta_t, c08_lorentz_t_rhophi_z_tau, VS.lorentz_t.rhophi_theta_t_eq, VS.spatial_not_equal.rhophi_z_rhophi_theta_eq, h0, VR.P.nanToNum_eq]

theorem c08_lorentz_not_equal_k_rhophi_z_tau_rhophi_z_t (coord11 coord12 coord13 coord14 coord21 coord22 coord23 coord24 : ℝ) (h0 : 0 ≤ coord14) :
    VS.lorentz_not_equal.k_rhophi_z_tau_rhophi_z_t coord11 coord12 coord13 coord14 coord21 coord22 coord23 coord24 = VR.lorentz_not_equal.k_rhophi_z_tau_rhophi_z_t coord11 coord12 coord13 coord14 coord21 coord22 coord23 coord24 := by
  simp only [VS.lorentz_not_equal.k_rhophi_z_tau_rhophi_z_t, VR.lorentz_not_equal.k_rhophi_z_tau_rhophi_z_t, c08_lorentz_t_rhophi_z_tau, VS.lorentz_t.rhophi_z_t_eq, VS.spatial_not_equal.rhophi_z_rhophi_z_eq, h0, VR.P.nanToNum_eq]

theorem c08_lorentz_not_equal_k_rhophi_z_tau_xy_eta_t (coord11 coord12 coord13 coord14 coord21 coord22 coord23 coord24 : ℝ) (h0 : 0 ≤ coord14) :
    VS.lorentz_not_equal.k_rhophi_z_tau_xy_eta_t coord11 coord12 coord13 coord14 coord21 coord22 coord23 coord24 = VR.lorentz_not_equal.k_rhophi_z_tau_xy_eta_t coord11 coord12 coord13 coord14 coord21 coord22 coord23 coord24 := by
  simp only [VS.lorentz_not_equal.k_rhophi_z_tau_xy_eta_t, VR.lorentz_not_equal.k_rhophi_z_tau_xy_eta_t, c08_lorentz_t_rhophi_z_tau, VS.lorentz_t.xy_eta_t_eq, VS.spatial_not_equal.rhophi_z_xy_eta_eq, h0, VR.P.nanToNum_eq]

theorem c08_lorentz_not_equal_k_rhophi_z_tau_xy_theta_t (coord11 coord12 coord13 coord14 coord21 coord22 coord23 coord24 : ℝ) (h0 : 0 ≤ coord14) :
    VS.lorentz_not_equal.k_rhophi_z_tau_xy_theta_t coord11 coord12 coord13 coord14 coord21 coord22 coord23 coord24 = VR.lorentz_not_equal.k_rhophi_z_tau_xy_theta_t coord11 coord12 coord13 coord14 coord21 coord22 coord23 coord24 := by
  simp only [VS.lorentz_not_equal.k_rhophi_z_tau_xy_theta_t, VR.lorentz_not_equal.k_rhophi_z_tau_xy_theta_t, c08_lorentz_t_rhophi_z_tau, VS.lorentz_t.xy_theta_t_eq, VS.spatial_not_equal.rhophi_z_xy_theta_eq, h0, VR.P.nanToNum_eq]

theorem c08_lorentz_not_equal_k_rhophi_z_tau_xy_z_t (coord11 coord12 coord13 coord14 coord21 coord22 coord23 coord24 : ℝ) (h0 : 0 ≤ coord14) :
    VS.lorentz_not_equal.k_rhophi_z_tau_xy_z_t coord11 coord12 coord13 coord14 coord21 coord22 coord23 coord24 = VR.lorentz_not_equal.k_rhophi_z_tau_xy_z_t coord11 coord12 coord13 coord14 coord21 coord22 coord23 coord24 := by
  simp only [VS.lorentz_not_equal.k_rhophi_z_tau_xy_z_t, VR.lorentz_not_equal.k_rhophi_z_tau_xy_z_t, c08_lorentz_t_rhophi_z_tau, VS.lorentz_t.xy_z_t_eq, VS.spatial_not_equal.rhophi_z_xy_z_eq, h0, VR.P.nanToNum_eq]

theorem c08_lorentz_not_equal_k_xy_eta_t_rhophi_eta_tau (coord11 coord12 coord13 coord14 coord21 coord22 coord23 coord24 : ℝ) (h0 : 0 ≤ coord24) :
    VS.lorentz_not_equal.k_xy_eta_t_rhophi_eta_tau coord11 coord12 coord13 coord14 coord21 coord22 coord23 coord24 = VR.lorentz_not_equal.k_xy_eta_t_rhophi_eta_tau coord11 coord12 coord13 coord14 coord21 coord22 coord23 coord24 := by
  simp only [VS.lorentz_not_equal.k_xy_eta_t_rhophi_eta_tau, VR.lorentz_not_equal.k_xy_eta_t_rhophi_eta_tau, VS.lorentz_t.xy_eta_t_eq, c08_lorentz_t_rhophi_eta_tau, VS.spatial_not_equal.xy_eta_rhophi_eta_eq, h0, VR.P.nanToNum_eq]

theorem c08_lorentz_not_equal_k_xy_eta_t_rhophi_theta_tau (coord11 coord12 coord13 coord14 coord21 coord22 coord23 coord24 : ℝ) (h0 : 0 ≤ coord24) :
    VS.lorentz_not_equal.k_xy_eta_t_rhophi_theta_tau coord11 coord12 coord13 coord14 coord21 coord22 coord23 coord24 = VR.lorentz_not_equal.k_xy_eta_t_rhophi_theta_tau coord11 coord12 coord13 coord14 coord21 coord22 coord23 coord24 := by
  simp only [VS.lorentz_not_equal.k_xy_eta_t_rhophi_theta_tau, VR.lorentz_not_equal.k_xy_eta_t_rhophi_theta_tau, VS.lorentz_t.xy_eta_t_eq, c08_lorentz_t_rhophi_theta_tau, VS.spatial_not_equal.xy_eta_rhophi_theta_eq, h0, VR.P.nanToNum_eq]

theorem c08_lorentz_not_equal_k_xy_eta_t_rhophi_z_tau (coord11 coord12 coord13 coord14 coord21 coord22 coord23 coord24 : ℝ) (h0 : 0 ≤ coord24) :
    VS.lorentz_not_equal.k_xy_eta_t_rhophi_z_tau coord11 coord12 coord13 coord14 coord21 coord22 coord23 coord24 = VR.lorentz_not_equal.k_xy_eta_t_rhophi_z_tau coord11 coord12 coord13 coord14 coord21 coord22 coord23 coord24 := by
  simp only [VS.lorentz_not_equal.k_xy_eta_t_rhophi_z_tau, VR.lorentz_not_equal.k_xy_eta_t_rhophi_z_tau, VS.lorentz_t.xy_eta_t_eq, c08_lorentz_t_rhophi_z_tau, VS.spatial_not_equal.xy_eta_rhophi_z_eq, h0, VR.P.nanToNum_eq]

theorem c08_lorentz_not_equal_k_xy_eta_t_xy_eta_tau (coord11 coord12 coord13 coord14 coord21 coord22 coord23 coord24 : ℝ) (h0 : 0 ≤ coord24) :
    VS.lorentz_not_equal.k_xy_eta_t_xy_eta_tau coord11 coord12 coord13 coord14 coord21 coord22 coord23 coord24 = VR.lorentz_not_equal.k_xy_eta_t_xy_eta_tau coord11 coord12 coord13 coord14 coord21 coord22 coord23 coord24 := by
  simp only [VS.lorentz_not_equal.k_xy_eta_t_xy_eta_tau, VR.lorentz_not_equal.k_xy_eta_t_xy_eta_tau, VS.lorentz_t.xy_eta_t_eq, c08_lorentz_t_xy_eta_tau, VS.spatial_not_equal.xy_eta_xy_eta_eq, h0, VR.P.nanToNum_eq]

theorem c08_lorentz_not_equal_k_xy_eta_t_xy_theta_tau (coord11 coord12 coord13 coord14 coord21 coord22 coord23 coord24 : ℝ) (h0 : 0 ≤ coord24) :
    VS.lorentz_not_equal.k_xy_eta_t_xy_theta_tau coord11 coord12 coord13 coord14 coord21 coord22 coord23 coord24 = VR.lorentz_not_equal.k_xy_eta_t_xy_theta_tau coord11 coord12 coord13 coord14 coord21 coord22 coord23 coord24 := by
  simp only [VS.lorentz_not_equal.k_xy_eta_t_xy_theta_tau, VR.lorentz_not_equal.k_xy_eta_t_xy_theta_tau, VS.lorentz_t.xy_eta_t_eq, c08_lorentz_t_xy_theta_tau, VS.spatial_not_equal.xy_eta_xy_theta_eq, h0, VR.P.nanToNum_eq]

theorem c08_lorentz_not_equal_k_xy_eta_t_xy_z_tau (coord11 coord12 coord13 coord14 coord21 coord22 coord23 coord24 : ℝ) (h0 : 0 ≤ coord24) :
    VS.lorentz_not_equal.k_xy_eta_t_xy_z_tau coord11 coord12 coord13 coord14 coord21 coord22 coord23 coord24 = VR.lorentz_not_equal.k_xy_eta_t_xy_z_tau coord11 coord12 coord13 coord14 coord21 coord22 coord23 coord24 := by
  simp only [VS.lorentz_not_equal.k_xy_eta_t_xy_z_tau, VR.lorentz_not_equal.k_xy_eta_t_xy_z_tau, VS.lorentz_t.xy_eta_t_eq, c08_lorentz_t_xy_z_tau, VS.spatial_not_equal.xy_eta_xy_z_eq, h0, VR.P.nanToNum_eq]

theorem c08_lorentz_not_equal_k_xy_eta_tau_rhophi_eta_t (coord11 coord12 coord13 coord14 coord21 coord22 coord23 coord24 : ℝ) (h0 : 0 ≤ coord14) :
    VS.lorentz_not_equal.k_xy_eta_tau_rhophi_eta_t coord11 coord12 coord13 coord14 coord21 coord22 coord23 coord24 = VR.lorentz_not_equal.k_xy_eta_tau_rhophi_eta_t coord11 coord12 coord13 coord14 coord21 coord22 coord23 coord24 := by
  simp only [VS.lorentz_not_equal.k_xy_eta_tau_rhophi_eta_t, VR.lorentz_not_equal.k_xy_eta_tau_rhophi_eta_t, c08_lorentz_t_xy_eta_tau, VS.lorentz_t.rhophi_eta_t_eq, VS.spatial_not_equal.xy_eta_rhophi_eta_eq, h0, VR.P.nanToNum_eq]

theorem c08_lorentz_not_equal_k_xy_eta_tau_rhophi_theta_t (coord11 coord12 coord13 coord14 coord21 coord22 coord23 coord24 : ℝ) (h0 : 0 ≤ coord14) :
    VS.lorentz_not_equal.k_xy_eta_tau_rhophi_theta_t coord11 coord12 coord13 coord14 coord21 coord22 coord23 coord24 = VR.lorentz_not_equal.k_xy_eta_tau_rhophi_theta_t coord11 coord12 coord13 coord14 coord21 coord22 coord23 coord24 := by
  simp only [VS.lorentz_not_equal.k_xy_eta_tau_rhophi_theta_t, VR.lorentz_not_equal.k_xy_eta_tau_rhophi_theta_t, c08_lorentz_t_xy_eta_tau, VS.lorentz_t.rhophi_theta_t_eq, VS.spatial_not_equal.xy_eta_rhophi_theta_eq, h0, VR.P.nanToNum_eq]

theorem c08_lorentz_not_equal_k_xy_eta_tau_rhophi_z_t (coord11 coord12 coord13 coord14 coord21 coord22 coord23 coord24 : ℝ) (h0 : 0 ≤ coord14) :
    VS.lorentz_not_equal.k_xy_eta_tau_rhophi_z_t coord11 coord12 coord13 coord14 coord21 coord22 coord23 coord24 = VR.lorentz_not_equal.k_xy_eta_tau_rhophi_z_t coord11 coord12 coord13 coord14 coord21 coord22 coord23 coord24 := by
  simp only [VS.lorentz_not_equal.k_xy_eta_tau_rhophi_z_t, VR.lorentz_not_equal.k_xy_eta_tau_rhophi_z_t, c08_lorentz_t_xy_eta_tau, VS.lorentz_t.rhophi_z_t_eq, VS.spatial_not_equal.xy_eta_rhophi_z_eq, h0, VR.P.nanToNum_eq]

theorem c08_lorentz_not_equal_k_xy_eta_tau_xy_eta_t (coord11 coord12 coord13 coord14 coord21 coord22 coord23 coord24 : ℝ) (h0 : 0 ≤ coord14) :
    VS.lorentz_not_equal.k_xy_eta_tau_xy_eta_t coord11 coord12 coord13 coord14 coord21 coord22 coord23 coord24 = VR.lorentz_not_equal.k_xy_eta_tau_xy_eta_t coord11 coord12 coord13 coord14 coord21 coord22 coord23 coord24 := by
  simp only [VS.lorentz_not_equal.k_xy_eta_tau_xy_eta_t, VR.lorentz_not_equal.k_xy_eta_tau_xy_eta_t, c08_lorentz_t_xy_eta_tau, VS.lorentz_t.xy_eta_t_eq, VS.spatial_not_equal.xy_eta_xy_eta_eq, h0, VR.P.nanToNum_eq]

theorem c08_lorentz_not_equal_k_xy_eta_tau_xy_theta_t (coord11 coord12 coord13 coord14 coord21 coord22 coord23 coord24 : ℝ) (h0 : 0 ≤ coord14) :
    VS.lorentz_not_equal.k_xy_eta_tau_xy_theta_t coord11 coord12 coord13 coord14 coord21 coord22 coord23 coord24 = VR.lorentz_not_equal.k_xy_eta_tau_xy_theta_t coord11 coord12 coord13 coord14 coord21 coord22 coord23 coord24 := by
  simp only [VS.lorentz_not_equal.k_xy_eta_tau_xy_theta_t, VR.lorentz_not_equal.k_xy_eta_tau_xy_theta_t, c08_lorentz_t_xy_eta_tau, VS.lorentz_t.xy_theta_t_eq, VS.spatial_not_equal.xy_eta_xy_theta_eq, h0, VR.P.nanToNum_eq]

theorem c08_lorentz_not_equal_k_xy_eta_tau_xy_z_t (coord11 coord12 coord13 coord14 coord21 coord22 coord23 coord24 : ℝ) (h0 : 0 ≤ coord14) :
    VS.lorentz_not_equal.k_xy_eta_tau_xy_z_t coord11 coord12 coord13 coord14 coord21 coord22 coord23 coord24 = VR.lorentz_not_equal.k_xy_eta_tau_xy_z_t coord11 coord12 coord13 coord14 coord21 coord22 coord23 coord24 := by
  simp only [VS.lorentz_not_equal.k_xy_eta_tau_xy_z_t, VR.lorentz_not_equal.k_xy_eta_tau_xy_z_t, c08_lorentz_t_xy_eta_tau, VS.lorentz_t.xy_z_t_eq, VS.spatial_not_equal.xy_eta_xy_z_eq, h0, VR.P.nanToNum_eq]

theorem c08_lorentz_not_equal_k_xy_theta_t_rhophi_eta_tau (coord11 coord12 coord13 coord14 coord21 coord22 coord23 coord24 : ℝ) (h0 : 0 ≤ coord24) :
    VS.lorentz_not_equal.k_xy_theta_t_rhophi_eta_tau coord11 coord12 coord13 coord14 coord21 coord22 coord23 coord24 = VR.lorentz_not_equal.k_xy_theta_t_rhophi_eta_tau coord11 coord12 coord13 coord14 coord21 coord22 coord23 coord24 := by
  simp only [VS.lorentz_not_equal.k_xy_theta_t_rhophi_eta_tau, VR.lorentz_not_equal.k_xy_theta_t_rhophi_eta_tau, VS.lorentz_t.xy_theta_t_eq, c08_lorentz_t_rhophi_eta_tau, VS.spatial_not_equal.xy_theta_rhophi_eta_eq, h0, VR.P.nanToNum_eq]

theorem c08_lorentz_not_equal_k_xy_theta_t_rhophi_theta_tau (coord11 coord12 coord13 coord14 coord21 coord22 coord23 coord24 : ℝ) (h0 : 0 ≤ coord24) :
    VS.lorentz_not_equal.k_xy_theta_t_rhophi_theta_tau coord11 coord12 coord13 coord14 coord21 coord22 coord23 coord24 = VR.lorentz_not_equal.k_xy_theta_t_rhophi_theta_tau coord11 coord12 coord13 coord14 coord21 coord22 coord23 coord24 := by
  simp only [VS.lorentz_not_equal.k_xy_theta_t_rhophi_theta_tau, VR.lorentz_not_equal.k_xy_theta_t_rhophi_theta_tau, VS.lorentz_t.xy_theta_t_eq, c08_lorentz_t_rhophi_theta_tau, VS.spatial_not_equal.xy_theta_rhophi_theta_eq, h0, VR.P.nanToNum_eq]

theorem c08_lorentz_not_equal_k_xy_theta_t_rhophi_z_tau (coord11 coord12 coord13 coord14 coord21 coord22 coord23 coord24 : ℝ) (h0 : 0 ≤ coord24) :
    VS.lorentz_not_equal.k_xy_theta_t_rhophi_z_tau coord11 coord12 coord13 coord14 coord21 coord22 coord23 coord24 = VR.lorentz_not_equal.k_xy_theta_t_rhophi_z_tau coord11 coord12 coord13 coord14 coord21 coord22 coord23 coord24 := by
  simp only [VS.lorentz_not_equal.k_xy_theta_t_rhophi_z_tau, VR.lorentz_not_equal.k_xy_theta_t_rhophi_z_tau, VS.lorentz_t.xy_theta_t_eq, c08_lorentz_t_rhophi_z_tau, VS.spatial_not_equal.xy_theta_rhophi_z_eq, h0, VR.P.nanToNum_eq]

theorem c08_lorentz_not_equal_k_xy_theta_t_xy_eta_tau (coord11 coord12 coord13 coord14 coord21 coord22 coord23 coord24 : ℝ) (h0 : 0 ≤ coord24) :
    VS.lorentz_not_equal.k_xy_theta_t_xy_eta_tau coord11 coord12 coord13 coord14 coord21 coord22 coord23 coord24 = VR.lorentz_not_equal.k_xy_theta_t_xy_eta_tau coord11 coord12 coord13 coord14 coord21 coord22 coord23 coord24 := by
  simp only [VS.lorentz_not_equal.k_xy_theta_t_xy_eta_tau, VR.lorentz_not_equal.k_xy_theta_t_xy_eta_tau, VS.lorentz_t.xy_theta_t_eq, c08_lorentz_t_xy_eta_tau, VS.spatial_not_equal.xy_theta_xy_eta_eq, h0, VR.P.nanToNum_eq]

theorem c08_lorentz_not_equal_k_xy_theta_t_xy_theta_tau (coord11 coord12 coord13 coord14 coord21 coord22 coord23 coord24 : ℝ) (h0 : 0 ≤ coord24) :
    VS.lorentz_not_equal.k_xy_theta_t_xy_theta_tau coord11 coord12 coord13 coord14 coord21 coord22 coord23 coord24 = VR.lorentz_not_equal.k_xy_theta_t_xy_theta_tau coord11 coord12 coord13 coord14 coord21 coord22 coord23 coord24 := by
  simp only [VS.lorentz_not_equal.k_xy_theta_t_xy_theta_tau, VR.lorentz_not_equal.k_xy_theta_t_xy_theta_tau, VS.lorentz_t.xy_theta_t_eq, c08_lorentz_t_xy_theta_tau, VS.spatial_not_equal.xy_theta_xy_theta_eq, h0, VR.P.nanToNum_eq]

theorem c08_lorentz_not_equal_k_xy_theta_t_xy_z_tau (coord11 coord12 coord13 coord14 coord21 coord22 coord23 coord24 : ℝ) (h0 : 0 ≤ coord24) :
    VS.lorentz_not_equal.k_xy_theta_t_xy_z_tau coord11 coord12 coord13 coord14 coord21 coord22 coord23 coord24 = VR.lorentz_not_equal.k_xy_theta_t_xy_z_tau coord11 coord12 coord13 coord14 coord21 coord22 coord23 coord24 := by
  simp only [VS.lorentz_not_equal.k_xy_theta_t_xy_z_tau, VR.lorentz_not_equal.k_xy_theta_t_xy_z_tau, VS.lorentz_t.xy_theta_t_eq, c08_lorentz_t_xy_z_tau, VS.spatial_not_equal.xy_theta_xy_z_eq, h0, VR.P.nanToNum_eq]

theorem c08_lorentz_not_equal_k_xy_theta_tau_rhophi_eta_t (coord11 coord12 coord13 coord14 coord21 coord22 coord23 coord24 : ℝ) (h0 : 0 ≤ coord14) :
    VS.lorentz_not_equal.k_xy_theta_tau_rhophi_eta_t coord11 coord12 coord13 coord14 coord21 coord22 coord23 coord24 = VR.lorentz_not_equal.k_xy_theta_tau_rhophi_eta_t coord11 coord12 coord13 coord14 coord21 coord22 coord23 coord24 := by
  simp only [VS.lorentz_not_equal.k_xy_theta_tau_rhophi_eta_t, VR.lorentz_not_equal.k_xy_theta_tau_rhophi_eta_t, c08_lorentz_t_xy_theta_tau, VS.lorentz_t.rhophi_eta_t_eq, VS.spatial_not_equal.xy_theta_rhophi_eta_eq, h0, VR.P.nanToNum_eq]

theorem c08_lorentz_not_equal_k_xy_theta_tau_rhophi_theta_t (coord11 coord12 coord13 coord14 coord21 coord22 coord23 coord24 : ℝ) (h0 : 0 ≤ coord14) :
    VS.lorentz_not_equal.k_xy_theta_tau_rhophi_theta_t coord11 coord12 coord13 coord14 coord21 coord22 coord23 coord24 = VR.lorentz_not_equal.k_xy_theta_tau_rhophi_theta_t coord11 coord12 coord13 coord14 coord21 coord22 coord23 coord24 := by
  simp only [VS.lorentz_not_equal.k_xy_theta_tau_rhophi_theta_t, VR.lorentz_not_equal.k_xy_theta_tau_rhophi_theta_t, c08_lorentz_t_xy_theta_tau, VS.lorentz_t.rhophi_theta_t_eq, VS.spatial_not_equal.xy_theta_rhophi_theta_eq, h0, VR.P.nanToNum_eq]

theorem c08_lorentz_not_equal_k_xy_theta_tau_rhophi_z_t (coord11 coord12 coord13 coord14 coord21 coord22 coord23 coord24 : ℝ) (h0 : 0 ≤ coord14) :
    VS.lorentz_not_equal.k_xy_theta_tau_rhophi_z_t coord11 coord12 coord13 coord14 coord21 coord22 coord23 coord24 = VR.lorentz_not_equal.k_xy_theta_tau_rhophi_z_t coord11 coord12 coord13 coord14 coord21 coord22 coord23 coord24 := by
  simp only [VS.lorentz_not_equal.k_xy_theta_tau_rhophi_z_t, VR.lorentz_not_equal.k_xy_theta_tau_rhophi_z_t, c08_lorentz_t_xy_theta_tau, VS.lorentz_t.rhophi_z_t_eq, VS.spatial_not_equal.xy_theta_rhophi_z_eq, h0, VR.P.nanToNum_eq]

theorem c08_lorentz_not_equal_k_xy_theta_tau_xy_eta_t (coord11 coord12 coord13 coord14 coord21 coord22 coord23 coord24 : ℝ) (h0 : 0 ≤ coord14) :
    VS.lorentz_not_equal.k_xy_theta_tau_xy_eta_t coord11 coord12 coord13 coord14 coord21 coord22 coord23 coord24 = VR.lorentz_not_equal.k_xy_theta_tau_xy_eta_t coord11 coord12 coord13 coord14 coord21 coord22 coord23 coord24 := by
  simp only [VS.lorentz_not_equal.k_xy_theta_tau_xy_eta_t, VR.lorentz_not_equal.k_xy_theta_tau_xy_eta_t, c08_lorentz_t_xy_theta_tau, VS.lorentz_t.xy_eta_t_eq, VS.spatial_not_equal.xy_theta_xy_eta_eq, h0, VR.P.nanToNum_eq]

theorem c08_lorentz_not_equal_k_xy_theta_tau_xy_theta_t (coord11 coord12 coord13 coord14 coord21 coord22 coord23 coord24 : ℝ) (h0 : 0 ≤ coord14) :
    VS.lorentz_not_equal.k_xy_theta_tau_xy_theta_t coord11 coord12 coord13 coord14 coord21 coord22 coord23 coord24 = VR.lorentz_not_equal.k_xy_theta_tau_xy_theta_t coord11 coord12 coord13 coord14 coord21 coord22 coord23 coord24 := by
  simp only [VS.lorentz_not_equal.k_xy_theta_tau_xy_theta_t, VR.lorentz_not_equal.k_xy_theta_tau_xy_theta_t, c08_lorentz_t_xy_theta_tau, VS.lorentz_t.xy_theta_t_eq, VS.spatial_not_equal.xy_theta_xy_theta_eq, h0, VR.P.nanToNum_eq]

theorem c08_lorentz_not_equal_k_xy_theta_tau_xy_z_t (coord11 coord12 coord13 coord14 coord21 coord22 coord23 coord24 : ℝ) (h0 : 0 ≤ coord14) :
    VS.lorentz_not_equal.k_xy_theta_tau_xy_z_t coord11 coord12 coord13 coord14 coord21 coord22 coord23 coord24 = VR.lorentz_not_equal.k_xy_theta_tau_xy_z_t coord11 coord12 coord13 coord14 coord21 coord22 coord23 coord24 := by
  simp only [VS.lorentz_not_equal.k_xy_theta_tau_xy_z_t, VR.lorentz_not_equal.k_xy_theta_tau_xy_z_t, c08_lorentz_t_xy_theta_tau, VS.lorentz_t.xy_z_t_eq, VS.spatial_not_equal.xy_theta_xy_z_eq, h0, VR.P.nanToNum_eq]

theorem c08_lorentz_not_equal_k_xy_z_t_rhophi_eta_tau (coord11 coord12 coord13 coord14 coord21 coord22 coord23 coord24 : ℝ) (h0 : 0 ≤ coord24) :
    VS.lorentz_not_equal.k_xy_z_t_rhophi_eta_tau coord11 coord12 coord13 coord14 coord21 coord22 coord23 coord24 = VR.lorentz_not_equal.k_xy_z_t_rhophi_eta_tau coord11 coord12 coord13 coord14 coord21 coord22 coord23 coord24 := by
  simp only [VS.lorentz_not_equal.k_xy_z_t_rhophi_eta_tau, VR.lorentz_not_equal.k_xy_z_t_rhophi_eta_tau, VS.lorentz_t.xy_z_t_eq, c08_lorentz_t_rhophi_eta_tau, VS.spatial_not_equal.xy_z_rhophi_eta_eq, h0, VR.P.nanToNum_eq]

theorem c08_lorentz_not_equal_k_xy_z_t_rhophi_theta_tau (coord11 coord12 coord13 coord14 coord21 coord22 coord23 coord24 : ℝ) (h0 : 0 ≤ coord24) :
    VS.lorentz_not_equal.k_xy_z_t_rhophi_theta_tau coord11 coord12 coord13 coord14 coord21 coord22 coord23 coord24 = VR.lorentz_not_equal.k_xy_z_t_rhophi_theta_tau coord11 coord12 coord13 coord14 coord21 coord22 coord23 coord24 := by
  simp only [VS.lorentz_not_equal.k_xy_z_t_rhophi_theta_tau, VR.lorentz_not_equal.k_xy_z_t_rhophi_theta_tau, VS.lorentz_t.xy_z_t_eq, c08_lorentz_t_rhophi_theta_tau, VS.spatial_not_equal.xy_z_rhophi_theta_eq, h0, VR.P.nanToNum_eq]

theorem c08_lorentz_not_equal_k_xy_z_t_rhophi_z_tau (coord11 coord12 coord13 coord14 coord21 coord22 coord23 coord24 : ℝ) (h0 : 0 ≤ coord24) :
    VS.lorentz_not_equal.k_xy_z_t_rhophi_z_tau coord11 coord12 coord13 coord14 coord21 coord22 coord23 coord24 = VR.lorentz_not_equal.k_xy_z_t_rhophi_z_tau coord11 coord12 coord13 coord14 coord21 coord22 coord23 coord24 := by
  simp only [VS.lorentz_not_equal.k_xy_z_t_rhophi_z_tau, VR.lorentz_not_equal.k_xy_z_t_rhophi_z_tau, VS.lorentz_t.xy_z_t_eq, c08_lorentz_t_rhophi_z_tau, VS.spatial_not_equal.xy_z_rhophi_z_eq, h0, VR.P.nanToNum_eq]

theorem c08_lorentz_not_equal_k_xy_z_t_xy_eta_tau (coord11 coord12 coord13 coord14 coord21 coord22 coord23 coord24 : ℝ) (h0 : 0 ≤ coord24) :
    VS.lorentz_not_equal.k_xy_z_t_xy_eta_tau coord11 coord12 coord13 coord14 coord21 coord22 coord23 coord24 = VR.lorentz_not_equal.k_xy_z_t_xy_eta_tau coord11 coord12 coord13 coord14 coord21 coord22 coord23 coord24 := by
  simp only [VS.lorentz_not_equal.k_xy_z_t_xy_eta_tau, VR.lorentz_not_equal.k_xy_z_t_xy_eta_tau, VS.lorentz_t.xy_z_t_eq, c08_lorentz_t_xy_eta_tau, VS.spatial_not_equal.xy_z_xy_eta_eq, h0, VR.P.nanToNum_eq]

theorem c08_lorentz_not_equal_k_xy_z_t_xy_theta_tau (coord11 coord12 coord13 coord14 coord21 coord22 coord23 coord24 : ℝ) (h0 : 0 ≤ coord24) :
    VS.lorentz_not_equal.k_xy_z_t_xy_theta_tau coord11 coord12 coord13 coord14 coord21 coord22 coord23 coord24 = VR.lorentz_not_equal.k_xy_z_t_xy_theta_tau coord11 coord12 coord13 coord14 coord21 coord22 coord23 coord24 := by
  simp only [VS.lorentz_not_equal.k_xy_z_t_xy_theta_tau, VR.lorentz_not_equal.k_xy_z_t_xy_theta_tau, VS.lorentz_t.xy_z_t_eq, c08_lorentz_t_xy_theta_tau, VS.spatial_not_equal.xy_z_xy_theta_eq, h0, VR.P.nanToNum_eq]

theorem c08_lorentz_not_equal_k_xy_z_t_xy_z_tau (coord11 coord12 coord13 coord14 coord21 coord22 coord23 coord24 : ℝ) (h0 : 0 ≤ coord24) :
    VS.lorentz_not_equal.k_xy_z_t_xy_z_tau coord11 coord12 coord13 coord14 coord21 coord22 coord23 coord24 = VR.lorentz_not_equal.k_xy_z_t_xy_z_tau coord11 coord12 coord13 coord14 coord21 coord22 coord23 coord24 := by
  simp only [VS.lorentz_not_equal.k_xy_z_t_xy_z_tau, VR.lorentz_not_equal.k_xy_z_t_xy_z_tau, VS.lorentz_t.xy_z_t_eq, c08_lorentz_t_xy_z_tau, VS.spatial_not_equal.xy_z_xy_z_eq, h0, VR.P.nanToNum_eq]

theorem c08_lorentz_not_equal_k_xy_z_tau_rhophi_eta_t (coord11 coord12 coord13 coord14 coord21 coord22 coord23 coord24 : ℝ) (h0 : 0 ≤ coord14) :
    VS.lorentz_not_equal.k_xy_z_tau_rhophi_eta_t coord11 coord12 coord13 coord14 coord21 coord22 coord23 coord24 = VR.lorentz_not_equal.k_xy_z_tau_rhophi_eta_t coord11 coord12 coord13 coord14 coord21 coord22 coord23 coord24 := by
  simp only [VS.lorentz_not_equal.k_xy_z_tau_rhophi_eta_t, VR.lorentz_not_equal.k_xy_z_tau_rhophi_eta_t, c08_lorentz_t_xy_z_tau, VS.lorentz_t.rhophi_eta_t_eq, VS.spatial_not_equal.xy_z_rhophi_eta_eq, h0, VR.P.nanToNum_eq]

theorem c08_lorentz_not_equal_k_xy_z_tau_rhophi_theta_t (coord11 coord12 coord13 coord14 coord21 coord22 coord23 coord24 : ℝ) (h0 : 0 ≤ coord14) :
    VS.lorentz_not_equal.k_xy_z_tau_rhophi_theta_t coord11 coord12 coord13 coord14 coord21 coord22 coord23 coord24 = VR.lorentz_not_equal.k_xy_z_tau_rhophi_theta_t coord11 coord12 coord13 coord14 coord21 coord22 coord23 coord24 := by
  simp only [VS.lorentz_not_equal.k_xy_z_tau_rhophi_theta_t, VR.lorentz_not_equal.k_xy_z_tau_rhophi_theta_t, c08_lorentz_t_xy_z_tau, VS.lorentz_t.rhophi_theta_t_eq, VS.spatial_not_equal.xy_z_rhophi_theta_eq, h0, VR.P.nanToNum_eq]

theorem c08_lorentz_not_equal_k_xy_z_tau_rhophi_z_t (coord11 coord12 coord13 coord14 coord21 coord22 coord23 coord24 : ℝ) (h0 : 0 ≤ coord14) :
    VS.lorentz_not_equal.k_xy_z_tau_rhophi_z_t coord11 coord12 coord13 coord14 coord21 coord22 coord23 coord24 = VR.lorentz_not_equal.k_xy_z_tau_rhophi_z_t coord11 coord12 coord13 coord14 coord21 coord22 coord23 coord24 := by
  simp only [VS.lorentz_not_equal.k_xy_z_tau_rhophi_z_t, VR.lorentz_not_equal.k_xy_z_tau_rhophi_z_t, c08_lorentz_t_xy_z_tau, VS.lorentz_t.rhophi_z_t_eq, VS.spatial_not_equal.xy_z_rhophi_z_eq, h0, VR.P.nanToNum_eq]

theorem c08_lorentz_not_equal_k_xy_z_tau_xy_eta_t (coord11 coord12 coord13 coord14 coord21 coord22 coord23 coord24 : ℝ) (h0 : 0 ≤ coord14) :
    VS.lorentz_not_equal.k_xy_z_tau_xy_eta_t coord11 coord12 coord13 coord14 coord21 coord22 coord23 coord24 = VR.lorentz_not_equal.k_xy_z_tau_xy_eta_t coord11 coord12 coord13 coord14 coord21 coord22 coord23 coord24 := by
  simp only [VS.lorentz_not_equal.k_xy_z_tau_xy_eta_t, VR.lorentz_not_equal.k_xy_z_tau_xy_eta_t, c08_lorentz_t_xy_z_tau, VS.lorentz_t.xy_eta_t_eq, VS.spatial_not_equal.xy_z_xy_eta_eq, h0, VR.P.nanToNum_eq]

theorem c08_lorentz_not_equal_k_xy_z_tau_xy_theta_t (coord11 coord12 coord13 coord14 coord21 coord22 coord23 coord24 : ℝ) (h0 : 0 ≤ coord14) :
    VS.lorentz_not_equal.k_xy_z_tau_xy_theta_t coord11 coord12 coord13 coord14 coord21 coord22 coord23 coord24 = VR.lorentz_not_equal.k_xy_z_tau_xy_theta_t coord11 coord12 coord13 coord14 coord21 coord22 coord23 coord24 := by
  simp only [VS.lorentz_not_equal.k_xy_z_tau_xy_theta_t, VR.lorentz_not_equal.k_xy_z_tau_xy_theta_t, c08_lorentz_t_xy_z_tau, VS.lorentz_t.xy_theta_t_eq, VS.spatial_not_equal.xy_z_xy_theta_eq, h0, VR.P.nanToNum_eq]

theorem c08_lorentz_not_equal_k_xy_z_tau_xy_z_t (coord11 coord12 coord13 coord14 coord21 coord22 coord23 coord24 : ℝ) (h0 : 0 ≤ coord14) :
    VS.lorentz_not_equal.k_xy_z_tau_xy_z_t coord11 coord12 coord13 coord14 coord21 coord22 coord23 coord24 = VR.lorentz_not_equal.k_xy_z_tau_xy_z_t coord11 coord12 coord13 coord14 coord21 coord22 coord23 coord24 := by
  simp only [VS.lorentz_not_equal.k_xy_z_tau_xy_z_t, VR.lorentz_not_equal.k_xy_z_tau_xy_z_t, c08_lorentz_t_xy_z_tau, VS.lorentz_t.xy_z_t_eq, VS.spatial_not_equal.xy_z_xy_z_eq, h0, VR.P.nanToNum_eq]


/-! ### `lorentz_rapidity` -/

theorem c08_lorentz_rapidity_rhophi_eta_tau (rho phi eta tau : ℝ) (h0 : 0 ≤ tau) :
    VS.lorentz_rapidity.rhophi_eta_tau rho phi eta tau = VR.lorentz_rapidity.rhophi_eta_tau rho phi eta tau := by
  simp only [VS.lorentz_rapidity.rhophi_eta_tau, VR.lorentz_rapidity.rhophi_eta_tau, VS.lorentz_rapidity.rhophi_z_t_eq, VS.spatial_z.rhophi_eta_eq, c08_lorentz_t_rhophi_eta_tau, h0, VR.P.nanToNum_eq]

theorem c08_lorentz_rapidity_rhophi_theta_tau (rho phi theta tau : ℝ) (h0 : 0 ≤ tau) :
    VS.lorentz_rapidity.rhophi_theta_tau rho phi theta tau = VR.lorentz_rapidity.rhophi_theta_tau rho phi theta tau := by
  simp only [VS.lorentz_rapidity.rhophi_theta_tau, VR.lorentz_rapidity.rhophi_theta_tau, VS.lorentz_rapidity.rhophi_z_t_eq, VS.spatial_z.rhophi_theta_eq, c08_lorentz_t_rhophi_theta_tau, h0, VR.P.nanToNum_eq]

theorem c08_lorentz_rapidity_rhophi_z_tau (rho phi z tau : ℝ) (h0 : 0 ≤ tau) :
    VS.lorentz_rapidity.rhophi_z_tau rho phi z tau = VR.lorentz_rapidity.rhophi_z_tau rho phi z tau := by
  simp only [VS.lorentz_rapidity.rhophi_z_tau, VR.lorentz_rapidity.rhophi_z_tau, VS.lorentz_rapidity.rhophi_z_t_eq, c08_lorentz_t_rhophi_z_tau, h0, VR.P.nanToNum_eq]

theorem c08_lorentz_rapidity_xy_eta_tau (x y eta tau : ℝ) (h0 : 0 ≤ tau) :
    VS.lorentz_rapidity.xy_eta_tau x y eta tau = VR.lorentz_rapidity.xy_eta_tau x y eta tau := by
  simp only [VS.lorentz_rapidity.xy_eta_tau, VR.lorentz_rapidity.xy_eta_tau, VS.lorentz_rapidity.xy_z_t_eq, VS.spatial_z.xy_eta_eq, c08_lorentz_t_xy_eta_tau, h0, VR.P.nanToNum_eq]

theorem c08_lorentz_rapidity_xy_theta_tau (x y theta tau : ℝ) (h0 : 0 ≤ tau) :
    VS.lorentz_rapidity.xy_theta_tau x y theta tau = VR.lorentz_rapidity.xy_theta_tau x y theta tau := by
  simp only [VS.lorentz_rapidity.xy_theta_tau, VR.lorentz_rapidity.xy_theta_tau, VS.lorentz_rapidity.xy_z_t_eq, VS.spatial_z.xy_theta_eq, c08_lorentz_t_xy_theta_tau, h0, VR.P.nanToNum_eq]

theorem c08_lorentz_rapidity_xy_z_tau (x y z tau : ℝ) (h0 : 0 ≤ tau) :
    VS.lorentz_rapidity.xy_z_tau x y z tau = VR.lorentz_rapidity.xy_z_tau x y z tau := by
  simp only [VS.lorentz_rapidity.xy_z_tau, VR.lorentz_rapidity.xy_z_tau, VS.lorentz_rapidity.xy_z_t_eq, c08_lorentz_t_xy_z_tau, h0, VR.P.nanToNum_eq]


/-! ### `lorentz_subtract` -/

theorem c08_lorentz_subtract_k_rhophi_eta_t_rhophi_eta_tau (coord11 coord12 coord13 coord14 coord21 coord22 coord23 coord24 : ℝ) (h0 : 0 ≤ coord24) :
    VS.lorentz_subtract.k_rhophi_eta_t_rhophi_eta_tau coord11 coord12 coord13 coord14 coord21 coord22 coord23 coord24 = VR.lorentz_subtract.k_rhophi_eta_t_rhophi_eta_tau coord11 coord12 coord13 coord14 coord21 coord22 coord23 coord24 := by
  simp only [VS.lorentz_subtract.k_rhophi_eta_t_rhophi_eta_tau, VR.lorentz_subtract.k_rhophi_eta_t_rhophi_eta_tau, VS.spatial_subtract.rhophi_eta_rhophi_eta_eq, VS.lorentz_t.rhophi_eta_t_eq, c08_lorentz_t_rhophi_eta_tau, h0, VR.P.nanToNum_eq]

theorem c08_lorentz_subtract_k_rhophi_eta_t_rhophi_theta_tau (coord11 coord12 coord13 coord14 coord21 coord22 coord23 coord24 : ℝ) (h0 : 0 ≤ coord24) :
    VS.lorentz_subtract.k_rhophi_eta_t_rhophi_theta_tau coord11 coord12 coord13 coord14 coord21 coord22 coord23 coord24 = VR.lorentz_subtract.k_rhophi_eta_t_rhophi_theta_tau coord11 coord12 coord13 coord14 coord21 coord22 coord23 coord24 := by
  simp only [VS.lorentz_subtract.k_rhophi_eta_t_rhophi_theta_tau, VR.lorentz_subtract.k_rhophi_eta_t_rhophi_theta_tau, VS.spatial_subtract.rhophi_eta_rhophi_theta_eq, VS.lorentz_t.rhophi_eta_t_eq, c08_lorentz_t_rhophi_theta_tau, h0, VR.P.nanToNum_eq]

theorem c08_lorentz_subtract_k_rhophi_eta_t_rhophi_z_tau (coord11 coord12 coord13 coord14 coord21 coord22 coord23 coord24 : ℝ) (h0 : 0 ≤ coord24) :
    VS.lorentz_subtract.k_rhophi_eta_t_rhophi_z_tau coord11 coord12 coord13 coord14 coord21 coord22 coord23 coord24 = VR.lorentz_subtract.k_rhophi_eta_t_rhophi_z_tau coord11 coord12 coord13 coord14 coord21 coord22 coord23 coord24 := by
  simp only [VS.lorentz_subtract.k_rhophi_eta_t_rhophi_z_tau, VR.lorentz_subtract.k_rhophi_eta_t_rhophi_z_tau, VS.spatial_subtract.rhophi_eta_rhophi_z_eq, VS.lorentz_t.rhophi_eta_t_eq, c08_lorentz_t_rhophi_z_tau, h0, VR.P.nanToNum_eq]

theorem c08_lorentz_subtract_k_rhophi_eta_t_xy_eta_tau (coord11 coord12 coord13 coord14 coord21 coord22 coord23 coord24 : ℝ) (h0 : 0 ≤ coord24) :
    VS.lorentz_subtract.k_rhophi_eta_t_xy_eta_tau coord11 coord12 coord13 coord14 coord21 coord22 coord23 coord24 = VR.lorentz_subtract.k_rhophi_eta_t_xy_eta_tau coord11 coord12 coord13 coord14 coord21 coord22 coord23 coord24 := by
  simp only [VS.lorentz_subtract.k_rhophi_eta_t_xy_eta_tau, VR.lorentz_subtract.k_rhophi_eta_t_xy_eta_tau, VS.spatial_subtract.rhophi_eta_xy_eta_eq, VS.lorentz_t.rhophi_eta_t_eq, c08_lorentz_t_xy_eta_tau, h0, VR.P.nanToNum_eq]

theorem c08_lorentz_subtract_k_rhophi_eta_t_xy_theta_tau (coord11 coord12 coord13 coord14 coord21 coord22 coord23 coord24 : ℝ) (h0 : 0 ≤ coord24) :
    VS.lorentz_subtract.k_rhophi_eta_t_xy_theta_tau coord11 coord12 coord13 coord14 coord21 coord22 coord23 coord24 = VR.lorentz_subtract.k_rhophi_eta_t_xy_theta_tau coord11 coord12 coord13 coord14 coord21 coord22 coord23 coord24 := by
  simp only [VS.lorentz_subtract.k_rhophi_eta_t_xy_theta_tau, VR.lorentz_subtract.k_rhophi_eta_t_xy_theta_tau, VS.spatial_subtract.rhophi_eta_xy_theta_eq, VS.lorentz_t.rhophi_eta_t_eq, c08_lorentz_t_xy_theta_tau, h0, VR.P.nanToNum_eq]

theorem c08_lorentz_subtract_k_rhophi_eta_t_xy_z_tau (coord11 coord12 coord13 coord14 coord21 coord22 coord23 coord24 : ℝ) (h0 : 0 ≤ coord24) :
    VS.lorentz_subtract.k_rhophi_eta_t_xy_z_tau coord11 coord12 coord13 coord14 coord21 coord22 coord23 coord24 = VR.lorentz_subtract.k_rhophi_eta_t_xy_z_tau coord11 coord12 coord13 coord14 coord21 coord22 coord23 coord24 := by
  simp only [VS.lorentz_subtract.k_rhophi_eta_t_xy_z_tau, VR.lorentz_subtract.k_rhophi_eta_t_xy_z_tau, VS.spatial_subtract.rhophi_eta_xy_z_eq, VS.lorentz_t.rhophi_eta_t_eq, c08_lorentz_t_xy_z_tau, h0, VR.P.nanToNum_eq]

theorem c08_lorentz_subtract_k_rhophi_eta_tau_rhophi_eta_t (coord11 coord12 coord13 coord14 coord21 coord22 coord23 coord24 : ℝ) (h0 : 0 ≤ coord14) :
    VS.lorentz_subtract.k_rhophi_eta_tau_rhophi_eta_t coord11 coord12 coord13 coord14 coord21 coord22 coord23 coord24 = VR.lorentz_subtract.k_rhophi_eta_tau_rhophi_eta_t coord11 coord12 coord13 coord14 coord21 coord22 coord23 coord24 := by
  simp only [VS.lorentz_subtract.k_rhophi_eta_tau_rhophi_eta_t, VR.lorentz_subtract.k_rhophi_eta_tau_rhophi_eta_t, VS.spatial_subtract.rhophi_eta_rhophi_eta_eq, c08_lorentz_t_rhophi_eta_tau, VS.lorentz_t.rhophi_eta_t_eq, h0, VR.P.nanToNum_eq]

theorem c08_lorentz_subtract_k_rhophi_eta_tau_rhophi_eta_tau (coord11 coord12 coord13 coord14 coord21 coord22 coord23 coord24 : ℝ) (h0 : 0 ≤ coord14) (h1 : 0 ≤ coord24) (hres : 0 ≤ (VR.lorentz_subtract.k_rhophi_eta_tau_rhophi_eta_tau coord11 coord12 coord13 coord14 coord21 coord22 coord23 coord24).2.2.2) :
    VS.lorentz_subtract.k_rhophi_eta_tau_rhophi_eta_tau coord11 coord12 coord13 coord14 coord21 coord22 coord23 coord24 = VR.lorentz_subtract.k_rhophi_eta_tau_rhophi_eta_tau coord11 coord12 coord13 coord14 coord21 coord22 coord23 coord24 := by
  simp only [VR.lorentz_subtract.k_rhophi_eta_tau_rhophi_eta_tau] at hres
  simp only [VS.lorentz_subtract.k_rhophi_eta_tau_rhophi_eta_tau, VR.lorentz_subtract.k_rhophi_eta_tau_rhophi_eta_tau, VS.spatial_subtract.rhophi_eta_rhophi_eta_eq, c08_lorentz_t_rhophi_eta_tau, c08_lorentz_tau_rhophi_eta_t, h0, h1, VR.P.nanToNum_eq]
  rw [c08_lorentz_tau_rhophi_eta_t_of_result _ _ _ _ hres]

theorem c08_lorentz_subtract_k_rhophi_eta_tau_rhophi_theta_t (coord11 coord12 coord13 coord14 coord21 coord22 coord23 coord24 : ℝ) (h0 : 0 ≤ coord14) :
    VS.lorentz_subtract.k_rhophi_eta_tau_rhophi_theta_t coord11 coord12 coord13 coord14 coord21 coord22 coord23 coord24 = VR.lorentz_subtract.k_rhophi_eta_tau_rhophi_theta_t coord11 coord12 coord13 coord14 coord21 coord22 coord23 coord24 := by
  simp only [VS.lorentz_subtract.k_rhophi_eta_tau_rhophi_theta_t, VR.lorentz_subtract.k_rhophi_eta_tau_rhophi_theta_t, VS.spatial_subtract.rhophi_eta_rhophi_theta_eq, c08_lorentz_t_rhophi_eta_tau, VS.lorentz_t.rhophi_theta_t_eq, h0, VR.P.nanToNum_eq]

theorem c08_lorentz_subtract_k_rhophi_eta_tau_rhophi_theta_tau (coord11 coord12 coord13 coord14 coord21 coord22 coord23 coord24 : ℝ) (h0 : 0 ≤ coord14) (h1 : 0 ≤ coord24) (hres : 0 ≤ (VR.lorentz_subtract.k_rhophi_eta_tau_rhophi_theta_tau coord11 coord12 coord13 coord14 coord21 coord22 coord23 coord24).2.2.2) :
    VS.lorentz_subtract.k_rhophi_eta_tau_rhophi_theta_tau coord11 coord12 coord13 coord14 coord21 coord22 coord23 coord24 = VR.lorentz_subtract.k_rhophi_eta_tau_rhophi_theta_tau coord11 coord12 coord13 coord14 coord21 coord22 coord23 coord24 := by
  simp only [VR.lorentz_subtract.k_rhophi_eta_tau_rhophi_theta_tau] at hres
  simp only [VS.lorentz_subtract.k_rhophi_eta_tau_rhophi_theta_tau, VR.lorentz_subtract.k_rhophi_eta_tau_rhophi_theta_tau, VS.spatial_subtract.rhophi_eta_rhophi_theta_eq, c08_lorentz_t_rhophi_eta_tau, c08_lorentz_t_rhophi_theta_tau, c08_lorentz_tau_xy_z_t, h0, h1, VR.P.nanToNum_eq]
  rw [c08_lorentz_tau_xy_z_t_of_result _ _ _ _ hres]

theorem c08_lorentz_subtract_k_rhophi_eta_tau_rhophi_z_t (coord11 coord12 coord13 coord14 coord21 coord22 coord23 coord24 : ℝ) (h0 : 0 ≤ coord14) :
    VS.lorentz_subtract.k_rhophi_eta_tau_rhophi_z_t coord11 coord12 coord13 coord14 coord21 coord22 coord23 coord24 = VR.lorentz_subtract.k_rhophi_eta_tau_rhophi_z_t coord11 coord12 coord13 coord14 coord21 coord22 coord23 coord24 := by
  simp only [VS.lorentz_subtract.k_rhophi_eta_tau_rhophi_z_t, VR.lorentz_subtract.k_rhophi_eta_tau_rhophi_z_t, VS.spatial_subtract.rhophi_eta_rhophi_z_eq, c08_lorentz_t_rhophi_eta_tau, VS.lorentz_t.rhophi_z_t_eq, h0, VR.P.nanToNum_eq]

theorem c08_lorentz_subtract_k_rhophi_eta_tau_rhophi_z_tau (coord11 coord12 coord13 coord14 coord21 coord22 coord23 coord24 : ℝ) (h0 : 0 ≤ coord14) (h1 : 0 ≤ coord24) (hres : 0 ≤ (VR.lorentz_subtract.k_rhophi_eta_tau_rhophi_z_tau coord11 coord12 coord13 coord14 coord21 coord22 coord23 coord24).2.2.2) :
    VS.lorentz_subtract.k_rhophi_eta_tau_rhophi_z_tau coord11 coord12 coord13 coord14 coord21 coord22 coord23 coord24 = VR.lorentz_subtract.k_rhophi_eta_tau_rhophi_z_tau coord11 coord12 coord13 coord14 coord21 coord22 coord23 coord24 := by
  simp only [VR.lorentz_subtract.k_rhophi_eta_tau_rhophi_z_tau] at hres
  simp only [VS.lorentz_subtract.k_rhophi_eta_tau_rhophi_z_tau, VR.lorentz_subtract.k_rhophi_eta_tau_rhophi_z_tau, VS.spatial_subtract.rhophi_eta_rhophi_z_eq, c08_lorentz_t_rhophi_eta_tau, c08_lorentz_t_rhophi_z_tau, c08_lorentz_tau_xy_z_t, h0, h1, VR.P.nanToNum_eq]
  rw [c08_lorentz_tau_xy_z_t_of_result _ _ _ _ hres]

theorem c08_lorentz_subtract_k_rhophi_eta_tau_xy_eta_t (coord11 coord12 coord13 coord14 coord21 coord22 coord23 coord24 : ℝ) (h0 : 0 ≤ coord14) :
    VS.lorentz_subtract.k_rhophi_eta_tau_xy_eta_t coord11 coord12 coord13 coord14 coord21 coord22 coord23 coord24 = VR.lorentz_subtract.k_rhophi_eta_tau_xy_eta_t coord11 coord12 coord13 coord14 coord21 coord22 coord23 coord24 := by
  simp only [VS.lorentz_subtract.k_rhophi_eta_tau_xy_eta_t, VR.lorentz_subtract.k_rhophi_eta_tau_xy_eta_t, VS.spatial_subtract.rhophi_eta_xy_eta_eq, c08_lorentz_t_rhophi_eta_tau, VS.lorentz_t.xy_eta_t_eq, h0, VR.P.nanToNum_eq]

theorem c08_lorentz_subtract_k_rhophi_eta_tau_xy_eta_tau (coord11 coord12 coord13 coord14 coord21 coord22 coord23 coord24 : ℝ) (h0 : 0 ≤ coord24) (h1 : 0 ≤ coord14) (hres : 0 ≤ (VR.lorentz_subtract.k_rhophi_eta_tau_xy_eta_tau coord11 coord12 coord13 coord14 coord21 coord22 coord23 coord24).2.2.2) :
    VS.lorentz_subtract.k_rhophi_eta_tau_xy_eta_tau coord11 coord12 coord13 coord14 coord21 coord22 coord23 coord24 = VR.lorentz_subtract.k_rhophi_eta_tau_xy_eta_tau coord11 coord12 coord13 coord14 coord21 coord22 coord23 coord24 := by
  simp only [VR.lorentz_subtract.k_rhophi_eta_tau_xy_eta_tau] at hres
  simp only [VS.lorentz_subtract.k_rhophi_eta_tau_xy_eta_tau, VR.lorentz_subtract.k_rhophi_eta_tau_xy_eta_tau, VS.spatial_subtract.rhophi_eta_xy_eta_eq, c08_lorentz_t_rhophi_eta_tau, c08_lorentz_t_xy_eta_tau, c08_lorentz_tau_xy_z_t, h0, h1, VR.P.nanToNum_eq]
  rw [c08_lorentz_tau_xy_z_t_of_result _ _ _ _ hres]

theorem c08_lorentz_subtract_k_rhophi_eta_tau_xy_theta_t (coord11 coord12 coord13 coord14 coord21 coord22 coord23 coord24 : ℝ) (h0 : 0 ≤ coord14) :
    VS.lorentz_subtract.k_rhophi_eta_tau_xy_theta_t coord11 coord12 coord13 coord14 coord21 coord22 coord23 coord24 = VR.lorentz_subtract.k_rhophi_eta_tau_xy_theta_t coord11 coord12 coord13 coord14 coord21 coord22 coord23 coord24 := by
  simp only [VS.lorentz_subtract.k_rhophi_eta_tau_xy_theta_t, VR.lorentz_subtract.k_rhophi_eta_tau_xy_theta_t, VS.spatial_subtract.rhophi_eta_xy_theta_eq, c08_lorentz_t_rhophi_eta_tau, VS.lorentz_t.xy_theta_t_eq, h0, VR.P.nanToNum_eq]

theorem c08_lorentz_subtract_k_rhophi_eta_tau_xy_theta_tau (coord11 coord12 coord13 coord14 coord21 coord22 coord23 coord24 : ℝ) (h0 : 0 ≤ coord14) (h1 : 0 ≤ coord24) (hres : 0 ≤ (VR.lorentz_subtract.k_rhophi_eta_tau_xy_theta_tau coord11 coord12 coord13 coord14 coord21 coord22 coord23 coord24).2.2.2) :
    VS.lorentz_subtract.k_rhophi_eta_tau_xy_theta_tau coord11 coord12 coord13 coord14 coord21 coord22 coord23 coord24 = VR.lorentz_subtract.k_rhophi_eta_tau_xy_theta_tau coord11 coord12 coord13 coord14 coord21 coord22 coord23 coord24 := by
  simp only [VR.lorentz_subtract.k_rhophi_eta_tau_xy_theta_tau] at hres
  simp only [VS.lorentz_subtract.k_rhophi_eta_tau_xy_theta_tau, VR.lorentz_subtract.k_rhophi_eta_tau_xy_theta_tau, VS.spatial_subtract.rhophi_eta_xy_theta_eq, c08_lorentz_t_rhophi_eta_tau, c08_lorentz_t_xy_theta_tau, c08_lorentz_tau_xy_z_t, h0, h1, VR.P.nanToNum_eq]
  rw [c08_lorentz_tau_xy_z_t_of_result _ _ _ _ hres]

theorem c08_lorentz_subtract_k_rhophi_eta_tau_xy_z_t (coord11 coord12 coord13 coord14 coord21 coord22 coord23 coord24 : ℝ) (h0 : 0 ≤ coord14) :
    VS.lorentz_subtract.k_rhophi_eta_tau_xy_z_t coord11 coord12 coord13 coord14 coord21 coord22 coord23 coord24 = VR.lorentz_subtract.k_rhophi_eta_tau_xy_z_t coord11 coord12 coord13 coord14 coord21 coord22 coord23 coord24 := by
  simp only [VS.lorentz_subtract.k_rhophi_eta_tau_xy_z_t, VR.lorentz_subtract.k_rhophi_eta_tau_xy_z_t, VS.spatial_subtract.rhophi_eta_xy_z_eq, c08_lorentz_t_rhophi_eta_tau, VS.lorentz_t.xy_z_t_eq, h0, VR.P.nanToNum_eq]

theorem c08_lorentz_subtract_k_rhophi_eta_tau_xy_z_tau (coord11 coord12 coord13 coord14 coord21 coord22 coord23 coord24 : ℝ) (h0 : 0 ≤ coord14) (h1 : 0 ≤ coord24) (hres : 0 ≤ (VR.lorentz_subtract.k_rhophi_eta_tau_xy_z_tau coord11 coord12 coord13 coord14 coord21 coord22 coord23 coord24).2.2.2) :
    VS.lorentz_subtract.k_rhophi_eta_tau_xy_z_tau coord11 coord12 coord13 coord14 coord21 coord22 coord23 coord24 = VR.lorentz_subtract.k_rhophi_eta_tau_xy_z_tau coord11 coord12 coord13 coord14 coord21 coord22 coord23 coord24 := by
  simp only [VR.lorentz_subtract.k_rhophi_eta_tau_xy_z_tau] at hres
  simp only [VS.lorentz_subtract.k_rhophi_eta_tau_xy_z_tau, VR.lorentz_subtract.k_rhophi_eta_tau_xy_z_tau, VS.spatial_subtract.rhophi_eta_xy_z_eq, c08_lorentz_t_rhophi_eta_tau, c08_lorentz_t_xy_z_tau, c08_lorentz_tau_xy_z_t, h0, h1, VR.P.nanToNum_eq]
  rw [c08_lorentz_tau_xy_z_t_of_result _ _ _ _ hres]

theorem c08_lorentz_subtract_k_rhophi_theta_t_rhophi_eta_tau (coord11 coord12 coord13 coord14 coord21 coord22 coord23 coord24 : ℝ) (h0 : 0 ≤ coord24) :
    VS.lorentz_subtract.k_rhophi_theta_t_rhophi_eta_tau coord11 coord12 coord13 coord14 coord21 coord22 coord23 coord24 = VR.lorentz_subtract.k_rhophi_theta_t_rhophi_eta_tau coord11 coord12 coord13 coord14 coord21 coord22 coord23 coord24 := by
  simp only [VS.lorentz_subtract.k_rhophi_theta_t_rhophi_eta_tau, VR.lorentz_subtract.k_rhophi_theta_t_rhophi_eta_tau, VS.spatial_subtract.rhophi_theta_rhophi_eta_eq, VS.lorentz_t.rhophi_theta_t_eq, c08_lorentz_t_rhophi_eta_tau, h0, VR.P.nanToNum_eq]

theorem c08_lorentz_subtract_k_rhophi_theta_t_rhophi_theta_tau (coord11 coord12 coord13 coord14 coord21 coord22 coord23 coord24 : ℝ) (h0 : 0 ≤ coord24) :
    VS.lorentz_subtract.k_rhophi_theta_t_rhophi_theta_tau coord11 coord12 coord13 coord14 coord21 coord22 coord23 coord24 = VR.lorentz_subtract.k_rhophi_theta_t_rhophi_theta_tau coord11 coord12 coord13 coord14 coord21 coord22 coord23 coord24 := by
  simp only [VS.lorentz_subtract.k_rhophi_theta_t_rhophi_theta_tau, VR.lorentz_subtract.k_rhophi_theta_t_rhophi_theta_tau, VS.spatial_subtract.rhophi_theta_rhophi_theta_eq, VS.lorentz_t.rhophi_theta_t_eq, c08_lorentz_t_rhophi_theta_tau, h0, VR.P.nanToNum_eq]

theorem c08_lorentz_subtract_k_rhophi_theta_t_rhophi_z_tau (coord11 coord12 coord13 coord14 coord21 coord22 coord23 coord24 : ℝ) (h0 : 0 ≤ coord24) :
    VS.lorentz_subtract.k_rhophi_theta_t_rhophi_z_tau coord11 coord12 coord13 coord14 coord21 coord22 coord23 coord24 = VR.lorentz_subtract.k_rhophi_theta_t_rhophi_z_tau coord11 coord12 coord13 coord14 coord21 coord22 coord23 coord24 := by
  simp only [VS.lorentz_subtract.k_rhophi_theta_t_rhophi_z_tau, VR.lorentz_subtract.k_rhophi_theta_t_rhophi_z_tau, VS.spatial_subtract.rhophi_theta_rhophi_z_eq, VS.lorentz_t.rhophi_theta_t_eq, c08_lorentz_t_rhophi_z_tau, h0, VR.P.nanToNum_eq]

theorem c08_lorentz_subtract_k_rhophi_theta_t_xy_eta_tau (coord11 coord12 coord13 coord14 coord21 coord22 coord23 coord24 : ℝ) (h0 : 0 ≤ coord24) :
    VS.lorentz_subtract.k_rhophi_theta_t_xy_eta_tau coord11 coord12 coord13 coord14 coord21 coord22 coord23 coord24 = VR.lorentz_subtract.k_rhophi_theta_t_xy_eta_tau coord11 coord12 coord13 coord14 coord21 coord22 coord23 coord24 := by
  simp only [VS.lorentz_subtract.k_rhophi_theta_t_xy_eta_tau, VR.lorentz_subtract.k_rhophi_theta_t_xy_eta_tau, VS.spatial_subtract.rhophi_theta_xy_eta_eq, VS.lorentz_t.rhophi_theta_t_eq, c08_lorentz_t_xy_eta_tau, h0, VR.P.nanToNum_eq]

theorem c08_lorentz_subtract_k_rhophi_theta_t_xy_theta_tau (coord11 coord12 coord13 coord14 coord21 coord22 coord23 coord24 : ℝ) (h0 : 0 ≤ coord24) :
    VS.lorentz_subtract.k_rhophi_theta_t_xy_theta_tau coord11 coord12 coord13 coord14 coord21 coord22 coord23 coord24 = VR.lorentz_subtract.k_rhophi_theta_t_xy_theta_tau coord11 coord12 coord13 coord14 coord21 coord22 coord23 coord24 := by
  simp only [VS.lorentz_subtract.k_rhophi_theta_t_xy_theta_tau, VR.lorentz_subtract.k_rhophi_theta_t_xy_theta_tau, VS.spatial_subtract.rhophi_theta_xy_theta_eq, VS.lorentz_t.rhophi_theta_t_eq, c08_lorentz_t_xy_theta_tau, h0, VR.P.nanToNum_eq]

theorem c08_lorentz_subtract_k_rhophi_theta_t_xy_z_tau (coord11 coord12 coord13 coord14 coord21 coord22 coord23 coord24 : ℝ) (h0 : 0 ≤ coord24) :
    VS.lorentz_subtract.k_rhophi_theta_t_xy_z_tau coord11 coord12 coord13 coord14 coord21 coord22 coord23 coord24 = VR.lorentz_subtract.k_rhophi_theta_t_xy_z_tau coord11 coord12 coord13 coord14 coord21 coord22 coord23 coord24 := by
  simp only [VS.lorentz_subtract.k_rhophi_theta_t_xy_z_tau, VR.lorentz_subtract.k_rhophi_theta_t_xy_z_tau, VS.spatial_subtract.rhophi_theta_xy_z_eq, VS.lorentz_t.rhophi_theta_t_eq, c08_lorentz_t_xy_z_tau, h0, VR.P.nanToNum_eq]

theorem c08_lorentz_subtract_k_rhophi_theta_tau_rhophi_eta_t (coord11 coord12 coord13 coord14 coord21 coord22 coord23 coord24 : ℝ) (h0 : 0 ≤ coord14) :
    VS.lorentz_subtract.k_rhophi_theta_tau_rhophi_eta_t coord11 coord12 coord13 coord14 coord21 coord22 coord23 coord24 = VR.lorentz_subtract.k_rhophi_theta_tau_rhophi_eta_t coord11 coord12 coord13 coord14 coord21 coord22 coord23 coord24 := by
  simp only [VS.lorentz_subtract.k_rhophi_theta_tau_rhophi_eta_t, VR.lorentz_subtract.k_rhophi_theta_tau_rhophi_eta_t, VS.spatial_subtract.rhophi_theta_rhophi_eta_eq, c08_lorentz_t_rhophi_theta_tau, VS.lorentz_t.rhophi_eta_t_eq, h0, VR.P.nanToNum_eq]

theorem c08_lorentz_subtract_k_rhophi_theta_tau_rhophi_eta_tau (coord11 coord12 coord13 coord14 coord21 coord22 coord23 coord24 : ℝ) (h0 : 0 ≤ coord14) (h1 : 0 ≤ coord24) (hres : 0 ≤ (VR.lorentz_subtract.k_rhophi_theta_tau_rhophi_eta_tau coord11 coord12 coord13 coord14 coord21 coord22 coord23 coord24).2.2.2) :
    VS.lorentz_subtract.k_rhophi_theta_tau_rhophi_eta_tau coord11 coord12 coord13 coord14 coord21 coord22 coord23 coord24 = VR.lorentz_subtract.k_rhophi_theta_tau_rhophi_eta_tau coord11 coord12 coord13 coord14 coord21 coord22 coord23 coord24 := by
  simp only [VR.lorentz_subtract.k_rhophi_theta_tau_rhophi_eta_tau] at hres
  simp only [VS.lorentz_subtract.k_rhophi_theta_tau_rhophi_eta_tau, VR.lorentz_subtract.k_rhophi_theta_tau_rhophi_eta_tau, VS.spatial_subtract.rhophi_theta_rhophi_eta_eq, c08_lorentz_t_rhophi_theta_tau, c08_lorentz_t_rhophi_eta_tau, c08_lorentz_tau_xy_z_t, h0, h1, VR.P.nanToNum_eq]
  rw [c08_lorentz_tau_xy_z_t_of_result _ _ _ _ hres]

theorem c08_lorentz_subtract_k_rhophi_theta_tau_rhophi_theta_t (coord11 coord12 coord13 coord14 coord21 coord22 coord23 coord24 : ℝ) (h0 : 0 ≤ coord14) :
    VS.lorentz_subtract.k_rhophi_theta_tau_rhophi_theta_t coord11 coord12 coord13 coord14 coord21 coord22 coord23 coord24 = VR.lorentz_subtract.k_rhophi_theta_tau_rhophi_theta_t coord11 coord12 coord13 coord14 coord21 coord22 coord23 coord24 := by
  simp only [VS.lorentz_subtract.k_rhophi_theta_tau_rhophi_theta_t, VR.lorentz_subtract.k_rhophi_theta_tau_rhophi_theta_t, VS.spatial_subtract.rhophi_theta_rhophi_theta_eq, c08_lorentz_t_rhophi_theta_tau, VS.lorentz_t.rhophi_theta_t_eq, h0, VR.P.nanToNum_eq]

theorem c08_lorentz_subtract_k_rhophi_theta_tau_rhophi_theta_tau (coord11 coord12 coord13 coord14 coord21 coord22 coord23 coord24 : ℝ) (h0 : 0 ≤ coord14) (h1 : 0 ≤ coord24) (hres : 0 ≤ (VR.lorentz_subtract.k_rhophi_theta_tau_rhophi_theta_tau coord11 coord12 coord13 coord14 coord21 coord22 coord23 coord24).2.2.2) :
    VS.lorentz_subtract.k_rhophi_theta_tau_rhophi_theta_tau coord11 coord12 coord13 coord14 coord21 coord22 coord23 coord24 = VR.lorentz_subtract.k_rhophi_theta_tau_rhophi_theta_tau coord11 coord12 coord13 coord14 coord21 coord22 coord23 coord24 := by
  simp only [VR.lorentz_subtract.k_rhophi_theta_tau_rhophi_theta_tau] at hres
  simp only [VS.lorentz_subtract.k_rhophi_theta_tau_rhophi_theta_tau, VR.lorentz_subtract.k_rhophi_theta_tau_rhophi_theta_tau, VS.spatial_subtract.rhophi_theta_rhophi_theta_eq, c08_lorentz_t_rhophi_theta_tau, c08_lorentz_tau_rhophi_theta_t, h0, h1, VR.P.nanToNum_eq]
  rw [c08_lorentz_tau_rhophi_theta_t_of_result _ _ _ _ hres]

theorem c08_lorentz_subtract_k_rhophi_theta_tau_rhophi_z_t (coord11 coord12 coord13 coord14 coord21 coord22 coord23 coord24 : ℝ) (h0 : 0 ≤ coord14) :
    VS.lorentz_subtract.k_rhophi_theta_tau_rhophi_z_t coord11 coord12 coord13 coord14 coord21 coord22 coord23 coord24 = VR.lorentz_subtract.k_rhophi_theta_tau_rhophi_z_t coord11 coord12 coord13 coord14 coord21 coord22 coord23 coord24 := by
  simp only [VS.lorentz_subtract.k_rhophi_theta_tau_rhophi_z_t, VR.lorentz_subtract.k_rhophi_theta_tau_rhophi_z_t, VS.spatial_subtract.rhophi_theta_rhophi_z_eq, c08_lorentz_t_rhophi_theta_tau, VS.lorentz_t.rhophi_z_t_eq, h0, VR.P.nanToNum_eq]

theorem c08_lorentz_subtract_k_rhophi_theta_tau_rhophi_z_tau (coord11 coord12 coord13 coord14 coord21 coord22 coord23 coord24 : ℝ) (h0 : 0 ≤ coord14) (h1 : 0 ≤ coord24) (hres : 0 ≤ (VR.lorentz_subtract.k_rhophi_theta_tau_rhophi_z_tau coord11 coord12 coord13 coord14 coord21 coord22 coord23 coord24).2.2.2) :
    VS.lorentz_subtract.k_rhophi_theta_tau_rhophi_z_tau coord11 coord12 coord13 coord14 coord21 coord22 coord23 coord24 = VR.lorentz_subtract.k_rhophi_theta_tau_rhophi_z_tau coord11 coord12 coord13 coord14 coord21 coord22 coord23 coord24 := by
  simp only [VR.lorentz_subtract.k_rhophi_theta_tau_rhophi_z_tau] at hres
  simp only [VS.lorentz_subtract.k_rhophi_theta_tau_rhophi_z_tau, VR.lorentz_subtract.k_rhophi_theta_tau_rhophi_z_tau, VS.spatial_subtract.rhophi_theta_rhophi_z_eq, c08_lorentz_t_rhophi_theta_tau, c08_lorentz_t_rhophi_z_tau, c08_lorentz_tau_xy_z_t, h0, h1, VR.P.nanToNum_eq]
  rw [c08_lorentz_tau_xy_z_t_of_result _ _ _ _ hres]

theorem c08_lorentz_subtract_k_rhophi_theta_tau_xy_eta_t (coord11 coord12 coord13 coord14 coord21 coord22 coord23 coord24 : ℝ) (h0 : 0 ≤ coord14) :
    VS.lorentz_subtract.k_rhophi_theta_tau_xy_eta_t coord11 coord12 coord13 coord14 coord21 coord22 coord23 coord24 = VR.lorentz_subtract.k_rhophi_theta_tau_xy_eta_t coord11 coord12 coord13 coord14 coord21 coord22 coord23 coord24 := by
  simp only [VS.lorentz_subtract.k_rhophi_theta_tau_xy_eta_t, VR.lorentz_subtract.k_rhophi_theta_tau_xy_eta_t, VS.spatial_subtract.rhophi_theta_xy_eta_eq, c08_lorentz_t_rhophi_theta_tau, VS.lorentz_t.xy_eta_t_eq, h0, VR.P.nanToNum_eq]

theorem c08_lorentz_subtract_k_rhophi_theta_tau_xy_eta_tau (coord11 coord12 coord13 coord14 coord21 coord22 coord23 coord24 : ℝ) (h0 : 0 ≤ coord24) (h1 : 0 ≤ coord14) (hres : 0 ≤ (VR.lorentz_subtract.k_rhophi_theta_tau_xy_eta_tau coord11 coord12 coord13 coord14 coord21 coord22 coord23 coord24).2.2.2) :
    VS.lorentz_subtract.k_rhophi_theta_tau_xy_eta_tau coord11 coord12 coord13 coord14 coord21 coord22 coord23 coord24 = VR.lorentz_subtract.k_rhophi_theta_tau_xy_eta_tau coord11 coord12 coord13 coord14 coord21 coord22 coord23 coord24 := by
  simp only [VR.lorentz_subtract.k_rhophi_theta_tau_xy_eta_tau] at hres
  simp only [VS.lorentz_subtract.k_rhophi_theta_tau_xy_eta_tau, VR.lorentz_subtract.k_rhophi_theta_tau_xy_eta_tau, VS.spatial_subtract.rhophi_theta_xy_eta_eq, c08_lorentz_t_rhophi_theta_tau, c08_lorentz_t_xy_eta_tau, c08_lorentz_tau_xy_z_t, h0, h1, VR.P.nanToNum_eq]
  rw [c08_lorentz_tau_xy_z_t_of_result _ _ _ _ hres]

theorem c08_lorentz_subtract_k_rhophi_theta_tau_xy_theta_t (coord11 coord12 coord13 coord14 coord21 coord22 coord23 coord24 : ℝ) (h0 : 0 ≤ coord14) :
    VS.lorentz_subtract.k_rhophi_theta_tau_xy_theta_t coord11 coord12 coord13 coord14 coord21 coord22 coord23 coord24 = VR.lorentz_subtract.k_rhophi_theta_tau_xy_theta_t coord11 coord12 coord13 coord14 coord21 coord22 coord23 coord24 := by
  simp only [VS.lorentz_subtract.k_rhophi_theta_tau_xy_theta_t, VR.lorentz_subtract.k_rhophi_theta_tau_xy_theta_t, VS.spatial_subtract.rhophi_theta_xy_theta_eq, c08_lorentz_t_rhophi_theta_tau, VS.lorentz_t.xy_theta_t_eq, h0, VR.P.nanToNum_eq]

theorem c08_lorentz_subtract_k_rhophi_theta_tau_xy_theta_tau (coord11 coord12 coord13 coord14 coord21 coord22 coord23 coord24 : ℝ) (h0 : 0 ≤ coord14) (h1 : 0 ≤ coord24) (hres : 0 ≤ (VR.lorentz_subtract.k_rhophi_theta_tau_xy_theta_tau coord11 coord12 coord13 coord14 coord21 coord22 coord23 coord24).2.2.2) :
    VS.lorentz_subtract.k_rhophi_theta_tau_xy_theta_tau coord11 coord12 coord13 coord14 coord21 coord22 coord23 coord24 = VR.lorentz_subtract.k_rhophi_theta_tau_xy_theta_tau coord11 coord12 coord13 coord14 coord21 coord22 coord23 coord24 := by
  simp only [VR.lorentz_subtract.k_rhophi_theta_tau_xy_theta_tau] at hres
  simp only [VS.lorentz_subtract.k_rhophi_theta_tau_xy_theta_tau, VR.lorentz_subtract.k_rhophi_theta_tau_xy_theta_tau, VS.spatial_subtract.rhophi_theta_xy_theta_eq, c08_lorentz_t_rhophi_theta_tau, c08_lorentz_t_xy_theta_tau, c08_lorentz_tau_xy_z_t, h0, h1, VR.P.nanToNum_eq]
  rw [c08_lorentz_tau_xy_z_t_of_result _ _ _ _ hres]

theorem c08_lorentz_subtract_k_rhophi_theta_tau_xy_z_t (coord11 coord12 coord13 coord14 coord21 coord22 coord23 coord24 : ℝ) (h0 : 0 ≤ coord14) :
    VS.lorentz_subtract.k_rhophi_theta_tau_xy_z_t coord11 coord12 coord13 coord14 coord21 coord22 coord23 coord24 = VR.lorentz_subtract.k_rhophi_theta_tau_xy_z_t coord11 coord12 coord13 coord14 coord21 coord22 coord23 coord24 := by
  simp only [VS.lorentz_subtract.k_rhophi_theta_tau_xy_z_t, VR.lorentz_subtract.k_rhophi_theta_tau_xy_z_t, VS.spatial_subtract.rhophi_theta_xy_z_eq, c08_lorentz_t_rhophi_theta_tau, VS.lorentz_t.xy_z_t_eq, h0, VR.P.nanToNum_eq]

theorem c08_lorentz_subtract_k_rhophi_theta_tau_xy_z_tau (coord11 coord12 coord13 coord14 coord21 coord22 coord23 coord24 : ℝ) (h0 : 0 ≤ coord14) (h1 : 0 ≤ coord24) (hres : 0 ≤ (VR.lorentz_subtract.k_rhophi_theta_tau_xy_z_tau coord11 coord12 coord13 coord14 coord21 coord22 coord23 coord24).2.2.2) :
    VS.lorentz_subtract.k_rhophi_theta_tau_xy_z_tau coord11 coord12 coord13 coord14 coord21 coord22 coord23 coord24 = VR.lorentz_subtract.k_rhophi_theta_tau_xy_z_tau coord11 coord12 coord13 coord14 coord21 coord22 coord23 coord24 := by
  simp only [VR.lorentz_subtract.k_rhophi_theta_tau_xy_z_tau] at hres
  simp only [VS.lorentz_subtract.k_rhophi_theta_tau_xy_z_tau, VR.lorentz_subtract.k_rhophi_theta_tau_xy_z_tau, VS.spatial_subtract.rhophi_theta_xy_z_eq, c08_lorentz_t_rhophi_theta_tau, c08_lorentz_t_xy_z_tau, c08_lorentz_tau_xy_z_t, h0, h1, VR.P.nanToNum_eq]
  rw [c08_lorentz_tau_xy_z_t_of_result _ _ _ _ hres]

theorem c08_lorentz_subtract_k_rhophi_z_t_rhophi_eta_tau (coord11 coord12 coord13 coord14 coord21 coord22 coord23 coord24 : ℝ) (h0 : 0 ≤ coord24) :
    VS.lorentz_subtract.k_rhophi_z_t_rhophi_eta_tau coord11 coord12 coord13 coord14 coord21 coord22 coord23 coord24 = VR.lorentz_subtract.k_rhophi_z_t_rhophi_eta_tau coord11 coord12 coord13 coord14 coord21 coord22 coord23 coord24 := by
  simp only [VS.lorentz_subtract.k_rhophi_z_t_rhophi_eta_tau, VR.lorentz_subtract.k_rhophi_z_t_rhophi_eta_tau, VS.spatial_subtract.rhophi_z_rhophi_eta_eq, VS.lorentz_t.rhophi_z_t_eq, c08_lorentz_t_rhophi_eta_tau, h0, VR.P.nanToNum_eq]

theorem c08_lorentz_subtract_k_rhophi_z_t_rhophi_theta_tau (coord11 coord12 coord13 coord14 coord21 coord22 coord23 coord24 : ℝ) (h0 : 0 ≤ coord24) :
    VS.lorentz_subtract.k_rhophi_z_t_rhophi_theta_tau coord11 coord12 coord13 coord14 coord21 coord22 coord23 coord24 = VR.lorentz_subtract.k_rhophi_z_t_rhophi_theta_tau coord11 coord12 coord13 coord14 coord21 coord22 coord23 coord24 := by
  simp only [VS.lorentz_subtract.k_rhophi_z_t_rhophi_theta_tau, VR.lorentz_subtract.k_rhophi_z_t_rhophi_theta_tau, VS.spatial_subtract.rhophi_z_rhophi_theta_eq, VS.lorentz_t.rhophi_z_t_eq, c08_lorentz_t_rhophi_theta_tau, h0, VR.P.nanToNum_eq]

theorem c08_lorentz_subtract_k_rhophi_z_t_rhophi_z_tau (coord11 coord12 coord13 coord14 coord21 coord22 coord23 coord24 : ℝ) (h0 : 0 ≤ coord24) :
    VS.lorentz_subtract.k_rhophi_z_t_rhophi_z_tau coord11 coord12 coord13 coord14 coord21 coord22 coord23 coord24 = VR.lorentz_subtract.k_rhophi_z_t_rhophi_z_tau coord11 coord12 coord13 coord14 coord21 coord22 coord23 coord24 := by
  simp only [VS.lorentz_subtract.k_rhophi_z_t_rhophi_z_tau, VR.lorentz_subtract.k_rhophi_z_t_rhophi_z_tau, VS.spatial_subtract.rhophi_z_rhophi_z_eq, VS.lorentz_t.rhophi_z_t_eq, c08_lorentz_t_rhophi_z_tau, h0, VR.P.nanToNum_eq]

theorem c08_lorentz_subtract_k_rhophi_z_t_xy_eta_tau (coord11 coord12 coord13 coord14 coord21 coord22 coord23 coord24 : ℝ) (h0 : 0 ≤ coord24) :
    VS.lorentz_subtract.k_rhophi_z_t_xy_eta_tau coord11 coord12 coord13 coord14 coord21 coord22 coord23 coord24 = VR.lorentz_subtract.k_rhophi_z_t_xy_eta_tau coord11 coord12 coord13 coord14 coord21 coord22 coord23 coord24 := by
  simp only [VS.lorentz_subtract.k_rhophi_z_t_xy_eta_tau, VR.lorentz_subtract.k_rhophi_z_t_xy_eta_tau, VS.spatial_subtract.rhophi_z_xy_eta_eq, VS.lorentz_t.rhophi_z_t_eq, c08_lorentz_t_xy_eta_tau, h0, VR.P.nanToNum_eq]

theorem c08_lorentz_subtract_k_rhophi_z_t_xy_theta_tau (coord11 coord12 coord13 coord14 coord21 coord22 coord23 coord24 : ℝ) (h0 : 0 ≤ coord24) :
    VS.lorentz_subtract.k_rhophi_z_t_xy_theta_tau coord11 coord12 coord13 coord14 coord21 coord22 coord23 coord24 = VR.lorentz_subtract.k_rhophi_z_t_xy_theta_tau coord11 coord12 coord13 coord14 coord21 coord22 coord23 coord24 := by
  simp only [VS.lorentz_subtract.k_rhophi_z_t_xy_theta_tau, VR.lorentz_subtract.k_rhophi_z_t_xy_theta_tau, VS.spatial_subtract.rhophi_z_xy_theta_eq, VS.lorentz_t.rhophi_z_t_eq, c08_lorentz_t_xy_theta_tau, h0, VR.P.nanToNum_eq]

theorem c08_lorentz_subtract_k_rhophi_z_t_xy_z_tau (coord11 coord12 coord13 coord14 coord21 coord22 coord23 coord24 : ℝ) (h0 : 0 ≤ coord24) :
    VS.lorentz_subtract.k_rhophi_z_t_xy_z_tau coord11 coord12 coord13 coord14 coord21 coord22 coord23 coord24 = VR.lorentz_subtract.k_rhophi_z_t_xy_z_tau coord11 coord12 coord13 coord14 coord21 coord22 coord23 coord24 := by
  simp only [VS.lorentz_subtract.k_rhophi_z_t_xy_z_tau, VR.lorentz_subtract.k_rhophi_z_t_xy_z_tau, VS.spatial_subtract.rhophi_z_xy_z_eq, VS.lorentz_t.rhophi_z_t_eq, c08_lorentz_t_xy_z_tau, h0, VR.P.nanToNum_eq]

theorem c08_lorentz_subtract_k_rhophi_z_tau_rhophi_eta_t (coord11 coord12 coord13 coord14 coord21 coord22 coord23 coord24 : ℝ) (h0 : 0 ≤ coord14) :
    VS.lorentz_subtract.k_rhophi_z_tau_rhophi_eta_t coord11 coord12 coord13 coord14 coord21 coord22 coord23 coord24 = VR.lorentz_subtract.k_rhophi_z_tau_rhophi_eta_t coord11 coord12 coord13 coord14 coord21 coord22 coord23 coord24 := by
  simp only [VS.lorentz_subtract.k_rhophi_z_tau_rhophi_eta_t, VR.lorentz_subtract.k_rhophi_z_tau_rhophi_eta_t, VS.spatial_subtract.rhophi_z_rhophi_eta_eq, c08_lorentz_t_rhophi_z_tau, VS.lorentz_t.rhophi_eta_t_eq, h0, VR.P.nanToNum_eq]

theorem c08_lorentz_subtract_k_rhophi_z_tau_rhophi_eta_tau (coord11 coord12 coord13 coord14 coord21 coord22 coord23 coord24 : ℝ) (h0 : 0 ≤ coord14) (h1 : 0 ≤ coord24) (hres : 0 ≤ (VR.lorentz_subtract.k_rhophi_z_tau_rhophi_eta_tau coord11 coord12 coord13 coord14 coord21 coord22 coord23 coord24).2.2.2) :
    VS.lorentz_subtract.k_rhophi_z_tau_rhophi_eta_tau coord11 coord12 coord13 coord14 coord21 coord22 coord23 coord24 = VR.lorentz_subtract.k_rhophi_z_tau_rhophi_eta_tau coord11 coord12 coord13 coord14 coord21 coord22 coord23 coord24 := by
  simp only [VR.lorentz_subtract.k_rhophi_z_tau_rhophi_eta_tau] at hres
  simp only [VS.lorentz_subtract.k_rhophi_z_tau_rhophi_eta_tau, VR.lorentz_subtract.k_rhophi_z_tau_rhophi_eta_tau, VS.spatial_subtract.rhophi_z_rhophi_eta_eq, c08_lorentz_t_rhophi_z_tau, c08_lorentz_t_rhophi_eta_tau, c08_lorentz_tau_xy_z_t, h0, h1, VR.P.nanToNum_eq]
  rw [c08_lorentz_tau_xy_z_t_of_result _ _ _ _ hres]

theorem c08_lorentz_subtract_k_rhophi_z_tau_rhophi_theta_t (coord11 coord12 coord13 coord14 coord21 coord22 coord23 coord24 : ℝ) (h0 : 0 ≤ coord14) :
    VS.lorentz_subtract.k_rhophi_z_tau_rhophi_theta_t coord11 coord12 coord13 coord14 coord21 coord22 coord23 coord24 = VR.lorentz_subtract.k_rhophi_z_tau_rhophi_theta_t coord11 coord12 coord13 coord14 coord21 coord22 coord23 coord24 := by
  simp only [VS.lorentz_subtract.k_rhophi_z_tau_rhophi_theta_t, VR.lorentz_subtract.k_rhophi_z_tau_rhophi_theta_t, VS.spatial_subtract.rhophi_z_rhophi_theta_eq, c08_lorentz_t_rhophi_z_tau, VS.lorentz_t.rhophi_theta_t_eq, h0, VR.P.nanToNum_eq]

theorem c08_lorentz_subtract_k_rhophi_z_tau_rhophi_theta_tau (coord11 coord12 coord13 coord14 coord21 coord22 coord23 coord24 : ℝ) (h0 : 0 ≤ coord14) (h1 : 0 ≤ coord24) (hres : 0 ≤ (VR.lorentz_subtract.k_rhophi_z_tau_rhophi_theta_tau coord11 coord12 coord13 coord14 coord21 coord22 coord23 coord24).2.2.2) :
    VS.lorentz_subtract.k_rhophi_z_tau_rhophi_theta_tau coord11 coord12 coord13 coord14 coord21 coord22 coord23 coord24 = VR.lorentz_subtract.k_rhophi_z_tau_rhophi_theta_tau coord11 coord12 coord13 coord14 coord21 coord22 coord23 coord24 := by
  simp only [VR.lorentz_subtract.k_rhophi_z_tau_rhophi_theta_tau] at hres
  simp only [VS.lorentz_subtract.k_rhophi_z_tau_rhophi_theta_tau, VR.lorentz_subtract.k_rhophi_z_tau_rhophi_theta_tau, VS.spatial_subtract.rhophi_z_rhophi_theta_eq, c08_lorentz_t_rhophi_z_tau, c08_lorentz_t_rhophi_theta_tau, c08_lorentz_tau_xy_z_t, h0, h1, VR.P.nanToNum_eq]
  rw [c08_lorentz_tau_xy_z_t_of_result _ _ _ _ hres]

theorem c08_lorentz_subtract_k_rhophi_z_tau_rhophi_z_t (coord11 coord12 coord13 coord14 coord21 coord22 coord23 coord24 : ℝ) (h0 : 0 ≤ coord14) :
    VS.lorentz_subtract.k_rhophi_z_tau_rhophi_z_t coord11 coord12 coord13 coord14 coord21 coord22 coord23 coord24 = VR.lorentz_subtract.k_rhophi_z_tau_rhophi_z_t coord11 coord12 coord13 coord14 coord21 coord22 coord23 coord24 := by
  simp only [VS.lorentz_subtract.k_rhophi_z_tau_rhophi_z_t, VR.lorentz_subtract.k_rhophi_z_tau_rhophi_z_t, VS.spatial_subtract.rhophi_z_rhophi_z_eq, c08_lorentz_t_rhophi_z_tau, VS.lorentz_t.rhophi_z_t_eq, h0, VR.P.nanToNum_eq]

theorem c08_lorentz_subtract_k_rhophi_z_tau_rhophi_z_tau (coord11 coord12 coord13 coord14 coord21 coord22 coord23 coord24 : ℝ) (h0 : 0 ≤ coord14) (h1 : 0 ≤ coord24) (hres : 0 ≤ (VR.lorentz_subtract.k_rhophi_z_tau_rhophi_z_tau coord11 coord12 coord13 coord14 coord21 coord22 coord23 coord24).2.2.2) :
    VS.lorentz_subtract.k_rhophi_z_tau_rhophi_z_tau coord11 coord12 coord13 coord14 coord21 coord22 coord23 coord24 = VR.lorentz_subtract.k_rhophi_z_tau_rhophi_z_tau coord11 coord12 coord13 coord14 coord21 coord22 coord23 coord24 := by
  simp only [VR.lorentz_subtract.k_rhophi_z_tau_rhophi_z_tau] at hres
  simp only [VS.lorentz_subtract.k_rhophi_z_tau_rhophi_z_tau, VR.lorentz_subtract.k_rhophi_z_tau_rhophi_z_tau, VS.spatial_subtract.rhophi_z_rhophi_z_eq, c08_lorentz_t_rhophi_z_tau, c08_lorentz_tau_rhophi_z_t, h0, h1, VR.P.nanToNum_eq]
  rw [c08_lorentz_tau_rhophi_z_t_of_result _ _ _ _ hres]

theorem c08_lorentz_subtract_k_rhophi_z_tau_xy_eta_t (coord11 coord12 coord13 coord14 coord21 coord22 coord23 coord24 : ℝ) (h0 : 0 ≤ coord14) :
    VS.lorentz_subtract.k_rhophi_z_tau_xy_eta_t coord11 coord12 coord13 coord14 coord21 coord22 coord23 coord24 = VR.lorentz_subtract.k_rhophi_z_tau_xy_eta_t coord11 coord12 coord13 coord14 coord21 coord22 coord23 coord24 := by
  simp only [VS.lorentz_subtract.k_rhophi_z_tau_xy_eta_t, VR.lorentz_subtract.k_rhophi_z_tau_xy_eta_t, VS.spatial_subtract.rhophi_z_xy_eta_eq, c08_lorentz_t_rhophi_z_tau, VS.lorentz_t.xy_eta_t_eq, h0, VR.P.nanToNum_eq]

theorem c08_lorentz_subtract_k_rhophi_z_tau_xy_eta_tau (coord11 coord12 coord13 coord14 coord21 coord22 coord23 coord24 : ℝ) (h0 : 0 ≤ coord14) (h1 : 0 ≤ coord24) (hres : 0 ≤ (VR.lorentz_subtract.k_rhophi_z_tau_xy_eta_tau coord11 coord12 coord13 coord14 coord21 coord22 coord23 coord24).2.2.2) :
    VS.lorentz_subtract.k_rhophi_z_tau_xy_eta_tau coord11 coord12 coord13 coord14 coord21 coord22 coord23 coord24 = VR.lorentz_subtract.k_rhophi_z_tau_xy_eta_tau coord11 coord12 coord13 coord14 coord21 coord22 coord23 coord24 := by
  simp only [VR.lorentz_subtract.k_rhophi_z_tau_xy_eta_tau] at hres
  simp only [VS.lorentz_subtract.k_rhophi_z_tau_xy_eta_tau, VR.lorentz_subtract.k_rhophi_z_tau_xy_eta_tau, VS.spatial_subtract.rhophi_z_xy_eta_eq, c08_lorentz_t_rhophi_z_tau, c08_lorentz_t_xy_eta_tau, c08_lorentz_tau_xy_z_t, h0, h1, VR.P.nanToNum_eq]
  rw [c08_lorentz_tau_xy_z_t_of_result _ _ _ _ hres]

theorem c08_lorentz_subtract_k_rhophi_z_tau_xy_theta_t (coord11 coord12 coord13 coord14 coord21 coord22 coord23 coord24 : ℝ) (h0 : 0 ≤ coord14) :
    VS.lorentz_subtract.k_rhophi_z_tau_xy_theta_t coord11 coord12 coord13 coord14 coord21 coord22 coord23 coord24 = VR.lorentz_subtract.k_rhophi_z_tau_xy_theta_t coord11 coord12 coord13 coord14 coord21 coord22 coord23 coord24 := by
  simp only [VS.lorentz_subtract.k_rhophi_z_tau_xy_theta_t, VR.lorentz_subtract.k_rhophi_z_tau_xy_theta_t, VS.spatial_subtract.rhophi_z_xy_theta_eq, c08_lorentz_t_rhophi_z_tau, VS.lorentz_t.xy_theta_t_eq, h0, VR.P.nanToNum_eq]

theorem c08_lorentz_subtract_k_rhophi_z_tau_xy_theta_tau (coord11 coord12 coord13 coord14 coord21 coord22 coord23 coord24 : ℝ) (h0 : 0 ≤ coord14) (h1 : 0 ≤ coord24) (hres : 0 ≤ (VR.lorentz_subtract.k_rhophi_z_tau_xy_theta_tau coord11 coord12 coord13 coord14 coord21 coord22 coord23 coord24).2.2.2) :
    VS.lorentz_subtract.k_rhophi_z_tau_xy_theta_tau coord11 coord12 coord13 coord14 coord21 coord22 coord23 coord24 = VR.lorentz_subtract.k_rhophi_z_tau_xy_theta_tau coord11 coord12 coord13 coord14 coord21 coord22 coord23 coord24 := by
  simp only [VR.lorentz_subtract.k_rhophi_z_tau_xy_theta_tau] at hres
  simp only [VS.lorentz_subtract.k_rhophi_z_tau_xy_theta_tau, VR.lorentz_subtract.k_rhophi_z_tau_xy_theta_tau, VS.spatial_subtract.rhophi_z_xy_theta_eq, c08_lorentz_t_rhophi_z_tau, c08_lorentz_t_xy_theta_tau, c08_lorentz_tau_xy_z_t, h0, h1, VR.P.nanToNum_eq]
  rw [c08_lorentz_tau_xy_z_t_of_result _ _ _ _ hres]

theorem c08_lorentz_subtract_k_rhophi_z_tau_xy_z_t (coord11 coord12 coord13 coord14 coord21 coord22 coord23 coord24 : ℝ) (h0 : 0 ≤ coord14) :
    VS.lorentz_subtract.k_rhophi_z_tau_xy_z_t coord11 coord12 coord13 coord14 coord21 coord22 coord23 coord24 = VR.lorentz_subtract.k_rhophi_z_tau_xy_z_t coord11 coord12 coord13 coord14 coord21 coord22 coord23 coord24 := by
  simp only [VS.lorentz_subtract.k_rhophi_z_tau_xy_z_t, VR.lorentz_subtract.k_rhophi_z_tau_xy_z_t, VS.spatial_subtract.rhophi_z_xy_z_eq, c08_lorentz_t_rhophi_z_tau, VS.lorentz_t.xy_z_t_eq, h0, VR.P.nanToNum_eq]

theorem c08_lorentz_subtract_k_rhophi_z_tau_xy_z_tau (coord11 coord12 coord13 coord14 coord21 coord22 coord23 coord24 : ℝ) (h0 : 0 ≤ coord14) (h1 : 0 ≤ coord24) (hres : 0 ≤ (VR.lorentz_subtract.k_rhophi_z_tau_xy_z_tau coord11 coord12 coord13 coord14 coord21 coord22 coord23 coord24).2.2.2) :
    VS.lorentz_subtract.k_rhophi_z_tau_xy_z_tau coord11 coord12 coord13 coord14 coord21 coord22 coord23 coord24 = VR.lorentz_subtract.k_rhophi_z_tau_xy_z_tau coord11 coord12 coord13 coord14 coord21 coord22 coord23 coord24 := by
  simp only [VR.lorentz_subtract.k_rhophi_z_tau_xy_z_tau] at hres
  simp only [VS.lorentz_subtract.k_rhophi_z_tau_xy_z_tau, VR.lorentz_subtract.k_rhophi_z_tau_xy_z_tau, VS.spatial_subtract.rhophi_z_xy_z_eq, c08_lorentz_t_rhophi_z_tau, c08_lorentz_t_xy_z_tau, c08_lorentz_tau_xy_z_t, h0, h1, VR.P.nanToNum_eq]
  rw [c08_lorentz_tau_xy_z_t_of_result _ _ _ _ hres]

theorem c08_lorentz_subtract_k_xy_eta_t_rhophi_eta_tau (coord11 coord12 coord13 coord14 coord21 coord22 coord23 coord24 : ℝ) (h0 : 0 ≤ coord24) :
    VS.lorentz_subtract.k_xy_eta_t_rhophi_eta_tau coord11 coord12 coord13 coord14 coord21 coord22 coord23 coord24 = VR.lorentz_subtract.k_xy_eta_t_rhophi_eta_tau coord11 coord12 coord13 coord14 coord21 coord22 coord23 coord24 := by
  simp only [VS.lorentz_subtract.k_xy_eta_t_rhophi_eta_tau, VR.lorentz_subtract.k_xy_eta_t_rhophi_eta_tau, VS.spatial_subtract.xy_eta_rhophi_eta_eq, VS.lorentz_t.xy_eta_t_eq, c08_lorentz_t_rhophi_eta_tau, h0, VR.P.nanToNum_eq]

theorem c08_lorentz_subtract_k_xy_eta_t_rhophi_theta_tau (coord11 coord12 coord13 coord14 coord21 coord22 coord23 coord24 : ℝ) (h0 : 0 ≤ coord24) :
    VS.lorentz_subtract.k_xy_eta_t_rhophi_theta_tau coord11 coord12 coord13 coord14 coord21 coord22 coord23 coord24 = VR.lorentz_subtract.k_xy_eta_t_rhophi_theta_tau coord11 coord12 coord13 coord14 coord21 coord22 coord23 coord24 := by
  simp only [VS.lorentz_subtract.k_xy_eta_t_rhophi_theta_tau, VR.lorentz_subtract.k_xy_eta_t_rhophi_theta_tau, VS.spatial_subtract.xy_eta_rhophi_theta_eq, VS.lorentz_t.xy_eta_t_eq, c08_lorentz_t_rhophi_theta_tau, h0, VR.P.nanToNum_eq]

theorem c08_lorentz_subtract_k_xy_eta_t_rhophi_z_tau (coord11 coord12 coord13 coord14 coord21 coord22 coord23 coord24 : ℝ) (h0 : 0 ≤ coord24) :
    VS.lorentz_subtract.k_xy_eta_t_rhophi_z_tau coord11 coord12 coord13 coord14 coord21 coord22 coord23 coord24 = VR.lorentz_subtract.k_xy_eta_t_rhophi_z_tau coord11 coord12 coord13 coord14 coord21 coord22 coord23 coord24 := by
  simp only [VS.lorentz_subtract.k_xy_eta_t_rhophi_z_tau, VR.lorentz_subtract.k_xy_eta_t_rhophi_z_tau, VS.spatial_subtract.xy_eta_rhophi_z_eq, VS.lorentz_t.xy_eta_t_eq, c08_lorentz_t_rhophi_z_tau, h0, VR.P.nanToNum_eq]

theorem c08_lorentz_subtract_k_xy_eta_t_xy_eta_tau (coord11 coord12 coord13 coord14 coord21 coord22 coord23 coord24 : ℝ) (h0 : 0 ≤ coord24) :
    VS.lorentz_subtract.k_xy_eta_t_xy_eta_tau coord11 coord12 coord13 coord14 coord21 coord22 coord23 coord24 = VR.lorentz_subtract.k_xy_eta_t_xy_eta_tau coord11 coord12 coord13 coord14 coord21 coord22 coord23 coord24 := by
  simp only [VS.lorentz_subtract.k_xy_eta_t_xy_eta_tau, VR.lorentz_subtract.k_xy_eta_t_xy_eta_tau, VS.spatial_subtract.xy_eta_xy_eta_eq, VS.lorentz_t.xy_eta_t_eq, c08_lorentz_t_xy_eta_tau, h0, VR.P.nanToNum_eq]

theorem c08_lorentz_subtract_k_xy_eta_t_xy_theta_tau (coord11 coord12 coord13 coord14 coord21 coord22 coord23 coord24 : ℝ) (h0 : 0 ≤ coord24) :
    VS.lorentz_subtract.k_xy_eta_t_xy_theta_tau coord11 coord12 coord13 coord14 coord21 coord22 coord23 coord24 = VR.lorentz_subtract.k_xy_eta_t_xy_theta_tau coord11 coord12 coord13 coord14 coord21 coord22 coord23 coord24 := by
  simp only [VS.lorentz_subtract.k_xy_eta_t_xy_theta_tau, VR.lorentz_subtract.k_xy_eta_t_xy_theta_tau, VS.spatial_subtract.xy_eta_xy_theta_eq, VS.lorentz_t.xy_eta_t_eq, c08_lorentz_t_xy_theta_tau, h0, VR.P.nanToNum_eq]

theorem c08_lorentz_subtract_k_xy_eta_t_xy_z_tau (coord11 coord12 coord13 coord14 coord21 coord22 coord23 coord24 : ℝ) (h0 : 0 ≤ coord24) :
    VS.lorentz_subtract.k_xy_eta_t_xy_z_tau coord11 coord12 coord13 coord14 coord21 coord22 coord23 coord24 = VR.lorentz_subtract.k_xy_eta_t_xy_z_tau coord11 coord12 coord13 coord14 coord21 coord22 coord23 coord24 := by
  simp only [VS.lorentz_subtract.k_xy_eta_t_xy_z_tau, VR.lorentz_subtract.k_xy_eta_t_xy_z_tau, VS.spatial_subtract.xy_eta_xy_z_eq, VS.lorentz_t.xy_eta_t_eq, c08_lorentz_t_xy_z_tau, h0, VR.P.nanToNum_eq]

theorem c08_lorentz_subtract_k_xy_eta_tau_rhophi_eta_t (coord11 coord12 coord13 coord14 coord21 coord22 coord23 coord24 : ℝ) (h0 : 0 ≤ coord14) :
    VS.lorentz_subtract.k_xy_eta_tau_rhophi_eta_t coord11 coord12 coord13 coord14 coord21 coord22 coord23 coord24 = VR.lorentz_subtract.k_xy_eta_tau_rhophi_eta_t coord11 coord12 coord13 coord14 coord21 coord22 coord23 coord24 := by
  simp only [VS.lorentz_subtract.k_xy_eta_tau_rhophi_eta_t, VR.lorentz_subtract.k_xy_eta_tau_rhophi_eta_t, VS.spatial_subtract.xy_eta_rhophi_eta_eq, c08_lorentz_t_xy_eta_tau, VS.lorentz_t.rhophi_eta_t_eq, h0, VR.P.nanToNum_eq]

theorem c08_lorentz_subtract_k_xy_eta_tau_rhophi_eta_tau (coord11 coord12 coord13 coord14 coord21 coord22 coord23 coord24 : ℝ) (h0 : 0 ≤ coord14) (h1 : 0 ≤ coord24) (hres : 0 ≤ (VR.lorentz_subtract.k_xy_eta_tau_rhophi_eta_tau coord11 coord12 coord13 coord14 coord21 coord22 coord23 coord24).2.2.2) :
    VS.lorentz_subtract.k_xy_eta_tau_rhophi_eta_tau coord11 coord12 coord13 coord14 coord21 coord22 coord23 coord24 = VR.lorentz_subtract.k_xy_eta_tau_rhophi_eta_tau coord11 coord12 coord13 coord14 coord21 coord22 coord23 coord24 := by
  simp only [VR.lorentz_subtract.k_xy_eta_tau_rhophi_eta_tau] at hres
  simp only [VS.lorentz_subtract.k_xy_eta_tau_rhophi_eta_tau, VR.lorentz_subtract.k_xy_eta_tau_rhophi_eta_tau, VS.spatial_subtract.xy_eta_rhophi_eta_eq, c08_lorentz_t_xy_eta_tau, c08_lorentz_t_rhophi_eta_tau, c08_lorentz_tau_xy_z_t, h0, h1, VR.P.nanToNum_eq]
  rw [c08_lorentz_tau_xy_z_t_of_result _ _ _ _ hres]

theorem c08_lorentz_subtract_k_xy_eta_tau_rhophi_theta_t (coord11 coord12 coord13 coord14 coord21 coord22 coord23 coord24 : ℝ) (h0 : 0 ≤ coord14) :
    VS.lorentz_subtract.k_xy_eta_tau_rhophi_theta_t coord11 coord12 coord13 coord14 coord21 coord22 coord23 coord24 = VR.lorentz_subtract.k_xy_eta_tau_rhophi_theta_t coord11 coord12 coord13 coord14 coord21 coord22 coord23 coord24 := by
  simp only [VS.lorentz_subtract.k_xy_eta_tau_rhophi_theta_t, VR.lorentz_subtract.k_xy_eta_tau_rhophi_theta_t, VS.spatial_subtract.xy_eta_rhophi_theta_eq, c08_lorentz_t_xy_eta_tau, VS.lorentz_t.rhophi_theta_t_eq, h0, VR.P.nanToNum_eq]

theorem c08_lorentz_subtract_k_xy_eta_tau_rhophi_theta_tau (coord11 coord12 coord13 coord14 coord21 coord22 coord23 coord24 : ℝ) (h0 : 0 ≤ coord14) (h1 : 0 ≤ coord24) (hres : 0 ≤ (VR.lorentz_subtract.k_xy_eta_tau_rhophi_theta_tau coord11 coord12 coord13 coord14 coord21 coord22 coord23 coord24).2.2.2) :
    VS.lorentz_subtract.k_xy_eta_tau_rhophi_theta_tau coord11 coord12 coord13 coord14 coord21 coord22 coord23 coord24 = VR.lorentz_subtract.k_xy_eta_tau_rhophi_theta_tau coord11 coord12 coord13 coord14 coord21 coord22 coord23 coord24 := by
  simp only [VR.lorentz_subtract.k_xy_eta_tau_rhophi_theta_tau] at hres
  simp only [VS.lorentz_subtract.k_xy_eta_tau_rhophi_theta_tau, VR.lorentz_subtract.k_xy_eta_tau_rhophi_theta_tau, VS.spatial_subtract.xy_eta_rhophi_theta_eq, c08_lorentz_t_xy_eta_tau, c08_lorentz_t_rhophi_theta_tau, c08_lorentz_tau_xy_z_t, h0, h1, VR.P.nanToNum_eq]
  rw [c08_lorentz_tau_xy_z_t_of_result _ _ _ _ hres]

theorem c08_lorentz_subtract_k_xy_eta_tau_rhophi_z_t (coord11 coord12 coord13 coord14 coord21 coord22 coord23 coord24 : ℝ) (h0 : 0 ≤ coord14) :
    VS.lorentz_subtract.k_xy_eta_tau_rhophi_z_t coord11 coord12 coord13 coord14 coord21 coord22 coord23 coord24 = VR.lorentz_subtract.k_xy_eta_tau_rhophi_z_t coord11 coord12 coord13 coord14 coord21 coord22 coord23 coord24 := by
  simp only [VS.lorentz_subtract.k_xy_eta_tau_rhophi_z_t, VR.lorentz_subtract.k_xy_eta_tau_rhophi_z_t, VS.spatial_subtract.xy_eta_rhophi_z_eq, c08_lorentz_t_xy_eta_tau, VS.lorentz_t.rhophi_z_t_eq, h0, VR.P.nanToNum_eq]

theorem c08_lorentz_subtract_k_xy_eta_tau_rhophi_z_tau (coord11 coord12 coord13 coord14 coord21 coord22 coord23 coord24 : ℝ) (h0 : 0 ≤ coord14) (h1 : 0 ≤ coord24) (hres : 0 ≤ (VR.lorentz_subtract.k_xy_eta_tau_rhophi_z_tau coord11 coord12 coord13 coord14 coord21 coord22 coord23 coord24).2.2.2) :
    VS.lorentz_subtract.k_xy_eta_tau_rhophi_z_tau coord11 coord12 coord13 coord14 coord21 coord22 coord23 coord24 = VR.lorentz_subtract.k_xy_eta_tau_rhophi_z_tau coord11 coord12 coord13 coord14 coord21 coord22 coord23 coord24 := by
  simp only [VR.lorentz_subtract.k_xy_eta_tau_rhophi_z_tau] at hres
  simp only [VS.lorentz_subtract.k_xy_eta_tau_rhophi_z_tau, VR.lorentz_subtract.k_xy_eta_tau_rhophi_z_tau, VS.spatial_subtract.xy_eta_rhophi_z_eq, c08_lorentz_t_xy_eta_tau, c08_lorentz_t_rhophi_z_tau, c08_lorentz_tau_xy_z_t, h0, h1, VR.P.nanToNum_eq]
  rw [c08_lorentz_tau_xy_z_t_of_result _ _ _ _ hres]

theorem c08_lorentz_subtract_k_xy_eta_tau_xy_eta_t (coord11 coord12 coord13 coord14 coord21 coord22 coord23 coord24 : ℝ) (h0 : 0 ≤ coord14) :
    VS.lorentz_subtract.k_xy_eta_tau_xy_eta_t coord11 coord12 coord13 coord14 coord21 coord22 coord23 coord24 = VR.lorentz_subtract.k_xy_eta_tau_xy_eta_t coord11 coord12 coord13 coord14 coord21 coord22 coord23 coord24 := by
  simp only [VS.lorentz_subtract.k_xy_eta_tau_xy_eta_t, VR.lorentz_subtract.k_xy_eta_tau_xy_eta_t, VS.spatial_subtract.xy_eta_xy_eta_eq, c08_lorentz_t_xy_eta_tau, VS.lorentz_t.xy_eta_t_eq, h0, VR.P.nanToNum_eq]

theorem c08_lorentz_subtract_k_xy_eta_tau_xy_eta_tau (coord11 coord12 coord13 coord14 coord21 coord22 coord23 coord24 : ℝ) (h0 : 0 ≤ coord14) (h1 : 0 ≤ coord24) (hres : 0 ≤ (VR.lorentz_subtract.k_xy_eta_tau_xy_eta_tau coord11 coord12 coord13 coord14 coord21 coord22 coord23 coord24).2.2.2) :
    VS.lorentz_subtract.k_xy_eta_tau_xy_eta_tau coord11 coord12 coord13 coord14 coord21 coord22 coord23 coord24 = VR.lorentz_subtract.k_xy_eta_tau_xy_eta_tau coord11 coord12 coord13 coord14 coord21 coord22 coord23 coord24 := by
  simp only [VR.lorentz_subtract.k_xy_eta_tau_xy_eta_tau] at hres
  simp only [VS.lorentz_subtract.k_xy_eta_tau_xy_eta_tau, VR.lorentz_subtract.k_xy_eta_tau_xy_eta_tau, VS.spatial_subtract.xy_eta_xy_eta_eq, c08_lorentz_t_xy_eta_tau, c08_lorentz_tau_xy_eta_t, h0, h1, VR.P.nanToNum_eq]
  rw [c08_lorentz_tau_xy_eta_t_of_result _ _ _ _ hres]

theorem c08_lorentz_subtract_k_xy_eta_tau_xy_theta_t (coord11 coord12 coord13 coord14 coord21 coord22 coord23 coord24 : ℝ) (h0 : 0 ≤ coord14) :
    VS.lorentz_subtract.k_xy_eta_tau_xy_theta_t coord11 coord12 coord13 coord14 coord21 coord22 coord23 coord24 = VR.lorentz_subtract.k_xy_eta_tau_xy_theta_t coord11 coord12 coord13 coord14 coord21 coord22 coord23 coord24 := by
  simp only [VS.lorentz_subtract.k_xy_eta_tau_xy_theta_t, VR.lorentz_subtract.k_xy_eta_tau_xy_theta_t, VS.spatial_subtract.xy_eta_xy_theta_eq, c08_lorentz_t_xy_eta_tau, VS.lorentz_t.xy_theta_t_eq, h0, VR.P.nanToNum_eq]

theorem c08_lorentz_subtract_k_xy_eta_tau_xy_theta_tau (coord11 coord12 coord13 coord14 coord21 coord22 coord23 coord24 : ℝ) (h0 : 0 ≤ coord14) (h1 : 0 ≤ coord24) (hres : 0 ≤ (VR.lorentz_subtract.k_xy_eta_tau_xy_theta_tau coord11 coord12 coord13 coord14 coord21 coord22 coord23 coord24).2.2.2) :
    VS.lorentz_subtract.k_xy_eta_tau_xy_theta_tau coord11 coord12 coord13 coord14 coord21 coord22 coord23 coord24 = VR.lorentz_subtract.k_xy_eta_tau_xy_theta_tau coord11 coord12 coord13 coord14 coord21 coord22 coord23 coord24 := by
  simp only [VR.lorentz_subtract.k_xy_eta_tau_xy_theta_tau] at hres
  simp only [VS.lorentz_subtract.k_xy_eta_tau_xy_theta_tau, VR.lorentz_subtract.k_xy_eta_tau_xy_theta_tau, VS.spatial_subtract.xy_eta_xy_theta_eq, c08_lorentz_t_xy_eta_tau, c08_lorentz_t_xy_theta_tau, c08_lorentz_tau_xy_z_t, h0, h1, VR.P.nanToNum_eq]
  rw [c08_lorentz_tau_xy_z_t_of_result _ _ _ _ hres]

theorem c08_lorentz_subtract_k_xy_eta_tau_xy_z_t (coord11 coord12 coord13 coord14 coord21 coord22 coord23 coord24 : ℝ) (h0 : 0 ≤ coord14) :
    VS.lorentz_subtract.k_xy_eta_tau_xy_z_t coord11 coord12 coord13 coord14 coord21 coord22 coord23 coord24 = VR.lorentz_subtract.k_xy_eta_tau_xy_z_t coord11 coord12 coord13 coord14 coord21 coord22 coord23 coord24 := by
  simp only [VS.lorentz_subtract.k_xy_eta_tau_xy_z_t, VR.lorentz_subtract.k_xy_eta_tau_xy_z_t, VS.spatial_subtract.xy_eta_xy_z_eq, c08_lorentz_t_xy_eta_tau, VS.lorentz_t.xy_z_t_eq, h0, VR.P.nanToNum_eq]

theorem c08_lorentz_subtract_k_xy_eta_tau_xy_z_tau (coord11 coord12 coord13 coord14 coord21 coord22 coord23 coord24 : ℝ) (h0 : 0 ≤ coord14) (h1 : 0 ≤ coord24) (hres : 0 ≤ (VR.lorentz_subtract.k_xy_eta_tau_xy_z_tau coord11 coord12 coord13 coord14 coord21 coord22 coord23 coord24).2.2.2) :
    VS.lorentz_subtract.k_xy_eta_tau_xy_z_tau coord11 coord12 coord13 coord14 coord21 coord22 coord23 coord24 = VR.lorentz_subtract.k_xy_eta_tau_xy_z_tau coord11 coord12 coord13 coord14 coord21 coord22 coord23 coord24 := by
  simp only [VR.lorentz_subtract.k_xy_eta_tau_xy_z_tau] at hres
  simp only [VS.lorentz_subtract.k_xy_eta_tau_xy_z_tau, VR.lorentz_subtract.k_xy_eta_tau_xy_z_tau, VS.spatial_subtract.xy_eta_xy_z_eq, c08_lorentz_t_xy_eta_tau, c08_lorentz_t_xy_z_tau, c08_lorentz_tau_xy_z_t, h0, h1, VR.P.nanToNum_eq]
  rw [c08_lorentz_tau_xy_z_t_of_result _ _ _ _ hres]

theorem c08_lorentz_subtract_k_xy_theta_t_rhophi_eta_tau (coord11 coord12 coord13 coord14 coord21 coord22 coord23 coord24 : ℝ) (h0 : 0 ≤ coord24) :
    VS.lorentz_subtract.k_xy_theta_t_rhophi_eta_tau coord11 coord12 coord13 coord14 coord21 coord22 coord23 coord24 = VR.lorentz_subtract.k_xy_theta_t_rhophi_eta_tau coord11 coord12 coord13 coord14 coord21 coord22 coord23 coord24 := by
  simp only [VS.lorentz_subtract.k_xy_theta_t_rhophi_eta_tau, VR.lorentz_subtract.k_xy_theta_t_rhophi_eta_tau, VS.spatial_subtract.xy_theta_rhophi_eta_eq, VS.lorentz_t.xy_theta_t_eq, c08_lorentz_t_rhophi_eta_tau, h0, VR.P.nanToNum_eq]

theorem c08_lorentz_subtract_k_xy_theta_t_rhophi_theta_tau (coord11 coord12 coord13 coord14 coord21 coord22 coord23 coord24 : ℝ) (h0 : 0 ≤ coord24) :
    VS.lorentz_subtract.k_xy_theta_t_rhophi_theta_tau coord11 coord12 coord13 coord14 coord21 coord22 coord23 coord24 = VR.lorentz_subtract.k_xy_theta_t_rhophi_theta_tau coord11 coord12 coord13 coord14 coord21 coord22 coord23 coord24 := by
  simp only [VS.lorentz_subtract.k_xy_theta_t_rhophi_theta_tau, VR.lorentz_subtract.k_xy_theta_t_rhophi_theta_tau, VS.spatial_subtract.xy_theta_rhophi_theta_eq, VS.lorentz_t.xy_theta_t_eq, c08_lorentz_t_rhophi_theta_tau, h0, VR.P.nanToNum_eq]

theorem c08_lorentz_subtract_k_xy_theta_t_rhophi_z_tau (coord11 coord12 coord13 coord14 coord21 coord22 coord23 coord24 : ℝ) (h0 : 0 ≤ coord24) :
    VS.lorentz_subtract.k_xy_theta_t_rhophi_z_tau coord11 coord12 coord13 coord14 coord21 coord22 coord23 coord24 = VR.lorentz_subtract.k_xy_theta_t_rhophi_z_tau coord11 coord12 coord13 coord14 coord21 coord22 coord23 coord24 := by
  simp only [VS.lorentz_subtract.k_xy_theta_t_rhophi_z_tau, VR.lorentz_subtract.k_xy_theta_t_rhophi_z_tau, VS.spatial_subtract.xy_theta_rhophi_z_eq, VS.lorentz_t.xy_theta_t_eq, c08_lorentz_t_rhophi_z_tau, h0, VR.P.nanToNum_eq]

theorem c08_lorentz_subtract_k_xy_theta_t_xy_eta_tau (coord11 coord12 coord13 coord14 coord21 coord22 coord23 coord24 : ℝ) (h0 : 0 ≤ coord24) :
    VS.lorentz_subtract.k_xy_theta_t_xy_eta_tau coord11 coord12 coord13 coord14 coord21 coord22 coord23 coord24 = VR.lorentz_subtract.k_xy_theta_t_xy_eta_tau coord11 coord12 coord13 coord14 coord21 coord22 coord23 coord24 := by
  simp only [VS.lorentz_subtract.k_xy_theta_t_xy_eta_tau, VR.lorentz_subtract.k_xy_theta_t_xy_eta_tau, VS.spatial_subtract.xy_theta_xy_eta_eq, VS.lorentz_t.xy_theta_t_eq, c08_lorentz_t_xy_eta_tau, h0, VR.P.nanToNum_eq]

theorem c08_lorentz_subtract_k_xy_theta_t_xy_theta_tau (coord11 coord12 coord13 coord14 coord21 coord22 coord23 coord24 : ℝ) (h0 : 0 ≤ coord24) :
    VS.lorentz_subtract.k_xy_theta_t_xy_theta_tau coord11 coord12 coord13 coord14 coord21 coord22 coord23 coord24 = VR.lorentz_subtract.k_xy_theta_t_xy_theta_tau coord11 coord12 coord13 coord14 coord21 coord22 coord23 coord24 := by
  simp only [VS.lorentz_subtract.k_xy_theta_t_xy_theta_tau, VR.lorentz_subtract.k_xy_theta_t_xy_theta_tau, VS.spatial_subtract.xy_theta_xy_theta_eq, VS.lorentz_t.xy_theta_t_eq, c08_lorentz_t_xy_theta_tau, h0, VR.P.nanToNum_eq]

theorem c08_lorentz_subtract_k_xy_theta_t_xy_z_tau (coord11 coord12 coord13 coord14 coord21 coord22 coord23 coord24 : ℝ) (h0 : 0 ≤ coord24) :
    VS.lorentz_subtract.k_xy_theta_t_xy_z_tau coord11 coord12 coord13 coord14 coord21 coord22 coord23 coord24 = VR.lorentz_subtract.k_xy_theta_t_xy_z_tau coord11 coord12 coord13 coord14 coord21 coord22 coord23 coord24 := by
  simp only [VS.lorentz_subtract.k_xy_theta_t_xy_z_tau, VR.lorentz_subtract.k_xy_theta_t_xy_z_tau, VS.spatial_subtract.xy_theta_xy_z_eq, VS.lorentz_t.xy_theta_t_eq, c08_lorentz_t_xy_z_tau, h0, VR.P.nanToNum_eq]

theorem c08_lorentz_subtract_k_xy_theta_tau_rhophi_eta_t (coord11 coord12 coord13 coord14 coord21 coord22 coord23 coord24 : ℝ) (h0 : 0 ≤ coord14) :
    VS.lorentz_subtract.k_xy_theta_tau_rhophi_eta_t coord11 coord12 coord13 coord14 coord21 coord22 coord23 coord24 = VR.lorentz_subtract.k_xy_theta_tau_rhophi_eta_t coord11 coord12 coord13 coord14 coord21 coord22 coord23 coord24 := by
  simp only [VS.lorentz_subtract.k_xy_theta_tau_rhophi_eta_t, VR.lorentz_subtract.k_xy_theta_tau_rhophi_eta_t, VS.spatial_subtract.xy_theta_rhophi_eta_eq, c08_lorentz_t_xy_theta_tau, VS.lorentz_t.rhophi_eta_t_eq, h0, VR.P.nanToNum_eq]

theorem c08_lorentz_subtract_k_xy_theta_tau_rhophi_eta_tau (coord11 coord12 coord13 coord14 coord21 coord22 coord23 coord24 : ℝ) (h0 : 0 ≤ coord14) (h1 : 0 ≤ coord24) (hres : 0 ≤ (VR.lorentz_subtract.k_xy_theta_tau_rhophi_eta_tau coord11 coord12 coord13 coord14 coord21 coord22 coord23 coord24).2.2.2) :
    VS.lorentz_subtract.k_xy_theta_tau_rhophi_eta_tau coord11 coord12 coord13 coord14 coord21 coord22 coord23 coord24 = VR.lorentz_subtract.k_xy_theta_tau_rhophi_eta_tau coord11 coord12 coord13 coord14 coord21 coord22 coord23 coord24 := by
  simp only [VR.lorentz_subtract.k_xy_theta_tau_rhophi_eta_tau] at hres
  simp only [VS.lorentz_subtract.k_xy_theta_tau_rhophi_eta_tau, VR.lorentz_subtract.k_xy_theta_tau_rhophi_eta_tau, VS.spatial_subtract.xy_theta_rhophi_eta_eq, c08_lorentz_t_xy_theta_tau, c08_lorentz_t_rhophi_eta_tau, c08_lorentz_tau_xy_z_t, h0, h1, VR.P.nanToNum_eq]
  rw [c08_lorentz_tau_xy_z_t_of_result _ _ _ _ hres]

theorem c08_lorentz_subtract_k_xy_theta_tau_rhophi_theta_t (coord11 coord12 coord13 coord14 coord21 coord22 coord23 coord24 : ℝ) (h0 : 0 ≤ coord14) :
    VS.lorentz_subtract.k_xy_theta_tau_rhophi_theta_t coord11 coord12 coord13 coord14 coord21 coord22 coord23 coord24 = VR.lorentz_subtract.k_xy_theta_tau_rhophi_theta_t coord11 coord12 coord13 coord14 coord21 coord22 coord23 coord24 := by
  simp only [VS.lorentz_subtract.k_xy_theta_tau_rhophi_theta_t, VR.lorentz_subtract.k_xy_theta_tau_rhophi_theta_t, VS.spatial_subtract.xy_theta_rhophi_theta_eq, c08_lorentz_t_xy_theta_tau, VS.lorentz_t.rhophi_theta_t_eq, h0, VR.P.nanToNum_eq]

theorem c08_lorentz_subtract_k_xy_theta_tau_rhophi_theta_tau (coord11 coord12 coord13 coord14 coord21 coord22 coord23 coord24 : ℝ) (h0 : 0 ≤ coord14) (h1 : 0 ≤ coord24) (hres : 0 ≤ (VR.lorentz_subtract.k_xy_theta_tau_rhophi_theta_tau coord11 coord12 coord13 coord14 coord21 coord22 coord23 coord24).2.2.2) :
    VS.lorentz_subtract.k_xy_theta_tau_rhophi_theta_tau coord11 coord12 coord13 coord14 coord21 coord22 coord23 coord24 = VR.lorentz_subtract.k_xy_theta_tau_rhophi_theta_tau coord11 coord12 coord13 coord14 coord21 coord22 coord23 coord24 := by
  simp only [VR.lorentz_subtract.k_xy_theta_tau_rhophi_theta_tau] at hres
  simp only [VS.lorentz_subtract.k_xy_theta_tau_rhophi_theta_tau, VR.lorentz_subtract.k_xy_theta_tau_rhophi_theta_tau, VS.spatial_subtract.xy_theta_rhophi_theta_eq, c08_lorentz_t_xy_theta_tau, c08_lorentz_t_rhophi_theta_tau, c08_lorentz_tau_xy_z_t, h0, h1, VR.P.nanToNum_eq]
  rw [c08_lorentz_tau_xy_z_t_of_result _ _ _ _ hres]

theorem c08_lorentz_subtract_k_xy_theta_tau_rhophi_z_t (coord11 coord12 coord13 coord14 coord21 coord22 coord23 coord24 : ℝ) (h0 : 0 ≤ coord14) :
    VS.lorentz_subtract.k_xy_theta_tau_rhophi_z_t coord11 coord12 coord13 coord14 coord21 coord22 coord23 coord24 = VR.lorentz_subtract.k_xy_theta_tau_rhophi_z_t coord11 coord12 coord13 coord14 coord21 coord22 coord23 coord24 := by
  simp only [VS.lorentz_subtract.k_xy_theta_tau_rhophi_z_t, VR.lorentz_subtract.k_xy_theta_tau_rhophi_z_t, VS.spatial_subtract.xy_theta_rhophi_z_eq, c08_lorentz_t_xy_theta_tau, VS.lorentz_t.rhophi_z_t_eq, h0, VR.P.nanToNum_eq]

theorem c08_lorentz_subtract_k_xy_theta_tau_rhophi_z_tau (coord11 coord12 coord13 coord14 coord21 coord22 coord23 coord24 : ℝ) (h0 : 0 ≤ coord24) (h1 : 0 ≤ coord14) (hres : 0 ≤ (VR.lorentz_subtract.k_xy_theta_tau_rhophi_z_tau coord11 coord12 coord13 coord14 coord21 coord22 coord23 coord24).2.2.2) :
    VS.lorentz_subtract.k_xy_theta_tau_rhophi_z_tau coord11 coord12 coord13 coord14 coord21 coord22 coord23 coord24 = VR.lorentz_subtract.k_xy_theta_tau_rhophi_z_tau coord11 coord12 coord13 coord14 coord21 coord22 coord23 coord24 := by
  simp only [VR.lorentz_subtract.k_xy_theta_tau_rhophi_z_tau] at hres
  simp only [VS.lorentz_subtract.k_xy_theta_tau_rhophi_z_tau, VR.lorentz_subtract.k_xy_theta_tau_rhophi_z_tau, VS.spatial_subtract.xy_theta_rhophi_z_eq, c08_lorentz_t_xy_theta_tau, c08_lorentz_t_rhophi_z_tau, c08_lorentz_tau_xy_z_t, h0, h1, VR.P.nanToNum_eq]
  rw [c08_lorentz_tau_xy_z_t_of_result _ _ _ _ hres]

theorem c08_lorentz_subtract_k_xy_theta_tau_xy_eta_t (coord11 coord12 coord13 coord14 coord21 coord22 coord23 coord24 : ℝ) (h0 : 0 ≤ coord14) :
    VS.lorentz_subtract.k_xy_theta_tau_xy_eta_t coord11 coord12 coord13 coord14 coord21 coord22 coord23 coord24 = VR.lorentz_subtract.k_xy_theta_tau_xy_eta_t coord11 coord12 coord13 coord14 coord21 coord22 coord23 coord24 := by
  simp only [VS.lorentz_subtract.k_xy_theta_tau_xy_eta_t, VR.lorentz_subtract.k_xy_theta_tau_xy_eta_t, VS.spatial_subtract.xy_theta_xy_eta_eq, c08_lorentz_t_xy_theta_tau, VS.lorentz_t.xy_eta_t_eq, h0, VR.P.nanToNum_eq]

theorem c08_lorentz_subtract_k_xy_theta_tau_xy_eta_tau (coord11 coord12 coord13 coord14 coord21 coord22 coord23 coord24 : ℝ) (h0 : 0 ≤ coord24) (h1 : 0 ≤ coord14) (hres : 0 ≤ (VR.lorentz_subtract.k_xy_theta_tau_xy_eta_tau coord11 coord12 coord13 coord14 coord21 coord22 coord23 coord24).2.2.2) :
    VS.lorentz_subtract.k_xy_theta_tau_xy_eta_tau coord11 coord12 coord13 coord14 coord21 coord22 coord23 coord24 = VR.lorentz_subtract.k_xy_theta_tau_xy_eta_tau coord11 coord12 coord13 coord14 coord21 coord22 coord23 coord24 := by
  simp only [VR.lorentz_subtract.k_xy_theta_tau_xy_eta_tau] at hres
  simp only [VS.lorentz_subtract.k_xy_theta_tau_xy_eta_tau, VR.lorentz_subtract.k_xy_theta_tau_xy_eta_tau, VS.spatial_subtract.xy_theta_xy_eta_eq, c08_lorentz_t_xy_theta_tau, c08_lorentz_t_xy_eta_tau, c08_lorentz_tau_xy_z_t, h0, h1, VR.P.nanToNum_eq]
  rw [c08_lorentz_tau_xy_z_t_of_result _ _ _ _ hres]

theorem c08_lorentz_subtract_k_xy_theta_tau_xy_theta_t (coord11 coord12 coord13 coord14 coord21 coord22 coord23 coord24 : ℝ) (h0 : 0 ≤ coord14) :
    VS.lorentz_subtract.k_xy_theta_tau_xy_theta_t coord11 coord12 coord13 coord14 coord21 coord22 coord23 coord24 = VR.lorentz_subtract.k_xy_theta_tau_xy_theta_t coord11 coord12 coord13 coord14 coord21 coord22 coord23 coord24 := by
  simp only [VS.lorentz_subtract.k_xy_theta_tau_xy_theta_t, VR.lorentz_subtract.k_xy_theta_tau_xy_theta_t, VS.spatial_subtract.xy_theta_xy_theta_eq, c08_lorentz_t_xy_theta_tau, VS.lorentz_t.xy_theta_t_eq, h0, VR.P.nanToNum_eq]

theorem c08_lorentz_subtract_k_xy_theta_tau_xy_theta_tau (coord11 coord12 coord13 coord14 coord21 coord22 coord23 coord24 : ℝ) (h0 : 0 ≤ coord14) (h1 : 0 ≤ coord24) (hres : 0 ≤ (VR.lorentz_subtract.k_xy_theta_tau_xy_theta_tau coord11 coord12 coord13 coord14 coord21 coord22 coord23 coord24).2.2.2) :
    VS.lorentz_subtract.k_xy_theta_tau_xy_theta_tau coord11 coord12 coord13 coord14 coord21 coord22 coord23 coord24 = VR.lorentz_subtract.k_xy_theta_tau_xy_theta_tau coord11 coord12 coord13 coord14 coord21 coord22 coord23 coord24 := by
  simp only [VR.lorentz_subtract.k_xy_theta_tau_xy_theta_tau] at hres
  simp only [VS.lorentz_subtract.k_xy_theta_tau_xy_theta_tau, VR.lorentz_subtract.k_xy_theta_tau_xy_theta_tau, VS.spatial_subtract.xy_theta_xy_theta_eq, c08_lorentz_t_xy_theta_tau, c08_lorentz_tau_xy_theta_t, h0, h1, VR.P.nanToNum_eq]
  rw [c08_lorentz_tau_xy_theta_t_of_result _ _ _ _ hres]

theorem c08_lorentz_subtract_k_xy_theta_tau_xy_z_t (coord11 coord12 coord13 coord14 coord21 coord22 coord23 coord24 : ℝ) (h0 : 0 ≤ coord14) :
    VS.lorentz_subtract.k_xy_theta_tau_xy_z_t coord11 coord12 coord13 coord14 coord21 coord22 coord23 coord24 = VR.lorentz_subtract.k_xy_theta_tau_xy_z_t coord11 coord12 coord13 coord14 coord21 coord22 coord23 coord24 := by
  simp only [VS.lorentz_subtract.k_xy_theta_tau_xy_z_t, VR.lorentz_subtract.k_xy_theta_tau_xy_z_t, VS.spatial_subtract.xy_theta_xy_z_eq, c08_lorentz_t_xy_theta_tau, VS.lorentz_t.xy_z_t_eq, h0, VR.P.nanToNum_eq]

theorem c08_lorentz_subtract_k_xy_theta_tau_xy_z_tau (coord11 coord12 coord13 coord14 coord21 coord22 coord23 coord24 : ℝ) (h0 : 0 ≤ coord14) (h1 : 0 ≤ coord24) (hres : 0 ≤ (VR.lorentz_subtract.k_xy_theta_tau_xy_z_tau coord11 coord12 coord13 coord14 coord21 coord22 coord23 coord24).2.2.2) :
    VS.lorentz_subtract.k_xy_theta_tau_xy_z_tau coord11 coord12 coord13 coord14 coord21 coord22 coord23 coord24 = VR.lorentz_subtract.k_xy_theta_tau_xy_z_tau coord11 coord12 coord13 coord14 coord21 coord22 coord23 coord24 := by
  simp only [VR.lorentz_subtract.k_xy_theta_tau_xy_z_tau] at hres
  simp only [VS.lorentz_subtract.k_xy_theta_tau_xy_z_tau, VR.lorentz_subtract.k_xy_theta_tau_xy_z_tau, VS.spatial_subtract.xy_theta_xy_z_eq, c08_lorentz_t_xy_theta_tau, c08_lorentz_t_xy_z_tau, c08_lorentz_tau_xy_z_t, h0, h1, VR.P.nanToNum_eq]
  rw [c08_lorentz_tau_xy_z_t_of_result _ _ _ _ hres]

theorem c08_lorentz_subtract_k_xy_z_t_rhophi_eta_tau (coord11 coord12 coord13 coord14 coord21 coord22 coord23 coord24 : ℝ) (h0 : 0 ≤ coord24) :
    VS.lorentz_subtract.k_xy_z_t_rhophi_eta_tau coord11 coord12 coord13 coord14 coord21 coord22 coord23 coord24 = VR.lorentz_subtract.k_xy_z_t_rhophi_eta_tau coord11 coord12 coord13 coord14 coord21 coord22 coord23 coord24 := by
  simp only [VS.lorentz_subtract.k_xy_z_t_rhophi_eta_tau, VR.lorentz_subtract.k_xy_z_t_rhophi_eta_tau, VS.spatial_subtract.xy_z_rhophi_eta_eq, VS.lorentz_t.xy_z_t_eq, c08_lorentz_t_rhophi_eta_tau, h0, VR.P.nanToNum_eq]

theorem c08_lorentz_subtract_k_xy_z_t_rhophi_theta_tau (coord11 coord12 coord13 coord14 coord21 coord22 coord23 coord24 : ℝ) (h0 : 0 ≤ coord24) :
    VS.lorentz_subtract.k_xy_z_t_rhophi_theta_tau coord11 coord12 coord13 coord14 coord21 coord22 coord23 coord24 = VR.lorentz_subtract.k_xy_z_t_rhophi_theta_tau coord11 coord12 coord13 coord14 coord21 coord22 coord23 coord24 := by
  simp only [VS.lorentz_subtract.k_xy_z_t_rhophi_theta_tau, VR.lorentz_subtract.k_xy_z_t_rhophi_theta_tau, VS.spatial_subtract.xy_z_rhophi_theta_eq, VS.lorentz_t.xy_z_t_eq, c08_lorentz_t_rhophi_theta_tau, h0, VR.P.nanToNum_eq]

theorem c08_lorentz_subtract_k_xy_z_t_rhophi_z_tau (coord11 coord12 coord13 coord14 coord21 coord22 coord23 coord24 : ℝ) (h0 : 0 ≤ coord24) :
    VS.lorentz_subtract.k_xy_z_t_rhophi_z_tau coord11 coord12 coord13 coord14 coord21 coord22 coord23 coord24 = VR.lorentz_subtract.k_xy_z_t_rhophi_z_tau coord11 coord12 coord13 coord14 coord21 coord22 coord23 coord24 := by
  simp only [VS.lorentz_subtract.k_xy_z_t_rhophi_z_tau, VR.lorentz_subtract.k_xy_z_t_rhophi_z_tau, VS.spatial_subtract.xy_z_rhophi_z_eq, VS.lorentz_t.xy_z_t_eq, c08_lorentz_t_rhophi_z_tau, h0, VR.P.nanToNum_eq]

theorem c08_lorentz_subtract_k_xy_z_t_xy_eta_tau (coord11 coord12 coord13 coord14 coord21 coord22 coord23 coord24 : ℝ) (h0 : 0 ≤ coord24) :
    VS.lorentz_subtract.k_xy_z_t_xy_eta_tau coord11 coord12 coord13 coord14 coord21 coord22 coord23 coord24 = VR.lorentz_subtract.k_xy_z_t_xy_eta_tau coord11 coord12 coord13 coord14 coord21 coord22 coord23 coord24 := by
  simp only [VS.lorentz_subtract.k_xy_z_t_xy_eta_tau, VR.lorentz_subtract.k_xy_z_t_xy_eta_tau, VS.spatial_subtract.xy_z_xy_eta_eq, VS.lorentz_t.xy_z_t_eq, c08_lorentz_t_xy_eta_tau, h0, VR.P.nanToNum_eq]

theorem c08_lorentz_subtract_k_xy_z_t_xy_theta_tau (coord11 coord12 coord13 coord14 coord21 coord22 coord23 coord24 : ℝ) (h0 : 0 ≤ coord24) :
    VS.lorentz_subtract.k_xy_z_t_xy_theta_tau coord11 coord12 coord13 coord14 coord21 coord22 coord23 coord24 = VR.lorentz_subtract.k_xy_z_t_xy_theta_tau coord11 coord12 coord13 coord14 coord21 coord22 coord23 coord24 := by
  simp only [VS.lorentz_subtract.k_xy_z_t_xy_theta_tau, VR.lorentz_subtract.k_xy_z_t_xy_theta_tau, VS.spatial_subtract.xy_z_xy_theta_eq, VS.lorentz_t.xy_z_t_eq, c08_lorentz_t_xy_theta_tau, h0, VR.P.nanToNum_eq]

theorem c08_lorentz_subtract_k_xy_z_t_xy_z_tau (coord11 coord12 coord13 coord14 coord21 coord22 coord23 coord24 : ℝ) (h0 : 0 ≤ coord24) :
    VS.lorentz_subtract.k_xy_z_t_xy_z_tau coord11 coord12 coord13 coord14 coord21 coord22 coord23 coord24 = VR.lorentz_subtract.k_xy_z_t_xy_z_tau coord11 coord12 coord13 coord14 coord21 coord22 coord23 coord24 := by
  simp only [VS.lorentz_subtract.k_xy_z_t_xy_z_tau, VR.lorentz_subtract.k_xy_z_t_xy_z_tau, VS.spatial_subtract.xy_z_xy_z_eq, VS.lorentz_t.xy_z_t_eq, c08_lorentz_t_xy_z_tau, h0, VR.P.nanToNum_eq]

theorem c08_lorentz_subtract_k_xy_z_tau_rhophi_eta_t (coord11 coord12 coord13 coord14 coord21 coord22 coord23 coord24 : ℝ) (h0 : 0 ≤ coord14) :
    VS.lorentz_subtract.k_xy_z_tau_rhophi_eta_t coord11 coord12 coord13 coord14 coord21 coord22 coord23 coord24 = VR.lorentz_subtract.k_xy_z_tau_rhophi_eta_t coord11 coord12 coord13 coord14 coord21 coord22 coord23 coord24 := by
  simp only [VS.lorentz_subtract.k_xy_z_tau_rhophi_eta_t, VR.lorentz_subtract.k_xy_z_tau_rhophi_eta_t, VS.spatial_subtract.xy_z_rhophi_eta_eq, c08_lorentz_t_xy_z_tau, VS.lorentz_t.rhophi_eta_t_eq, h0, VR.P.nanToNum_eq]

theorem c08_lorentz_subtract_k_xy_z_tau_rhophi_eta_tau (coord11 coord12 coord13 coord14 coord21 coord22 coord23 coord24 : ℝ) (h0 : 0 ≤ coord14) (h1 : 0 ≤ coord24) (hres : 0 ≤ (VR.lorentz_subtract.k_xy_z_tau_rhophi_eta_tau coord11 coord12 coord13 coord14 coord21 coord22 coord23 coord24).2.2.2) :
    VS.lorentz_subtract.k_xy_z_tau_rhophi_eta_tau coord11 coord12 coord13 coord14 coord21 coord22 coord23 coord24 = VR.lorentz_subtract.k_xy_z_tau_rhophi_eta_tau coord11 coord12 coord13 coord14 coord21 coord22 coord23 coord24 := by
  simp only [VR.lorentz_subtract.k_xy_z_tau_rhophi_eta_tau] at hres
  simp only [VS.lorentz_subtract.k_xy_z_tau_rhophi_eta_tau, VR.lorentz_subtract.k_xy_z_tau_rhophi_eta_tau, VS.spatial_subtract.xy_z_rhophi_eta_eq, c08_lorentz_t_xy_z_tau, c08_lorentz_t_rhophi_eta_tau, c08_lorentz_tau_xy_z_t, h0, h1, VR.P.nanToNum_eq]
  rw [c08_lorentz_tau_xy_z_t_of_result _ _ _ _ hres]

theorem c08_lorentz_subtract_k_xy_z_tau_rhophi_theta_t (coord11 coord12 coord13 coord14 coord21 coord22 coord23 coord24 : ℝ) (h0 : 0 ≤ coord14) :
    VS.lorentz_subtract.k_xy_z_tau_rhophi_theta_t coord11 coord12 coord13 coord14 coord21 coord22 coord23 coord24 = VR.lorentz_subtract.k_xy_z_tau_rhophi_theta_t coord11 coord12 coord13 coord14 coord21 coord22 coord23 coord24 := by
  simp only [VS.lorentz_subtract.k_xy_z_tau_rhophi_theta_t, VR.lorentz_subtract.k_xy_z_tau_rhophi_theta_t, VS.spatial_subtract.xy_z_rhophi_theta_eq, c08_lorentz_t_xy_z_tau, VS.lorentz_t.rhophi_theta_t_eq, h0, VR.P.nanToNum_eq]

theorem c08_lorentz_subtract_k_xy_z_tau_rhophi_theta_tau (coord11 coord12 coord13 coord14 coord21 coord22 coord23 coord24 : ℝ) (h0 : 0 ≤ coord14) (h1 : 0 ≤ coord24) (hres : 0 ≤ (VR.lorentz_subtract.k_xy_z_tau_rhophi_theta_tau coord11 coord12 coord13 coord14 coord21 coord22 coord23 coord24).2.2.2) :
    VS.lorentz_subtract.k_xy_z_tau_rhophi_theta_tau coord11 coord12 coord13 coord14 coord21 coord22 coord23 coord24 = VR.lorentz_subtract.k_xy_z_tau_rhophi_theta_tau coord11 coord12 coord13 coord14 coord21 coord22 coord23 coord24 := by
  simp only [VR.lorentz_subtract.k_xy_z_tau_rhophi_theta_tau] at hres
  simp only [VS.lorentz_subtract.k_xy_z_tau_rhophi_theta_tau, VR.lorentz_subtract.k_xy_z_tau_rhophi_theta_tau, VS.spatial_subtract.xy_z_rhophi_theta_eq, c08_lorentz_t_xy_z_tau, c08_lorentz_t_rhophi_theta_tau, c08_lorentz_tau_xy_z_t, h0, h1, VR.P.nanToNum_eq]
  rw [c08_lorentz_tau_xy_z_t_of_result _ _ _ _ hres]

theorem c08_lorentz_subtract_k_xy_z_tau_rhophi_z_t (coord11 coord12 coord13 coord14 coord21 coord22 coord23 coord24 : ℝ) (h0 : 0 ≤ coord14) :
    VS.lorentz_subtract.k_xy_z_tau_rhophi_z_t coord11 coord12 coord13 coord14 coord21 coord22 coord23 coord24 = VR.lorentz_subtract.k_xy_z_tau_rhophi_z_t coord11 coord12 coord13 coord14 coord21 coord22 coord23 coord24 := by
  simp only [VS.lorentz_subtract.k_xy_z_tau_rhophi_z_t, VR.lorentz_subtract.k_xy_z_tau_rhophi_z_t, VS.spatial_subtract.xy_z_rhophi_z_eq, c08_lorentz_t_xy_z_tau, VS.lorentz_t.rhophi_z_t_eq, h0, VR.P.nanToNum_eq]

theorem c08_lorentz_subtract_k_xy_z_tau_rhophi_z_tau (coord11 coord12 coord13 coord14 coord21 coord22 coord23 coord24 : ℝ) (h0 : 0 ≤ coord14) (h1 : 0 ≤ coord24) (hres : 0 ≤ (VR.lorentz_subtract.k_xy_z_tau_rhophi_z_tau coord11 coord12 coord13 coord14 coord21 coord22 coord23 coord24).2.2.2) :
    VS.lorentz_subtract.k_xy_z_tau_rhophi_z_tau coord11 coord12 coord13 coord14 coord21 coord22 coord23 coord24 = VR.lorentz_subtract.k_xy_z_tau_rhophi_z_tau coord11 coord12 coord13 coord14 coord21 coord22 coord23 coord24 := by
  simp only [VR.lorentz_subtract.k_xy_z_tau_rhophi_z_tau] at hres
  simp only [VS.lorentz_subtract.k_xy_z_tau_rhophi_z_tau, VR.lorentz_subtract.k_xy_z_tau_rhophi_z_tau, VS.spatial_subtract.xy_z_rhophi_z_eq, c08_lorentz_t_xy_z_tau, c08_lorentz_t_rhophi_z_tau, c08_lorentz_tau_xy_z_t, h0, h1, VR.P.nanToNum_eq]
  rw [c08_lorentz_tau_xy_z_t_of_result _ _ _ _ hres]

theorem c08_lorentz_subtract_k_xy_z_tau_xy_eta_t (coord11 coord12 coord13 coord14 coord21 coord22 coord23 coord24 : ℝ) (h0 : 0 ≤ coord14) :
    VS.lorentz_subtract.k_xy_z_tau_xy_eta_t coord11 coord12 coord13 coord14 coord21 coord22 coord23 coord24 = VR.lorentz_subtract.k_xy_z_tau_xy_eta_t coord11 coord12 coord13 coord14 coord21 coord22 coord23 coord24 := by
  simp only [VS.lorentz_subtract.k_xy_z_tau_xy_eta_t, VR.lorentz_subtract.k_xy_z_tau_xy_eta_t, VS.spatial_subtract.xy_z_xy_eta_eq, c08_lorentz_t_xy_z_tau, VS.lorentz_t.xy_eta_t_eq, h0, VR.P.nanToNum_eq]

theorem c08_lorentz_subtract_k_xy_z_tau_xy_eta_tau (coord11 coord12 coord13 coord14 coord21 coord22 coord23 coord24 : ℝ) (h0 : 0 ≤ coord24) (h1 : 0 ≤ coord14) (hres : 0 ≤ (VR.lorentz_subtract.k_xy_z_tau_xy_eta_tau coord11 coord12 coord13 coord14 coord21 coord22 coord23 coord24).2.2.2) :
    VS.lorentz_subtract.k_xy_z_tau_xy_eta_tau coord11 coord12 coord13 coord14 coord21 coord22 coord23 coord24 = VR.lorentz_subtract.k_xy_z_tau_xy_eta_tau coord11 coord12 coord13 coord14 coord21 coord22 coord23 coord24 := by
  simp only [VR.lorentz_subtract.k_xy_z_tau_xy_eta_tau] at hres
  simp only [VS.lorentz_subtract.k_xy_z_tau_xy_eta_tau, VR.lorentz_subtract.k_xy_z_tau_xy_eta_tau, VS.spatial_subtract.xy_z_xy_eta_eq, c08_lorentz_t_xy_z_tau, c08_lorentz_t_xy_eta_tau, c08_lorentz_tau_xy_z_t, h0, h1, VR.P.nanToNum_eq]
  rw [c08_lorentz_tau_xy_z_t_of_result _ _ _ _ hres]

theorem c08_lorentz_subtract_k_xy_z_tau_xy_theta_t (coord11 coord12 coord13 coord14 coord21 coord22 coord23 coord24 : ℝ) (h0 : 0 ≤ coord14) :
    VS.lorentz_subtract.k_xy_z_tau_xy_theta_t coord11 coord12 coord13 coord14 coord21 coord22 coord23 coord24 = VR.lorentz_subtract.k_xy_z_tau_xy_theta_t coord11 coord12 coord13 coord14 coord21 coord22 coord23 coord24 := by
  simp only [VS.lorentz_subtract.k_xy_z_tau_xy_theta_t, VR.lorentz_subtract.k_xy_z_tau_xy_theta_t, VS.spatial_subtract.xy_z_xy_theta_eq, c08_lorentz_t_xy_z_tau, VS.lorentz_t.xy_theta_t_eq, h0, VR.P.nanToNum_eq]

theorem c08_lorentz_subtract_k_xy_z_tau_xy_theta_tau (coord11 coord12 coord13 coord14 coord21 coord22 coord23 coord24 : ℝ) (h0 : 0 ≤ coord14) (h1 : 0 ≤ coord24) (hres : 0 ≤ (VR.lorentz_subtract.k_xy_z_tau_xy_theta_tau coord11 coord12 coord13 coord14 coord21 coord22 coord23 coord24).2.2.2) :
    VS.lorentz_subtract.k_xy_z_tau_xy_theta_tau coord11 coord12 coord13 coord14 coord21 coord22 coord23 coord24 = VR.lorentz_subtract.k_xy_z_tau_xy_theta_tau coord11 coord12 coord13 coord14 coord21 coord22 coord23 coord24 := by
  simp only [VR.lorentz_subtract.k_xy_z_tau_xy_theta_tau] at hres
  simp only [VS.lorentz_subtract.k_xy_z_tau_xy_theta_tau, VR.lorentz_subtract.k_xy_z_tau_xy_theta_tau, VS.spatial_subtract.xy_z_xy_theta_eq, c08_lorentz_t_xy_z_tau, c08_lorentz_t_xy_theta_tau, c08_lorentz_tau_xy_z_t, h0, h1, VR.P.nanToNum_eq]
  rw [c08_lorentz_tau_xy_z_t_of_result _ _ _ _ hres]

theorem c08_lorentz_subtract_k_xy_z_tau_xy_z_t (coord11 coord12 coord13 coord14 coord21 coord22 coord23 coord24 : ℝ) (h0 : 0 ≤ coord14) :
    VS.lorentz_subtract.k_xy_z_tau_xy_z_t coord11 coord12 coord13 coord14 coord21 coord22 coord23 coord24 = VR.lorentz_subtract.k_xy_z_tau_xy_z_t coord11 coord12 coord13 coord14 coord21 coord22 coord23 coord24 := by
  simp only [VS.lorentz_subtract.k_xy_z_tau_xy_z_t, VR.lorentz_subtract.k_xy_z_tau_xy_z_t, VS.spatial_subtract.xy_z_xy_z_eq, c08_lorentz_t_xy_z_tau, VS.lorentz_t.xy_z_t_eq, h0, VR.P.nanToNum_eq]

theorem c08_lorentz_subtract_k_xy_z_tau_xy_z_tau (coord11 coord12 coord13 coord14 coord21 coord22 coord23 coord24 : ℝ) (h0 : 0 ≤ coord14) (h1 : 0 ≤ coord24) (hres : 0 ≤ (VR.lorentz_subtract.k_xy_z_tau_xy_z_tau coord11 coord12 coord13 coord14 coord21 coord22 coord23 coord24).2.2.2) :
    VS.lorentz_subtract.k_xy_z_tau_xy_z_tau coord11 coord12 coord13 coord14 coord21 coord22 coord23 coord24 = VR.lorentz_subtract.k_xy_z_tau_xy_z_tau coord11 coord12 coord13 coord14 coord21 coord22 coord23 coord24 := by
  simp only [VR.lorentz_subtract.k_xy_z_tau_xy_z_tau] at hres
  simp only [VS.lorentz_subtract.k_xy_z_tau_xy_z_tau, VR.lorentz_subtract.k_xy_z_tau_xy_z_tau, VS.spatial_subtract.xy_z_xy_z_eq, c08_lorentz_t_xy_z_tau, c08_lorentz_tau_xy_z_t, h0, h1, VR.P.nanToNum_eq]
  rw [c08_lorentz_tau_xy_z_t_of_result _ _ _ _ hres]


/-! ### `lorentz_deltaRapidityPhi2` -/

theorem c08_lorentz_deltaRapidityPhi2_k_rhophi_eta_t_rhophi_eta_tau (coord11 coord12 coord13 coord14 coord21 coord22 coord23 coord24 : ℝ) (h0 : 0 ≤ coord24) :
    VS.lorentz_deltaRapidityPhi2.k_rhophi_eta_t_rhophi_eta_tau coord11 coord12 coord13 coord14 coord21 coord22 coord23 coord24 = VR.lorentz_deltaRapidityPhi2.k_rhophi_eta_t_rhophi_eta_tau coord11 coord12 coord13 coord14 coord21 coord22 coord23 coord24 := by
  simp only [VS.lorentz_deltaRapidityPhi2.k_rhophi_eta_t_rhophi_eta_tau, VR.lorentz_deltaRapidityPhi2.k_rhophi_eta_t_rhophi_eta_tau, VS.planar_deltaphi.rhophi_rhophi_eq, VS.lorentz_rapidity.rhophi_eta_t_eq, c08_lorentz_rapidity_rhophi_eta_tau, h0, VR.P.nanToNum_eq]

theorem c08_lorentz_deltaRapidityPhi2_k_rhophi_eta_t_rhophi_theta_tau (coord11 coord12 coord13 coord14 coord21 coord22 coord23 coord24 : ℝ) (h0 : 0 ≤ coord24) :
    VS.lorentz_deltaRapidityPhi2.k_rhophi_eta_t_rhophi_theta_tau coord11 coord12 coord13 coord14 coord21 coord22 coord23 coord24 = VR.lorentz_deltaRapidityPhi2.k_rhophi_eta_t_rhophi_theta_tau coord11 coord12 coord13 coord14 coord21 coord22 coord23 coord24 := by
  simp only [VS.lorentz_deltaRapidityPhi2.k_rhophi_eta_t_rhophi_theta_tau, VR.lorentz_deltaRapidityPhi2.k_rhophi_eta_t_rhophi_theta_tau, VS.planar_deltaphi.rhophi_rhophi_eq, VS.lorentz_rapidity.rhophi_eta_t_eq, c08_lorentz_rapidity_rhophi_theta_tau, h0, VR.P.nanToNum_eq]

theorem c08_lorentz_deltaRapidityPhi2_k_rhophi_eta_t_rhophi_z_tau (coord11 coord12 coord13 coord14 coord21 coord22 coord23 coord24 : ℝ) (h0 : 0 ≤ coord24) :
    VS.lorentz_deltaRapidityPhi2.k_rhophi_eta_t_rhophi_z_tau coord11 coord12 coord13 coord14 coord21 coord22 coord23 coord24 = VR.lorentz_deltaRapidityPhi2.k_rhophi_eta_t_rhophi_z_tau coord11 coord12 coord13 coord14 coord21 coord22 coord23 coord24 := by
  simp only [VS.lorentz_deltaRapidityPhi2.k_rhophi_eta_t_rhophi_z_tau, VR.lorentz_deltaRapidityPhi2.k_rhophi_eta_t_rhophi_z_tau, VS.planar_deltaphi.rhophi_rhophi_eq, VS.lorentz_rapidity.rhophi_eta_t_eq, c08_lorentz_rapidity_rhophi_z_tau, h0, VR.P.nanToNum_eq]

theorem c08_lorentz_deltaRapidityPhi2_k_rhophi_eta_t_xy_eta_tau (coord11 coord12 coord13 coord14 coord21 coord22 coord23 coord24 : ℝ) (h0 : 0 ≤ coord24) :
    VS.lorentz_deltaRapidityPhi2.k_rhophi_eta_t_xy_eta_tau coord11 coord12 coord13 coord14 coord21 coord22 coord23 coord24 = VR.lorentz_deltaRapidityPhi2.k_rhophi_eta_t_xy_eta_tau coord11 coord12 coord13 coord14 coord21 coord22 coord23 coord24 := by
  simp only [VS.lorentz_deltaRapidityPhi2.k_rhophi_eta_t_xy_eta_tau, VR.lorentz_deltaRapidityPhi2.k_rhophi_eta_t_xy_eta_tau, VS.planar_deltaphi.rhophi_xy_eq, VS.lorentz_rapidity.rhophi_eta_t_eq, c08_lorentz_rapidity_xy_eta_tau, h0, VR.P.nanToNum_eq]

theorem c08_lorentz_deltaRapidityPhi2_k_rhophi_eta_t_xy_theta_tau (coord11 coord12 coord13 coord14 coord21 coord22 coord23 coord24 : ℝ) (h0 : 0 ≤ coord24) :
    VS.lorentz_deltaRapidityPhi2.k_rhophi_eta_t_xy_theta_tau coord11 coord12 coord13 coord14 coord21 coord22 coord23 coord24 = VR.lorentz_deltaRapidityPhi2.k_rhophi_eta_t_xy_theta_tau coord11 coord12 coord13 coord14 coord21 coord22 coord23 coord24 := by
  simp only [VS.lorentz_deltaRapidityPhi2.k_rhophi_eta_t_xy_theta_tau, VR.lorentz_deltaRapidityPhi2.k_rhophi_eta_t_xy_theta_tau, VS.planar_deltaphi.rhophi_xy_eq, VS.lorentz_rapidity.rhophi_eta_t_eq, c08_lorentz_rapidity_xy_theta_tau, h0, VR.P.nanToNum_eq]

theorem c08_lorentz_deltaRapidityPhi2_k_rhophi_eta_t_xy_z_tau (coord11 coord12 coord13 coord14 coord21 coord22 coord23 coord24 : ℝ) (h0 : 0 ≤ coord24) :
    VS.lorentz_deltaRapidityPhi2.k_rhophi_eta_t_xy_z_tau coord11 coord12 coord13 coord14 coord21 coord22 coord23 coord24 = VR.lorentz_deltaRapidityPhi2.k_rhophi_eta_t_xy_z_tau coord11 coord12 coord13 coord14 coord21 coord22 coord23 coord24 := by
  simp only [VS.lorentz_deltaRapidityPhi2.k_rhophi_eta_t_xy_z_tau, VR.lorentz_deltaRapidityPhi2.k_rhophi_eta_t_xy_z_tau, VS.planar_deltaphi.rhophi_xy_eq, VS.lorentz_rapidity.rhophi_eta_t_eq, c08_lorentz_rapidity_xy_z_tau, h0, VR.P.nanToNum_eq]

theorem c08_lorentz_deltaRapidityPhi2_k_rhophi_eta_tau_rhophi_eta_t (coord11 coord12 coord13 coord14 coord21 coord22 coord23 coord24 : ℝ) (h0 : 0 ≤ coord14) :
    VS.lorentz_deltaRapidityPhi2.k_rhophi_eta_tau_rhophi_eta_t coord11 coord12 coord13 coord14 coord21 coord22 coord23 coord24 = VR.lorentz_deltaRapidityPhi2.k_rhophi_eta_tau_rhophi_eta_t coord11 coord12 coord13 coord14 coord21 coord22 coord23 coord24 := by
  simp only [VS.lorentz_deltaRapidityPhi2.k_rhophi_eta_tau_rhophi_eta_t, VR.lorentz_deltaRapidityPhi2.k_rhophi_eta_tau_rhophi_eta_t, VS.planar_deltaphi.rhophi_rhophi_eq, c08_lorentz_rapidity_rhophi_eta_tau, VS.lorentz_rapidity.rhophi_eta_t_eq, h0, VR.P.nanToNum_eq]

theorem c08_lorentz_deltaRapidityPhi2_k_rhophi_eta_tau_rhophi_eta_tau (coord11 coord12 coord13 coord14 coord21 coord22 coord23 coord24 : ℝ) (h0 : 0 ≤ coord14) (h1 : 0 ≤ coord24) :
    VS.lorentz_deltaRapidityPhi2.k_rhophi_eta_tau_rhophi_eta_tau coord11 coord12 coord13 coord14 coord21 coord22 coord23 coord24 = VR.lorentz_deltaRapidityPhi2.k_rhophi_eta_tau_rhophi_eta_tau coord11 coord12 coord13 coord14 coord21 coord22 coord23 coord24 := by
  simp only [VS.lorentz_deltaRapidityPhi2.k_rhophi_eta_tau_rhophi_eta_tau, VR.lorentz_deltaRapidityPhi2.k_rhophi_eta_tau_rhophi_eta_tau, VS.planar_deltaphi.rhophi_rhophi_eq, c08_lorentz_rapidity_rhophi_eta_tau, h0, h1, VR.P.nanToNum_eq]

theorem c08_lorentz_deltaRapidityPhi2_k_rhophi_eta_tau_rhophi_theta_t (coord11 coord12 coord13 coord14 coord21 coord22 coord23 coord24 : ℝ) (h0 : 0 ≤ coord14) :
    VS.lorentz_deltaRapidityPhi2.k_rhophi_eta_tau_rhophi_theta_t coord11 coord12 coord13 coord14 coord21 coord22 coord23 coord24 = VR.lorentz_deltaRapidityPhi2.k_rhophi_eta_tau_rhophi_theta_t coord11 coord12 coord13 coord14 coord21 coord22 coord23 coord24 := by
  simp only [VS.lorentz_deltaRapidityPhi2.k_rhophi_eta_tau_rhophi_theta_t, VR.lorentz_deltaRapidityPhi2.k_rhophi_eta_tau_rhophi_theta_t, VS.planar_deltaphi.rhophi_rhophi_eq, c08_lorentz_rapidity_rhophi_eta_tau, VS.lorentz_rapidity.rhophi_theta_t_eq, h0, VR.P.nanToNum_eq]

theorem c08_lorentz_deltaRapidityPhi2_k_rhophi_eta_tau_rhophi_theta_tau (coord11 coord12 coord13 coord14 coord21 coord22 coord23 coord24 : ℝ) (h0 : 0 ≤ coord14) (h1 : 0 ≤ coord24) :
    VS.lorentz_deltaRapidityPhi2.k_rhophi_eta_tau_rhophi_theta_tau coord11 coord12 coord13 coord14 coord21 coord22 coord23 coord24 = VR.lorentz_deltaRapidityPhi2.k_rhophi_eta_tau_rhophi_theta_tau coord11 coord12 coord13 coord14 coord21 coord22 coord23 coord24 := by
  simp only [VS.lorentz_deltaRapidityPhi2.k_rhophi_eta_tau_rhophi_theta_tau, VR.lorentz_deltaRapidityPhi2.k_rhophi_eta_tau_rhophi_theta_tau, VS.planar_deltaphi.rhophi_rhophi_eq, c08_lorentz_rapidity_rhophi_eta_tau, c08_lorentz_rapidity_rhophi_theta_tau, h0, h1, VR.P.nanToNum_eq]

theorem c08_lorentz_deltaRapidityPhi2_k_rhophi_eta_tau_rhophi_z_t (coord11 coord12 coord13 coord14 coord21 coord22 coord23 coord24 : ℝ) (h0 : 0 ≤ coord14) :
    VS.lorentz_deltaRapidityPhi2.k_rhophi_eta_tau_rhophi_z_t coord11 coord12 coord13 coord14 coord21 coord22 coord23 coord24 = VR.lorentz_deltaRapidityPhi2.k_rhophi_eta_tau_rhophi_z_t coord11 coord12 coord13 coord14 coord21 coord22 coord23 coord24 := by
  simp only [VS.lorentz_deltaRapidityPhi2.k_rhophi_eta_tau_rhophi_z_t, VR.lorentz_deltaRapidityPhi2.k_rhophi_eta_tau_rhophi_z_t, VS.planar_deltaphi.rhophi_rhophi_eq, c08_lorentz_rapidity_rhophi_eta_tau, VS.lorentz_rapidity.rhophi_z_t_eq, h0, VR.P.nanToNum_eq]

theorem c08_lorentz_deltaRapidityPhi2_k_rhophi_eta_tau_rhophi_z_tau (coord11 coord12 coord13 coord14 coord21 coord22 coord23 coord24 : ℝ) (h0 : 0 ≤ coord24) (h1 : 0 ≤ coord14) :
    VS.lorentz_deltaRapidityPhi2.k_rhophi_eta_tau_rhophi_z_tau coord11 coord12 coord13 coord14 coord21 coord22 coord23 coord24 = VR.lorentz_deltaRapidityPhi2.k_rhophi_eta_tau_rhophi_z_tau coord11 coord12 coord13 coord14 coord21 coord22 coord23 coord24 := by
  simp only [VS.lorentz_deltaRapidityPhi2.k_rhophi_eta_tau_rhophi_z_tau, VR.lorentz_deltaRapidityPhi2.k_rhophi_eta_tau_rhophi_z_tau, VS.planar_deltaphi.rhophi_rhophi_eq, c08_lorentz_rapidity_rhophi_eta_tau, c08_lorentz_rapidity_rhophi_z_tau, h0, h1, VR.P.nanToNum_eq]

theorem c08_lorentz_deltaRapidityPhi2_k_rhophi_eta_tau_xy_eta_t (coord11 coord12 coord13 coord14 coord21 coord22 coord23 coord24 : ℝ) (h0 : 0 ≤ coord14) :
    VS.lorentz_deltaRapidityPhi2.k_rhophi_eta_tau_xy_eta_t coord11 coord12 coord13 coord14 coord21 coord22 coord23 coord24 = VR.lorentz_deltaRapidityPhi2.k_rhophi_eta_tau_xy_eta_t coord11 coord12 coord13 coord14 coord21 coord22 coord23 coord24 := by
  simp only [VS.lorentz_deltaRapidityPhi2.k_rhophi_eta_tau_xy_eta_t, VR.lorentz_deltaRapidityPhi2.k_rhophi_eta_tau_xy_eta_t, VS.planar_deltaphi.rhophi_xy_eq, c08_lorentz_rapidity_rhophi_eta_tau, VS.lorentz_rapidity.xy_eta_t_eq, h0, VR.P.nanToNum_eq]

theorem c08_lorentz_deltaRapidityPhi2_k_rhophi_eta_tau_xy_eta_tau (coord11 coord12 coord13 coord14 coord21 coord22 coord23 coord24 : ℝ) (h0 : 0 ≤ coord14) (h1 : 0 ≤ coord24) :
    VS.lorentz_deltaRapidityPhi2.k_rhophi_eta_tau_xy_eta_tau coord11 coord12 coord13 coord14 coord21 coord22 coord23 coord24 = VR.lorentz_deltaRapidityPhi2.k_rhophi_eta_tau_xy_eta_tau coord11 coord12 coord13 coord14 coord21 coord22 coord23 coord24 := by
  simp only [VS.lorentz_deltaRapidityPhi2.k_rhophi_eta_tau_xy_eta_tau, VR.lorentz_deltaRapidityPhi2.k_rhophi_eta_tau_xy_eta_tau, VS.planar_deltaphi.rhophi_xy_eq, c08_lorentz_rapidity_rhophi_eta_tau, c08_lorentz_rapidity_xy_eta_tau, h0, h1, VR.P.nanToNum_eq]

theorem c08_lorentz_deltaRapidityPhi2_k_rhophi_eta_tau_xy_theta_t (coord11 coord12 coord13 coord14 coord21 coord22 coord23 coord24 : ℝ) (h0 : 0 ≤ coord14) :
    VS.lorentz_deltaRapidityPhi2.k_rhophi_eta_tau_xy_theta_t coord11 coord12 coord13 coord14 coord21 coord22 coord23 coord24 = VR.lorentz_deltaRapidityPhi2.k_rhophi_eta_tau_xy_theta_t coord11 coord12 coord13 coord14 coord21 coord22 coord23 coord24 := by
  simp only [VS.lorentz_deltaRapidityPhi2.k_rhophi_eta_tau_xy_theta_t, VR.lorentz_deltaRapidityPhi2.k_rhophi_eta_tau_xy_theta_t, VS.planar_deltaphi.rhophi_xy_eq, c08_lorentz_rapidity_rhophi_eta_tau, VS.lorentz_rapidity.xy_theta_t_eq, h0, VR.P.nanToNum_eq]

theorem c08_lorentz_deltaRapidityPhi2_k_rhophi_eta_tau_xy_theta_tau (coord11 coord12 coord13 coord14 coord21 coord22 coord23 coord24 : ℝ) (h0 : 0 ≤ coord14) (h1 : 0 ≤ coord24) :
    VS.lorentz_deltaRapidityPhi2.k_rhophi_eta_tau_xy_theta_tau coord11 coord12 coord13 coord14 coord21 coord22 coord23 coord24 = VR.lorentz_deltaRapidityPhi2.k_rhophi_eta_tau_xy_theta_tau coord11 coord12 coord13 coord14 coord21 coord22 coord23 coord24 := by
  simp only [VS.lorentz_deltaRapidityPhi2.k_rhophi_eta_tau_xy_theta_tau, VR.lorentz_deltaRapidityPhi2.k_rhophi_eta_tau_xy_theta_tau, VS.planar_deltaphi.rhophi_xy_eq, c08_lorentz_rapidity_rhophi_eta_tau, c08_lorentz_rapidity_xy_theta_tau, h0, h1, VR.P.nanToNum_eq]

theorem c08_lorentz_deltaRapidityPhi2_k_rhophi_eta_tau_xy_z_t (coord11 coord12 coord13 coord14 coord21 coord22 coord23 coord24 : ℝ) (h0 : 0 ≤ coord14) :
    VS.lorentz_deltaRapidityPhi2.k_rhophi_eta_tau_xy_z_t coord11 coord12 coord13 coord14 coord21 coord22 coord23 coord24 = VR.lorentz_deltaRapidityPhi2.k_rhophi_eta_tau_xy_z_t coord11 coord12 coord13 coord14 coord21 coord22 coord23 coord24 := by
  simp only [VS.lorentz_deltaRapidityPhi2.k_rhophi_eta_tau_xy_z_t, VR.lorentz_deltaRapidityPhi2.k_rhophi_eta_tau_xy_z_t, VS.planar_deltaphi.rhophi_xy_eq, c08_lorentz_rapidity_rhophi_eta_tau, VS.lorentz_rapidity.xy_z_t_eq, h0, VR.P.nanToNum_eq]

theorem c08_lorentz_deltaRapidityPhi2_k_rhophi_eta_tau_xy_z_tau (coord11 coord12 coord13 coord14 coord21 coord22 coord23 coord24 : ℝ) (h0 : 0 ≤ coord14) (h1 : 0 ≤ coord24) :
    VS.lorentz_deltaRapidityPhi2.k_rhophi_eta_tau_xy_z_tau coord11 coord12 coord13 coord14 coord21 coord22 coord23 coord24 = VR.lorentz_deltaRapidityPhi2.k_rhophi_eta_tau_xy_z_tau coord11 coord12 coord13 coord14 coord21 coord22 coord23 coord24 := by
  simp only [VS.lorentz_deltaRapidityPhi2.k_rhophi_eta_tau_xy_z_tau, VR.lorentz_deltaRapidityPhi2.k_rhophi_eta_tau_xy_z_tau, VS.planar_deltaphi.rhophi_xy_eq, c08_lorentz_rapidity_rhophi_eta_tau, c08_lorentz_rapidity_xy_z_tau, h0, h1, VR.P.nanToNum_eq]

theorem c08_lorentz_deltaRapidityPhi2_k_rhophi_theta_t_rhophi_eta_tau (coord11 coord12 coord13 coord14 coord21 coord22 coord23 coord24 : ℝ) (h0 : 0 ≤ coord24) :
    VS.lorentz_deltaRapidityPhi2.k_rhophi_theta_t_rhophi_eta_tau coord11 coord12 coord13 coord14 coord21 coord22 coord23 coord24 = VR.lorentz_deltaRapidityPhi2.k_rhophi_theta_t_rhophi_eta_tau coord11 coord12 coord13 coord14 coord21 coord22 coord23 coord24 := by
  simp only [VS.lorentz_deltaRapidityPhi2.k_rhophi_theta_t_rhophi_eta_tau, VR.lorentz_deltaRapidityPhi2.k_rhophi_theta_t_rhophi_eta_tau, VS.planar_deltaphi.rhophi_rhophi_eq, VS.lorentz_rapidity.rhophi_theta_t_eq, c08_lorentz_rapidity_rhophi_eta_tau, h0, VR.P.nanToNum_eq]

theorem c08_lorentz_deltaRapidityPhi2_k_rhophi_theta_t_rhophi_theta_tau (coord11 coord12 coord13 coord14 coord21 coord22 coord23 coord24 : ℝ) (h0 : 0 ≤ coord24) :
    VS.lorentz_deltaRapidityPhi2.k_rhophi_theta_t_rhophi_theta_tau coord11 coord12 coord13 coord14 coord21 coord22 coord23 coord24 = VR.lorentz_deltaRapidityPhi2.k_rhophi_theta_t_rhophi_theta_tau coord11 coord12 coord13 coord14 coord21 coord22 coord23 coord24 := by
  simp only [VS.lorentz_deltaRapidityPhi2.k_rhophi_theta_t_rhophi_theta_tau, VR.lorentz_deltaRapidityPhi2.k_rhophi_theta_t_rhophi_theta_tau, VS.planar_deltaphi.rhophi_rhophi_eq, VS.lorentz_rapidity.rhophi_theta_t_eq, c08_lorentz_rapidity_rhophi_theta_tau, h0, VR.P.nanToNum_eq]

theorem c08_lorentz_deltaRapidityPhi2_k_rhophi_theta_t_rhophi_z_tau (coord11 coord12 coord13 coord14 coord21 coord22 coord23 coord24 : ℝ) (h0 : 0 ≤ coord24) :
    VS.lorentz_deltaRapidityPhi2.k_rhophi_theta_t_rhophi_z_tau coord11 coord12 coord13 coord14 coord21 coord22 coord23 coord24 = VR.lorentz_deltaRapidityPhi2.k_rhophi_theta_t_rhophi_z_tau coord11 coord12 coord13 coord14 coord21 coord22 coord23 coord24 := by
  simp only [VS.lorentz_deltaRapidityPhi2.k_rhophi_theta_t_rhophi_z_tau, VR.lorentz_deltaRapidityPhi2.k_rhophi_theta_t_rhophi_z_tau, VS.planar_deltaphi.rhophi_rhophi_eq, VS.lorentz_rapidity.rhophi_theta_t_eq, c08_lorentz_rapidity_rhophi_z_tau, h0, VR.P.nanToNum_eq]

theorem c08_lorentz_deltaRapidityPhi2_k_rhophi_theta_t_xy_eta_tau (coord11 coord12 coord13 coord14 coord21 coord22 coord23 coord24 : ℝ) (h0 : 0 ≤ coord24) :
    VS.lorentz_deltaRapidityPhi2.k_rhophi_theta_t_xy_eta_tau coord11 coord12 coord13 coord14 coord21 coord22 coord23 coord24 = VR.lorentz_deltaRapidityPhi2.k_rhophi_theta_t_xy_eta_tau coord11 coord12 coord13 coord14 coord21 coord22 coord23 coord24 := by
  simp only [VS.lorentz_deltaRapidityPhi2.k_rhophi_theta_t_xy_eta_tau, VR.lorentz_deltaRapidityPhi2.k_rhophi_theta_t_xy_eta_tau, VS.planar_deltaphi.rhophi_xy_eq, VS.lorentz_rapidity.rhophi_theta_t_eq, c08_lorentz_rapidity_xy_eta_tau, h0, VR.P.nanToNum_eq]

theorem c08_lorentz_deltaRapidityPhi2_k_rhophi_theta_t_xy_theta_tau (coord11 coord12 coord13 coord14 coord21 coord22 coord23 coord24 : ℝ) (h0 : 0 ≤ coord24) :
    VS.lorentz_deltaRapidityPhi2.k_rhophi_theta_t_xy_theta_tau coord11 coord12 coord13 coord14 coord21 coord22 coord23 coord24 = VR.lorentz_deltaRapidityPhi2.k_rhophi_theta_t_xy_theta_tau coord11 coord12 coord13 coord14 coord21 coord22 coord23 coord24 := by
  simp only [VS.lorentz_deltaRapidityPhi2.k_rhophi_theta_t_xy_theta_tau, VR.lorentz_deltaRapidityPhi2.k_rhophi_theta_t_xy_theta_tau, VS.planar_deltaphi.rhophi_xy_eq, VS.lorentz_rapidity.rhophi_theta_t_eq, c08_lorentz_rapidity_xy_theta_tau, h0, VR.P.nanToNum_eq]

theorem c08_lorentz_deltaRapidityPhi2_k_rhophi_theta_t_xy_z_tau (coord11 coord12 coord13 coord14 coord21 coord22 coord23 coord24 : ℝ) (h0 : 0 ≤ coord24) :
    VS.lorentz_deltaRapidityPhi2.k_rhophi_theta_t_xy_z_tau coord11 coord12 coord13 coord14 coord21 coord22 coord23 coord24 = VR.lorentz_deltaRapidityPhi2.k_rhophi_theta_t_xy_z_tau coord11 coord12 coord13 coord14 coord21 coord22 coord23 coord24 := by
  simp only [VS.lorentz_deltaRapidityPhi2.k_rhophi_theta_t_xy_z_tau, VR.lorentz_deltaRapidityPhi2.k_rhophi_theta_t_xy_z_tau, VS.planar_deltaphi.rhophi_xy_eq, VS.lorentz_rapidity.rhophi_theta_t_eq, c08_lorentz_rapidity_xy_z_tau, h0, VR.P.nanToNum_eq]

theorem c08_lorentz_deltaRapidityPhi2_k_rhophi_theta_tau_rhophi_eta_t (coord11 coord12 coord13 coord14 coord21 coord22 coord23 coord24 : ℝ) (h0 : 0 ≤ coord14) :
    VS.lorentz_deltaRapidityPhi2.k_rhophi_theta_tau_rhophi_eta_t coord11 coord12 coord13 coord14 coord21 coord22 coord23 coord24 = VR.lorentz_deltaRapidityPhi2.k_rhophi_theta_tau_rhophi_eta_t coord11 coord12 coord13 coord14 coord21 coord22 coord23 coord24 := by
  simp only [VS.lorentz_deltaRapidityPhi2.k_rhophi_theta_tau_rhophi_eta_t, VR.lorentz_deltaRapidityPhi2.k_rhophi_theta_tau_rhophi_eta_t, VS.planar_deltaphi.rhophi_rhophi_eq, c08_lorentz_rapidity_rhophi_theta_tau, VS.lorentz_rapidity.rhophi_eta_t_eq, h0, VR.P.nanToNum_eq]

theorem c08_lorentz_deltaRapidityPhi2_k_rhophi_theta_tau_rhophi_eta_tau (coord11 coord12 coord13 coord14 coord21 coord22 coord23 coord24 : ℝ) (h0 : 0 ≤ coord14) (h1 : 0 ≤ coord24) :
    VS.lorentz_deltaRapidityPhi2.k_rhophi_theta_tau_rhophi_eta_tau coord11 coord12 coord13 coord14 coord21 coord22 coord23 coord24 = VR.lorentz_deltaRapidityPhi2.k_rhophi_theta_tau_rhophi_eta_tau coord11 coord12 coord13 coord14 coord21 coord22 coord23 coord24 := by
  simp only [VS.lorentz_deltaRapidityPhi2.k_rhophi_theta_tau_rhophi_eta_tau, VR.lorentz_deltaRapidityPhi2.k_rhophi_theta_tau_rhophi_eta_tau, VS.planar_deltaphi.rhophi_rhophi_eq, c08_lorentz_rapidity_rhophi_theta_tau, c08_lorentz_rapidity_rhophi_eta_tau, h0, h1, VR.P.nanToNum_eq]

theorem c08_lorentz_deltaRapidityPhi2_k_rhophi_theta_tau_rhophi_theta_t (coord11 coord12 coord13 coord14 coord21 coord22 coord23 coord24 : ℝ) (h0 : 0 ≤ coord14) :
    VS.lorentz_deltaRapidityPhi2.k_rhophi_theta_tau_rhophi_theta_t coord11 coord12 coord13 coord14 coord21 coord22 coord23 coord24 = VR.lorentz_deltaRapidityPhi2.k_rhophi_theta_tau_rhophi_theta_t coord11 coord12 coord13 coord14 coord21 coord22 coord23 coord24 := by
  simp only [VS.lorentz_deltaRapidityPhi2.k_rhophi_theta_tau_rhophi_theta_t, VR.lorentz_deltaRapidityPhi2.k_rhophi_theta_tau_rhophi_theta_t, VS.planar_deltaphi.rhophi_rhophi_eq, c08_lorentz_rapidity_rhophi_theta_tau, VS.lorentz_rapidity.rhophi_theta_t_eq, h0, VR.P.nanToNum_eq]

theorem c08_lorentz_deltaRapidityPhi2_k_rhophi_theta_tau_rhophi_theta_tau (coord11 coord12 coord13 coord14 coord21 coord22 coord23 coord24 : ℝ) (h0 : 0 ≤ coord14) (h1 : 0 ≤ coord24) :
    VS.lorentz_deltaRapidityPhi2.k_rhophi_theta_tau_rhophi_theta_tau coord11 coord12 coord13 coord14 coord21 coord22 coord23 coord24 = VR.lorentz_deltaRapidityPhi2.k_rhophi_theta_tau_rhophi_theta_tau coord11 coord12 coord13 coord14 coord21 coord22 coord23 coord24 := by
  simp only [VS.lorentz_deltaRapidityPhi2.k_rhophi_theta_tau_rhophi_theta_tau, VR.lorentz_deltaRapidityPhi2.k_rhophi_theta_tau_rhophi_theta_tau, VS.planar_deltaphi.rhophi_rhophi_eq, c08_lorentz_rapidity_rhophi_theta_tau, h0, h1, VR.P.nanToNum_eq]

theorem c08_lorentz_deltaRapidityPhi2_k_rhophi_theta_tau_rhophi_z_t (coord11 coord12 coord13 coord14 coord21 coord22 coord23 coord24 : ℝ) (h0 : 0 ≤ coord14) :
    VS.lorentz_deltaRapidityPhi2.k_rhophi_theta_tau_rhophi_z_t coord11 coord12 coord13 coord14 coord21 coord22 coord23 coord24 = VR.lorentz_deltaRapidityPhi2.k_rhophi_theta_tau_rhophi_z_t coord11 coord12 coord13 coord14 coord21 coord22 coord23 coord24 := by
  simp only [VS.lorentz_deltaRapidityPhi2.k_rhophi_theta_tau_rhophi_z_t, VR.lorentz_deltaRapidityPhi2.k_rhophi_theta_tau_rhophi_z_t, VS.planar_deltaphi.rhophi_rhophi_eq, c08_lorentz_rapidity_rhophi_theta_tau, VS.lorentz_rapidity.rhophi_z_t_eq, h0, VR.P.nanToNum_eq]

theorem c08_lorentz_deltaRapidityPhi2_k_rhophi_theta_tau_rhophi_z_tau (coord11 coord12 coord13 coord14 coord21 coord22 coord23 coord24 : ℝ) (h0 : 0 ≤ coord14) (h1 : 0 ≤ coord24) :
    VS.lorentz_deltaRapidityPhi2.k_rhophi_theta_tau_rhophi_z_tau coord11 coord12 coord13 coord14 coord21 coord22 coord23 coord24 = VR.lorentz_deltaRapidityPhi2.k_rhophi_theta_tau_rhophi_z_tau coord11 coord12 coord13 coord14 coord21 coord22 coord23 coord24 := by
  simp only [VS.lorentz_deltaRapidityPhi2.k_rhophi_theta_tau_rhophi_z_tau, VR.lorentz_deltaRapidityPhi2.k_rhophi_theta_tau_rhophi_z_tau, VS.planar_deltaphi.rhophi_rhophi_eq, c08_lorentz_rapidity_rhophi_theta_tau, c08_lorentz_rapidity_rhophi_z_tau, h0, h1, VR.P.nanToNum_eq]

theorem c08_lorentz_deltaRapidityPhi2_k_rhophi_theta_tau_xy_eta_t (coord11 coord12 coord13 coord14 coord21 coord22 coord23 coord24 : ℝ) (h0 : 0 ≤ coord14) :
    VS.lorentz_deltaRapidityPhi2.k_rhophi_theta_tau_xy_eta_t coord11 coord12 coord13 coord14 coord21 coord22 coord23 coord24 = VR.lorentz_deltaRapidityPhi2.k_rhophi_theta_tau_xy_eta_t coord11 coord12 coord13 coord14 coord21 coord22 coord23 coord24 := by
  simp only [VS.lorentz_deltaRapidityPhi2.k_rhophi_theta_tau_xy_eta_t, VR.lorentz_deltaRapidityPhi2.k_rhophi_theta_tau_xy_eta_t, VS.planar_deltaphi.rhophi_xy_eq, c08_lorentz_rapidity_rhophi_theta_tau, VS.lorentz_rapidity.xy_eta_t_eq, h0, VR.P.nanToNum_eq]

theorem c08_lorentz_deltaRapidityPhi2_k_rhophi_theta_tau_xy_eta_tau (coord11 coord12 coord13 coord14 coord21 coord22 coord23 coord24 : ℝ) (h0 : 0 ≤ coord14) (h1 : 0 ≤ coord24) :
    VS.lorentz_deltaRapidityPhi2.k_rhophi_theta_tau_xy_eta_tau coord11 coord12 coord13 coord14 coord21 coord22 coord23 coord24 = VR.lorentz_deltaRapidityPhi2.k_rhophi_theta_tau_xy_eta_tau coord11 coord12 coord13 coord14 coord21 coord22 coord23 coord24 := by
  simp only [VS.lorentz_deltaRapidityPhi2.k_rhophi_theta_tau_xy_eta_tau, VR.lorentz_deltaRapidityPhi2.k_rhophi_theta_tau_xy_eta_tau, VS.planar_deltaphi.rhophi_xy_eq, c08_lorentz_rapidity_rhophi_theta_tau, c08_lorentz_rapidity_xy_eta_tau, h0, h1, VR.P.nanToNum_eq]

theorem c08_lorentz_deltaRapidityPhi2_k_rhophi_theta_tau_xy_theta_t (coord11 coord12 coord13 coord14 coord21 coord22 coord23 coord24 : ℝ) (h0 : 0 ≤ coord14) :
    VS.lorentz_deltaRapidityPhi2.k_rhophi_theta_tau_xy_theta_t coord11 coord12 coord13 coord14 coord21 coord22 coord23 coord24 = VR.lorentz_deltaRapidityPhi2.k_rhophi_theta_tau_xy_theta_t coord11 coord12 coord13 coord14 coord21 coord22 coord23 coord24 := by
  simp only [VS.lorentz_deltaRapidityPhi2.k_rhophi_theta_tau_xy_theta_t, VR.lorentz_deltaRapidityPhi2.k_rhophi_theta_tau_xy_theta_t, VS.planar_deltaphi.rhophi_xy_eq, c08_lorentz_rapidity_rhophi_theta_tau, VS.lorentz_rapidity.xy_theta_t_eq, h0, VR.P.nanToNum_eq]

theorem c08_lorentz_deltaRapidityPhi2_k_rhophi_theta_tau_xy_theta_tau (coord11 coord12 coord13 coord14 coord21 coord22 coord23 coord24 : ℝ) (h0 : 0 ≤ coord14) (h1 : 0 ≤ coord24) :
    VS.lorentz_deltaRapidityPhi2.k_rhophi_theta_tau_xy_theta_tau coord11 coord12 coord13 coord14 coord21 coord22 coord23 coord24 = VR.lorentz_deltaRapidityPhi2.k_rhophi_theta_tau_xy_theta_tau coord11 coord12 coord13 coord14 coord21 coord22 coord23 coord24 := by
  simp only [VS.lorentz_deltaRapidityPhi2.k_rhophi_theta_tau_xy_theta_tau, VR.lorentz_deltaRapidityPhi2.k_rhophi_theta_tau_xy_theta_tau, VS.planar_deltaphi.rhophi_xy_eq, c08_lorentz_rapidity_rhophi_theta_tau, c08_lorentz_rapidity_xy_theta_tau, h0, h1, VR.P.nanToNum_eq]

theorem c08_lorentz_deltaRapidityPhi2_k_rhophi_theta_tau_xy_z_t (coord11 coord12 coord13 coord14 coord21 coord22 coord23 coord24 : ℝ) (h0 : 0 ≤ coord14) :
    VS.lorentz_deltaRapidityPhi2.k_rhophi_theta_tau_xy_z_t coord11 coord12 coord13 coord14 coord21 coord22 coord23 coord24 = VR.lorentz_deltaRapidityPhi2.k_rhophi_theta_tau_xy_z_t coord11 coord12 coord13 coord14 coord21 coord22 coord23 coord24 := by
  simp only [VS.lorentz_deltaRapidityPhi2.k_rhophi_theta_tau_xy_z_t, VR.lorentz_deltaRapidityPhi2.k_rhophi_theta_tau_xy_z_t, VS.planar_deltaphi.rhophi_xy_eq, c08_lorentz_rapidity_rhophi_theta_tau, VS.lorentz_rapidity.xy_z_t_eq, h0, VR.P.nanToNum_eq]

theorem c08_lorentz_deltaRapidityPhi2_k_rhophi_theta_tau_xy_z_tau (coord11 coord12 coord13 coord14 coord21 coord22 coord23 coord24 : ℝ) (h0 : 0 ≤ coord14) (h1 : 0 ≤ coord24) :
    VS.lorentz_deltaRapidityPhi2.k_rhophi_theta_tau_xy_z_tau coord11 coord12 coord13 coord14 coord21 coord22 coord23 coord24 = VR.lorentz_deltaRapidityPhi2.k_rhophi_theta_tau_xy_z_tau coord11 coord12 coord13 coord14 coord21 coord22 coord23 coord24 := by
  simp only [VS.lorentz_deltaRapidityPhi2.k_rhophi_theta_tau_xy_z_tau, VR.lorentz_deltaRapidityPhi2.k_rhophi_theta_tau_xy_z_tau, VS.planar_deltaphi.rhophi_xy_eq, c08_lorentz_rapidity_rhophi_theta_tau, c08_lorentz_rapidity_xy_z_tau, h0, h1, VR.P.nanToNum_eq]

theorem c08_lorentz_deltaRapidityPhi2_k_rhophi_z_t_rhophi_eta_tau (coord11 coord12 coord13 coord14 coord21 coord22 coord23 coord24 : ℝ) (h0 : 0 ≤ coord24) :
    VS.lorentz_deltaRapidityPhi2.k_rhophi_z_t_rhophi_eta_tau coord11 coord12 coord13 coord14 coord21 coord22 coord23 coord24 = VR.lorentz_deltaRapidityPhi2.k_rhophi_z_t_rhophi_eta_tau coord11 coord12 coord13 coord14 coord21 coord22 coord23 coord24 := by
  simp only [VS.lorentz_deltaRapidityPhi2.k_rhophi_z_t_rhophi_eta_tau, VR.lorentz_deltaRapidityPhi2.k_rhophi_z_t_rhophi_eta_tau, VS.planar_deltaphi.rhophi_rhophi_eq, VS.lorentz_rapidity.rhophi_z_t_eq, c08_lorentz_rapidity_rhophi_eta_tau, h0, VR.P.nanToNum_eq]

theorem c08_lorentz_deltaRapidityPhi2_k_rhophi_z_t_rhophi_theta_tau (coord11 coord12 coord13 coord14 coord21 coord22 coord23 coord24 : ℝ) (h0 : 0 ≤ coord24) :
    VS.lorentz_deltaRapidityPhi2.k_rhophi_z_t_rhophi_theta_tau coord11 coord12 coord13 coord14 coord21 coord22 coord23 coord24 = VR.lorentz_deltaRapidityPhi2.k_rhophi_z_t_rhophi_theta_tau coord11 coord12 coord13 coord14 coord21 coord22 coord23 coord24 := by
  simp only [VS.lorentz_deltaRapidityPhi2.k_rhophi_z_t_rhophi_theta_tau, VR.lorentz_deltaRapidityPhi2.k_rhophi_z_t_rhophi_theta_tau, VS.planar_deltaphi.rhophi_rhophi_eq, VS.lorentz_rapidity.rhophi_z_t_eq, c08_lorentz_rapidity_rhophi_theta_tau, h0, VR.P.nanToNum_eq]

theorem c08_lorentz_deltaRapidityPhi2_k_rhophi_z_t_rhophi_z_tau (coord11 coord12 coord13 coord14 coord21 coord22 coord23 coord24 : ℝ) (h0 : 0 ≤ coord24) :
    VS.lorentz_deltaRapidityPhi2.k_rhophi_z_t_rhophi_z_tau coord11 coord12 coord13 coord14 coord21 coord22 coord23 coord24 = VR.lorentz_deltaRapidityPhi2.k_rhophi_z_t_rhophi_z_tau coord11 coord12 coord13 coord14 coord21 coord22 coord23 coord24 := by
  simp only [VS.lorentz_deltaRapidityPhi2.k_rhophi_z_t_rhophi_z_tau, VR.lorentz_deltaRapidityPhi2.k_rhophi_z_t_rhophi_z_tau, VS.planar_deltaphi.rhophi_rhophi_eq, VS.lorentz_rapidity.rhophi_z_t_eq, c08_lorentz_rapidity_rhophi_z_tau, h0, VR.P.nanToNum_eq]

theorem c08_lorentz_deltaRapidityPhi2_k_rhophi_z_t_xy_eta_tau (coord11 coord12 coord13 coord14 coord21 coord22 coord23 coord24 : ℝ) (h0 : 0 ≤ coord24) :
    VS.lorentz_deltaRapidityPhi2.k_rhophi_z_t_xy_eta_tau coord11 coord12 coord13 coord14 coord21 coord22 coord23 coord24 = VR.lorentz_deltaRapidityPhi2.k_rhophi_z_t_xy_eta_tau coord11 coord12 coord13 coord14 coord21 coord22 coord23 coord24 := by
  simp only [VS.lorentz_deltaRapidityPhi2.k_rhophi_z_t_xy_eta_tau, VR.lorentz_deltaRapidityPhi2.k_rhophi_z_t_xy_eta_tau, VS.planar_deltaphi.rhophi_xy_eq, VS.lorentz_rapidity.rhophi_z_t_eq, c08_lorentz_rapidity_xy_eta_tau, h0, VR.P.nanToNum_eq]

theorem c08_lorentz_deltaRapidityPhi2_k_rhophi_z_t_xy_theta_tau (coord11 coord12 coord13 coord14 coord21 coord22 coord23 coord24 : ℝ) (h0 : 0 ≤ coord24) :
    VS.lorentz_deltaRapidityPhi2.k_rhophi_z_t_xy_theta_tau coord11 coord12 coord13 coord14 coord21 coord22 coord23 coord24 = VR.lorentz_deltaRapidityPhi2.k_rhophi_z_t_xy_theta_tau coord11 coord12 coord13 coord14 coord21 coord22 coord23 coord24 := by
  simp only [VS.lorentz_deltaRapidityPhi2.k_rhophi_z_t_xy_theta_tau, VR.lorentz_deltaRapidityPhi2.k_rhophi_z_t_xy_theta_tau, VS.planar_deltaphi.rhophi_xy_eq, VS.lorentz_rapidity.rhophi_z_t_eq, c08_lorentz_rapidity_xy_theta_tau, h0, VR.P.nanToNum_eq]

theorem c08_lorentz_deltaRapidityPhi2_k_rhophi_z_t_xy_z_tau (coord11 coord12 coord13 coord14 coord21 coord22 coord23 coord24 : ℝ) (h0 : 0 ≤ coord24) :
    VS.lorentz_deltaRapidityPhi2.k_rhophi_z_t_xy_z_tau coord11 coord12 coord13 coord14 coord21 coord22 coord23 coord24 = VR.lorentz_deltaRapidityPhi2.k_rhophi_z_t_xy_z_tau coord11 coord12 coord13 coord14 coord21 coord22 coord23 coord24 := by
  simp only [VS.lorentz_deltaRapidityPhi2.k_rhophi_z_t_xy_z_tau, VR.lorentz_deltaRapidityPhi2.k_rhophi_z_t_xy_z_tau, VS.planar_deltaphi.rhophi_xy_eq, VS.lorentz_rapidity.rhophi_z_t_eq, c08_lorentz_rapidity_xy_z_tau, h0, VR.P.nanToNum_eq]

theorem c08_lorentz_deltaRapidityPhi2_k_rhophi_z_tau_rhophi_eta_t (coord11 coord12 coord13 coord14 coord21 coord22 coord23 coord24 : ℝ) (h0 : 0 ≤ coord14) :
    VS.lorentz_deltaRapidityPhi2.k_rhophi_z_tau_rhophi_eta_t coord11 coord12 coord13 coord14 coord21 coord22 coord23 coord24 = VR.lorentz_deltaRapidityPhi2.k_rhophi_z_tau_rhophi_eta_t coord11 coord12 coord13 coord14 coord21 coord22 coord23 coord24 := by
  simp only [VS.lorentz_deltaRapidityPhi2.k_rhophi_z_tau_rhophi_eta_t, VR.lorentz_deltaRapidityPhi2.k_rhophi_z_tau_rhophi_eta_t, VS.planar_deltaphi.rhophi_rhophi_eq, c08_lorentz_rapidity_rhophi_z_tau, VS.lorentz_rapidity.rhophi_eta_t_eq, h0, VR.P.nanToNum_eq]

theorem c08_lorentz_deltaRapidityPhi2_k_rhophi_z_tau_rhophi_eta_tau (coord11 coord12 coord13 coord14 coord21 coord22 coord23 coord24 : ℝ) (h0 : 0 ≤ coord14) (h1 : 0 ≤ coord24) :
    VS.lorentz_deltaRapidityPhi2.k_rhophi_z_tau_rhophi_eta_tau coord11 coord12 coord13 coord14 coord21 coord22 coord23 coord24 = VR.lorentz_deltaRapidityPhi2.k_rhophi_z_tau_rhophi_eta_tau coord11 coord12 coord13 coord14 coord21 coord22 coord23 coord24 := by
  simp only [VS.lorentz_deltaRapidityPhi2.k_rhophi_z_tau_rhophi_eta_tau, VR.lorentz_deltaRapidityPhi2.k_rhophi_z_tau_rhophi_eta_tau, VS.planar_deltaphi.rhophi_rhophi_eq, c08_lorentz_rapidity_rhophi_z_tau, c08_lorentz_rapidity_rhophi_eta_tau, h0, h1, VR.P.nanToNum_eq]

theorem c08_lorentz_deltaRapidityPhi2_k_rhophi_z_tau_rhophi_theta_t (coord11 coord12 coord13 coord14 coord21 coord22 coord23 coord24 : ℝ) (h0 : 0 ≤ coord14) :
    VS.lorentz_deltaRapidityPhi2.k_rhophi_z_tau_rhophi_theta_t coord11 coord12 coord13 coord14 coord21 coord22 coord23 coord24 = VR.lorentz_deltaRapidityPhi2.k_rhophi_z_tau_rhophi_theta_t coord11 coord12 coord13 coord14 coord21 coord22 coord23 coord24 := by
  simp only [VS.lorentz_deltaRapidityPhi2.k_rhophi_z_tau_rhophi_theta_t, VR.lorentz_deltaRapidityPhi2.k_rhophi_z_tau_rhophi_theta_t, VS.planar_deltaphi.rhophi_rhophi_eq, c08_lorentz_rapidity_rhophi_z_tau, VS.lorentz_rapidity.rhophi_theta_t_eq, h0, VR.P.nanToNum_eq]

theorem c08_lorentz_deltaRapidityPhi2_k_rhophi_z_tau_rhophi_theta_tau (coord11 coord12 coord13 coord14 coord21 coord22 coord23 coord24 : ℝ) (h0 : 0 ≤ coord14) (h1 : 0 ≤ coord24) :
    VS.lorentz_deltaRapidityPhi2.k_rhophi_z_tau_rhophi_theta_tau coord11 coord12 coord13 coord14 coord21 coord22 coord23 coord24 = VR.lorentz_deltaRapidityPhi2.k_rhophi_z_tau_rhophi_theta_tau coord11 coord12 coord13 coord14 coord21 coord22 coord23 coord24 := by
  simp only [VS.lorentz_deltaRapidityPhi2.k_rhophi_z_tau_rhophi_theta_tau, VR.lorentz_deltaRapidityPhi2.k_rhophi_z_tau_rhophi_theta_tau, VS.planar_deltaphi.rhophi_rhophi_eq, c08_lorentz_rapidity_rhophi_z_tau, c08_lorentz_rapidity_rhophi_theta_tau, h0, h1, VR.P.nanToNum_eq]

theorem c08_lorentz_deltaRapidityPhi2_k_rhophi_z_tau_rhophi_z_t (coord11 coord12 coord13 coord14 coord21 coord22 coord23 coord24 : ℝ) (h0 : 0 ≤ coord14) :
    VS.lorentz_deltaRapidityPhi2.k_rhophi_z_tau_rhophi_z_t coord11 coord12 coord13 coord14 coord21 coord22 coord23 coord24 = VR.lorentz_deltaRapidityPhi2.k_rhophi_z_tau_rhophi_z_t coord11 coord12 coord13 coord14 coord21 coord22 coord23 coord24 := by
  simp only [VS.lorentz_deltaRapidityPhi2.k_rhophi_z_tau_rhophi_z_t, VR.lorentz_deltaRapidityPhi2.k_rhophi_z_tau_rhophi_z_t, VS.planar_deltaphi.rhophi_rhophi_eq, c08_lorentz_rapidity_rhophi_z_tau, VS.lorentz_rapidity.rhophi_z_t_eq, h0, VR.P.nanToNum_eq]

theorem c08_lorentz_deltaRapidityPhi2_k_rhophi_z_tau_rhophi_z_tau (coord11 coord12 coord13 coord14 coord21 coord22 coord23 coord24 : ℝ) (h0 : 0 ≤ coord14) (h1 : 0 ≤ coord24) :
    VS.lorentz_deltaRapidityPhi2.k_rhophi_z_tau_rhophi_z_tau coord11 coord12 coord13 coord14 coord21 coord22 coord23 coord24 = VR.lorentz_deltaRapidityPhi2.k_rhophi_z_tau_rhophi_z_tau coord11 coord12 coord13 coord14 coord21 coord22 coord23 coord24 := by
  simp only [VS.lorentz_deltaRapidityPhi2.k_rhophi_z_tau_rhophi_z_tau, VR.lorentz_deltaRapidityPhi2.k_rhophi_z_tau_rhophi_z_tau, VS.planar_deltaphi.rhophi_rhophi_eq, c08_lorentz_rapidity_rhophi_z_tau, h0, h1, VR.P.nanToNum_eq]

theorem c08_lorentz_deltaRapidityPhi2_k_rhophi_z_tau_xy_eta_t (coord11 coord12 coord13 coord14 coord21 coord22 coord23 coord24 : ℝ) (h0 : 0 ≤ coord14) :
    VS.lorentz_deltaRapidityPhi2.k_rhophi_z_tau_xy_eta_t coord11 coord12 coord13 coord14 coord21 coord22 coord23 coord24 = VR.lorentz_deltaRapidityPhi2.k_rhophi_z_tau_xy_eta_t coord11 coord12 coord13 coord14 coord21 coord22 coord23 coord24 := by
  simp only [VS.lorentz_deltaRapidityPhi2.k_rhophi_z_tau_xy_eta_t, VR.lorentz_deltaRapidityPhi2.k_rhophi_z_tau_xy_eta_t, VS.planar_deltaphi.rhophi_xy_eq, c08_lorentz_rapidity_rhophi_z_tau, VS.lorentz_rapidity.xy_eta_t_eq, h0, VR.P.nanToNum_eq]

theorem c08_lorentz_deltaRapidityPhi2_k_rhophi_z_tau_xy_eta_tau (coord11 coord12 coord13 coord14 coord21 coord22 coord23 coord24 : ℝ) (h0 : 0 ≤ coord14) (h1 : 0 ≤ coord24) :
    VS.lorentz_deltaRapidityPhi2.k_rhophi_z_tau_xy_eta_tau coord11 coord12 coord13 coord14 coord21 coord22 coord23 coord24 = VR.lorentz_deltaRapidityPhi2.k_rhophi_z_tau_xy_eta_tau coord11 coord12 coord13 coord14 coord21 coord22 coord23 coord24 := by
  simp only [VS.lorentz_deltaRapidityPhi2.k_rhophi_z_tau_xy_eta_tau, VR.lorentz_deltaRapidityPhi2.k_rhophi_z_tau_xy_eta_tau, VS.planar_deltaphi.rhophi_xy_eq, c08_lorentz_rapidity_rhophi_z_tau, c08_lorentz_rapidity_xy_eta_tau, h0, h1, VR.P.nanToNum_eq]

theorem c08_lorentz_deltaRapidityPhi2_k_rhophi_z_tau_xy_theta_t (coord11 coord12 coord13 coord14 coord21 coord22 coord23 coord24 : ℝ) (h0 : 0 ≤ coord14) :
    VS.lorentz_deltaRapidityPhi2.k_rhophi_z_tau_xy_theta_t coord11 coord12 coord13 coord14 coord21 coord22 coord23 coord24 = VR.lorentz_deltaRapidityPhi2.k_rhophi_z_tau_xy_theta_t coord11 coord12 coord13 coord14 coord21 coord22 coord23 coord24 := by
  simp only [VS.lorentz_deltaRapidityPhi2.k_rhophi_z_tau_xy_theta_t, VR.lorentz_deltaRapidityPhi2.k_rhophi_z_tau_xy_theta_t, VS.planar_deltaphi.rhophi_xy_eq, c08_lorentz_rapidity_rhophi_z_tau, VS.lorentz_rapidity.xy_theta_t_eq, h0, VR.P.nanToNum_eq]

theorem c08_lorentz_deltaRapidityPhi2_k_rhophi_z_tau_xy_theta_tau (coord11 coord12 coord13 coord14 coord21 coord22 coord23 coord24 : ℝ) (h0 : 0 ≤ coord14) (h1 : 0 ≤ coord24) :
    VS.lorentz_deltaRapidityPhi2.k_rhophi_z_tau_xy_theta_tau coord11 coord12 coord13 coord14 coord21 coord22 coord23 coord24 = VR.lorentz_deltaRapidityPhi2.k_rhophi_z_tau_xy_theta_tau coord11 coord12 coord13 coord14 coord21 coord22 coord23 coord24 := by
  simp only [VS.lorentz_deltaRapidityPhi2.k_rhophi_z_tau_xy_theta_tau, VR.lorentz_deltaRapidityPhi2.k_rhophi_z_tau_xy_theta_tau, VS.planar_deltaphi.rhophi_xy_eq, c08_lorentz_rapidity_rhophi_z_tau, c08_lorentz_rapidity_xy_theta_tau, h0, h1, VR.P.nanToNum_eq]

theorem c08_lorentz_deltaRapidityPhi2_k_rhophi_z_tau_xy_z_t (coord11 coord12 coord13 coord14 coord21 coord22 coord23 coord24 : ℝ) (h0 : 0 ≤ coord14) :
    VS.lorentz_deltaRapidityPhi2.k_rhophi_z_tau_xy_z_t coord11 coord12 coord13 coord14 coord21 coord22 coord23 coord24 = VR.lorentz_deltaRapidityPhi2.k_rhophi_z_tau_xy_z_t coord11 coord12 coord13 coord14 coord21 coord22 coord23 coord24 := by
  simp only [VS.lorentz_deltaRapidityPhi2.k_rhophi_z_tau_xy_z_t, VR.lorentz_deltaRapidityPhi2.k_rhophi_z_tau_xy_z_t, VS.planar_deltaphi.rhophi_xy_eq, c08_lorentz_rapidity_rhophi_z_tau, VS.lorentz_rapidity.xy_z_t_eq, h0, VR.P.nanToNum_eq]

theorem c08_lorentz_deltaRapidityPhi2_k_rhophi_z_tau_xy_z_tau (coord11 coord12 coord13 coord14 coord21 coord22 coord23 coord24 : ℝ) (h0 : 0 ≤ coord14) (h1 : 0 ≤ coord24) :
    VS.lorentz_deltaRapidityPhi2.k_rhophi_z_tau_xy_z_tau coord11 coord12 coord13 coord14 coord21 coord22 coord23 coord24 = VR.lorentz_deltaRapidityPhi2.k_rhophi_z_tau_xy_z_tau coord11 coord12 coord13 coord14 coord21 coord22 coord23 coord24 := by
  simp only [VS.lorentz_deltaRapidityPhi2.k_rhophi_z_tau_xy_z_tau, VR.lorentz_deltaRapidityPhi2.k_rhophi_z_tau_xy_z_tau, VS.planar_deltaphi.rhophi_xy_eq, c08_lorentz_rapidity_rhophi_z_tau, c08_lorentz_rapidity_xy_z_tau, h0, h1, VR.P.nanToNum_eq]

theorem c08_lorentz_deltaRapidityPhi2_k_xy_eta_t_rhophi_eta_tau (coord11 coord12 coord13 coord14 coord21 coord22 coord23 coord24 : ℝ) (h0 : 0 ≤ coord24) :
    VS.lorentz_deltaRapidityPhi2.k_xy_eta_t_rhophi_eta_tau coord11 coord12 coord13 coord14 coord21 coord22 coord23 coord24 = VR.lorentz_deltaRapidityPhi2.k_xy_eta_t_rhophi_eta_tau coord11 coord12 coord13 coord14 coord21 coord22 coord23 coord24 := by
  simp only [VS.lorentz_deltaRapidityPhi2.k_xy_eta_t_rhophi_eta_tau, VR.lorentz_deltaRapidityPhi2.k_xy_eta_t_rhophi_eta_tau, VS.planar_deltaphi.xy_rhophi_eq, VS.lorentz_rapidity.xy_eta_t_eq, c08_lorentz_rapidity_rhophi_eta_tau, h0, VR.P.nanToNum_eq]

theorem c08_lorentz_deltaRapidityPhi2_k_xy_eta_t_rhophi_theta_tau (coord11 coord12 coord13 coord14 coord21 coord22 coord23 coord24 : ℝ) (h0 : 0 ≤ coord24) :
    VS.lorentz_deltaRapidityPhi2.k_xy_eta_t_rhophi_theta_tau coord11 coord12 coord13 coord14 coord21 coord22 coord23 coord24 = VR.lorentz_deltaRapidityPhi2.k_xy_eta_t_rhophi_theta_tau coord11 coord12 coord13 coord14 coord21 coord22 coord23 coord24 := by
  simp only [VS.lorentz_deltaRapidityPhi2.k_xy_eta_t_rhophi_theta_tau, VR.lorentz_deltaRapidityPhi2.k_xy_eta_t_rhophi_theta_tau, VS.planar_deltaphi.xy_rhophi_eq, VS.lorentz_rapidity.xy_eta_t_eq, c08_lorentz_rapidity_rhophi_theta_tau, h0, VR.P.nanToNum_eq]

theorem c08_lorentz_deltaRapidityPhi2_k_xy_eta_t_rhophi_z_tau (coord11 coord12 coord13 coord14 coord21 coord22 coord23 coord24 : ℝ) (h0 : 0 ≤ coord24) :
    VS.lorentz_deltaRapidityPhi2.k_xy_eta_t_rhophi_z_tau coord11 coord12 coord13 coord14 coord21 coord22 coord23 coord24 = VR.lorentz_deltaRapidityPhi2.k_xy_eta_t_rhophi_z_tau coord11 coord12 coord13 coord14 coord21 coord22 coord23 coord24 := by
  simp only [VS.lorentz_deltaRapidityPhi2.k_xy_eta_t_rhophi_z_tau, VR.lorentz_deltaRapidityPhi2.k_xy_eta_t_rhophi_z_tau, VS.planar_deltaphi.xy_rhophi_eq, VS.lorentz_rapidity.xy_eta_t_eq, c08_lorentz_rapidity_rhophi_z_tau, h0, VR.P.nanToNum_eq]

theorem c08_lorentz_deltaRapidityPhi2_k_xy_eta_t_xy_eta_tau (coord11 coord12 coord13 coord14 coord21 coord22 coord23 coord24 : ℝ) (h0 : 0 ≤ coord24) :
    VS.lorentz_deltaRapidityPhi2.k_xy_eta_t_xy_eta_tau coord11 coord12 coord13 coord14 coord21 coord22 coord23 coord24 = VR.lorentz_deltaRapidityPhi2.k_xy_eta_t_xy_eta_tau coord11 coord12 coord13 coord14 coord21 coord22 coord23 coord24 := by
  simp only [VS.lorentz_deltaRapidityPhi2.k_xy_eta_t_xy_eta_tau, VR.lorentz_deltaRapidityPhi2.k_xy_eta_t_xy_eta_tau, VS.planar_deltaphi.xy_xy_eq, VS.lorentz_rapidity.xy_eta_t_eq, c08_lorentz_rapidity_xy_eta_tau, h0, VR.P.nanToNum_eq]

theorem c08_lorentz_deltaRapidityPhi2_k_xy_eta_t_xy_theta_tau (coord11 coord12 coord13 coord14 coord21 coord22 coord23 coord24 : ℝ) (h0 : 0 ≤ coord24) :
    VS.lorentz_deltaRapidityPhi2.k_xy_eta_t_xy_theta_tau coord11 coord12 coord13 coord14 coord21 coord22 coord23 coord24 = VR.lorentz_deltaRapidityPhi2.k_xy_eta_t_xy_theta_tau coord11 coord12 coord13 coord14 coord21 coord22 coord23 coord24 := by
  simp only [VS.lorentz_deltaRapidityPhi2.k_xy_eta_t_xy_theta_tau, VR.lorentz_deltaRapidityPhi2.k_xy_eta_t_xy_theta_tau, VS.planar_deltaphi.xy_xy_eq, VS.lorentz_rapidity.xy_eta_t_eq, c08_lorentz_rapidity_xy_theta_tau, h0, VR.P.nanToNum_eq]

theorem c08_lorentz_deltaRapidityPhi2_k_xy_eta_t_xy_z_tau (coord11 coord12 coord13 coord14 coord21 coord22 coord23 coord24 : ℝ) (h0 : 0 ≤ coord24) :
    VS.lorentz_deltaRapidityPhi2.k_xy_eta_t_xy_z_tau coord11 coord12 coord13 coord14 coord21 coord22 coord23 coord24 = VR.lorentz_deltaRapidityPhi2.k_xy_eta_t_xy_z_tau coord11 coord12 coord13 coord14 coord21 coord22 coord23 coord24 := by
  simp only [VS.lorentz_deltaRapidityPhi2.k_xy_eta_t_xy_z_tau, VR.lorentz_deltaRapidityPhi2.k_xy_eta_t_xy_z_tau, VS.planar_deltaphi.xy_xy_eq, VS.lorentz_rapidity.xy_eta_t_eq, c08_lorentz_rapidity_xy_z_tau, h0, VR.P.nanToNum_eq]

theorem c08_lorentz_deltaRapidityPhi2_k_xy_eta_tau_rhophi_eta_t (coord11 coord12 coord13 coord14 coord21 coord22 coord23 coord24 : ℝ) (h0 : 0 ≤ coord14) :
    VS.lorentz_deltaRapidityPhi2.k_xy_eta_tau_rhophi_eta_t coord11 coord12 coord13 coord14 coord21 coord22 coord23 coord24 = VR.lorentz_deltaRapidityPhi2.k_xy_eta_tau_rhophi_eta_t coord11 coord12 coord13 coord14 coord21 coord22 coord23 coord24 := by
  simp only [VS.lorentz_deltaRapidityPhi2.k_xy_eta_tau_rhophi_eta_t, VR.lorentz_deltaRapidityPhi2.k_xy_eta_tau_rhophi_eta_t, VS.planar_deltaphi.xy_rhophi_eq, c08_lorentz_rapidity_xy_eta_tau, VS.lorentz_rapidity.rhophi_eta_t_eq, h0, VR.P.nanToNum_eq]

theorem c08_lorentz_deltaRapidityPhi2_k_xy_eta_tau_rhophi_eta_tau (coord11 coord12 coord13 coord14 coord21 coord22 coord23 coord24 : ℝ) (h0 : 0 ≤ coord14) (h1 : 0 ≤ coord24) :
    VS.lorentz_deltaRapidityPhi2.k_xy_eta_tau_rhophi_eta_tau coord11 coord12 coord13 coord14 coord21 coord22 coord23 coord24 = VR.lorentz_deltaRapidityPhi2.k_xy_eta_tau_rhophi_eta_tau coord11 coord12 coord13 coord14 coord21 coord22 coord23 coord24 := by
  simp only [VS.lorentz_deltaRapidityPhi2.k_xy_eta_tau_rhophi_eta_tau, VR.lorentz_deltaRapidityPhi2.k_xy_eta_tau_rhophi_eta_tau, VS.planar_deltaphi.xy_rhophi_eq, c08_lorentz_rapidity_xy_eta_tau, c08_lorentz_rapidity_rhophi_eta_tau, h0, h1, VR.P.nanToNum_eq]

theorem c08_lorentz_deltaRapidityPhi2_k_xy_eta_tau_rhophi_theta_t (coord11 coord12 coord13 coord14 coord21 coord22 coord23 coord24 : ℝ) (h0 : 0 ≤ coord14) :
    VS.lorentz_deltaRapidityPhi2.k_xy_eta_tau_rhophi_theta_t coord11 coord12 coord13 coord14 coord21 coord22 coord23 coord24 = VR.lorentz_deltaRapidityPhi2.k_xy_eta_tau_rhophi_theta_t coord11 coord12 coord13 coord14 coord21 coord22 coord23 coord24 := by
  simp only [VS.lorentz_deltaRapidityPhi2.k_xy_eta_tau_rhophi_theta_t, VR.lorentz_deltaRapidityPhi2.k_xy_eta_tau_rhophi_theta_t, VS.planar_deltaphi.xy_rhophi_eq, c08_lorentz_rapidity_xy_eta_tau, VS.lorentz_rapidity.rhophi_theta_t_eq, h0, VR.P.nanToNum_eq]

theorem c08_lorentz_deltaRapidityPhi2_k_xy_eta_tau_rhophi_theta_tau (coord11 coord12 coord13 coord14 coord21 coord22 coord23 coord24 : ℝ) (h0 : 0 ≤ coord14) (h1 : 0 ≤ coord24) :
    VS.lorentz_deltaRapidityPhi2.k_xy_eta_tau_rhophi_theta_tau coord11 coord12 coord13 coord14 coord21 coord22 coord23 coord24 = VR.lorentz_deltaRapidityPhi2.k_xy_eta_tau_rhophi_theta_tau coord11 coord12 coord13 coord14 coord21 coord22 coord23 coord24 := by
  simp only [VS.lorentz_deltaRapidityPhi2.k_xy_eta_tau_rhophi_theta_tau, VR.lorentz_deltaRapidityPhi2.k_xy_eta_tau_rhophi_theta_tau, VS.planar_deltaphi.xy_rhophi_eq, c08_lorentz_rapidity_xy_eta_tau, c08_lorentz_rapidity_rhophi_theta_tau, h0, h1, VR.P.nanToNum_eq]

theorem c08_lorentz_deltaRapidityPhi2_k_xy_eta_tau_rhophi_z_t (coord11 coord12 coord13 coord14 coord21 coord22 coord23 coord24 : ℝ) (h0 : 0 ≤ coord14) :
    VS.lorentz_deltaRapidityPhi2.k_xy_eta_tau_rhophi_z_t coord11 coord12 coord13 coord14 coord21 coord22 coord23 coord24 = VR.lorentz_deltaRapidityPhi2.k_xy_eta_tau_rhophi_z_t coord11 coord12 coord13 coord14 coord21 coord22 coord23 coord24 := by
  simp only [VS.lorentz_deltaRapidityPhi2.k_xy_eta_tau_rhophi_z_t, VR.lorentz_deltaRapidityPhi2.k_xy_eta_tau_rhophi_z_t, VS.planar_deltaphi.xy_rhophi_eq, c08_lorentz_rapidity_xy_eta_tau, VS.lorentz_rapidity.rhophi_z_t_eq, h0, VR.P.nanToNum_eq]

theorem c08_lorentz_deltaRapidityPhi2_k_xy_eta_tau_rhophi_z_tau (coord11 coord12 coord13 coord14 coord21 coord22 coord23 coord24 : ℝ) (h0 : 0 ≤ coord14) (h1 : 0 ≤ coord24) :
    VS.lorentz_deltaRapidityPhi2.k_xy_eta_tau_rhophi_z_tau coord11 coord12 coord13 coord14 coord21 coord22 coord23 coord24 = VR.lorentz_deltaRapidityPhi2.k_xy_eta_tau_rhophi_z_tau coord11 coord12 coord13 coord14 coord21 coord22 coord23 coord24 := by
  simp only [VS.lorentz_deltaRapidityPhi2.k_xy_eta_tau_rhophi_z_tau, VR.lorentz_deltaRapidityPhi2.k_xy_eta_tau_rhophi_z_tau, VS.planar_deltaphi.xy_rhophi_eq, c08_lorentz_rapidity_xy_eta_tau, c08_lorentz_rapidity_rhophi_z_tau, h0, h1, VR.P.nanToNum_eq]

theorem c08_lorentz_deltaRapidityPhi2_k_xy_eta_tau_xy_eta_t (coord11 coord12 coord13 coord14 coord21 coord22 coord23 coord24 : ℝ) (h0 : 0 ≤ coord14) :
    VS.lorentz_deltaRapidityPhi2.k_xy_eta_tau_xy_eta_t coord11 coord12 coord13 coord14 coord21 coord22 coord23 coord24 = VR.lorentz_deltaRapidityPhi2.k_xy_eta_tau_xy_eta_t coord11 coord12 coord13 coord14 coord21 coord22 coord23 coord24 := by
  simp only [VS.lorentz_deltaRapidityPhi2.k_xy_eta_tau_xy_eta_t, VR.lorentz_deltaRapidityPhi2.k_xy_eta_tau_xy_eta_t, VS.planar_deltaphi.xy_xy_eq, c08_lorentz_rapidity_xy_eta_tau, VS.lorentz_rapidity.xy_eta_t_eq, h0, VR.P.nanToNum_eq]

theorem c08_lorentz_deltaRapidityPhi2_k_xy_eta_tau_xy_eta_tau (coord11 coord12 coord13 coord14 coord21 coord22 coord23 coord24 : ℝ) (h0 : 0 ≤ coord14) (h1 : 0 ≤ coord24) :
    VS.lorentz_deltaRapidityPhi2.k_xy_eta_tau_xy_eta_tau coord11 coord12 coord13 coord14 coord21 coord22 coord23 coord24 = VR.lorentz_deltaRapidityPhi2.k_xy_eta_tau_xy_eta_tau coord11 coord12 coord13 coord14 coord21 coord22 coord23 coord24 := by
  simp only [VS.lorentz_deltaRapidityPhi2.k_xy_eta_tau_xy_eta_tau, VR.lorentz_deltaRapidityPhi2.k_xy_eta_tau_xy_eta_tau, VS.planar_deltaphi.xy_xy_eq, c08_lorentz_rapidity_xy_eta_tau, h0, h1, VR.P.nanToNum_eq]

theorem c08_lorentz_deltaRapidityPhi2_k_xy_eta_tau_xy_theta_t (coord11 coord12 coord13 coord14 coord21 coord22 coord23 coord24 : ℝ) (h0 : 0 ≤ coord14) :
    VS.lorentz_deltaRapidityPhi2.k_xy_eta_tau_xy_theta_t coord11 coord12 coord13 coord14 coord21 coord22 coord23 coord24 = VR.lorentz_deltaRapidityPhi2.k_xy_eta_tau_xy_theta_t coord11 coord12 coord13 coord14 coord21 coord22 coord23 coord24 := by
  simp only [VS.lorentz_deltaRapidityPhi2.k_xy_eta_tau_xy_theta_t, VR.lorentz_deltaRapidityPhi2.k_xy_eta_tau_xy_theta_t, VS.planar_deltaphi.xy_xy_eq, c08_lorentz_rapidity_xy_eta_tau, VS.lorentz_rapidity.xy_theta_t_eq, h0, VR.P.nanToNum_eq]

theorem c08_lorentz_deltaRapidityPhi2_k_xy_eta_tau_xy_theta_tau (coord11 coord12 coord13 coord14 coord21 coord22 coord23 coord24 : ℝ) (h0 : 0 ≤ coord14) (h1 : 0 ≤ coord24) :
    VS.lorentz_deltaRapidityPhi2.k_xy_eta_tau_xy_theta_tau coord11 coord12 coord13 coord14 coord21 coord22 coord23 coord24 = VR.lorentz_deltaRapidityPhi2.k_xy_eta_tau_xy_theta_tau coord11 coord12 coord13 coord14 coord21 coord22 coord23 coord24 := by
  simp only [VS.lorentz_deltaRapidityPhi2.k_xy_eta_tau_xy_theta_tau, VR.lorentz_deltaRapidityPhi2.k_xy_eta_tau_xy_theta_tau, VS.planar_deltaphi.xy_xy_eq, c08_lorentz_rapidity_xy_eta_tau, c08_lorentz_rapidity_xy_theta_tau, h0, h1, VR.P.nanToNum_eq]

theorem c08_lorentz_deltaRapidityPhi2_k_xy_eta_tau_xy_z_t (coord11 coord12 coord13 coord14 coord21 coord22 coord23 coord24 : ℝ) (h0 : 0 ≤ coord14) :
    VS.lorentz_deltaRapidityPhi2.k_xy_eta_tau_xy_z_t coord11 coord12 coord13 coord14 coord21 coord22 coord23 coord24 = VR.lorentz_deltaRapidityPhi2.k_xy_eta_tau_xy_z_t coord11 coord12 coord13 coord14 coord21 coord22 coord23 coord24 := by
  simp only [VS.lorentz_deltaRapidityPhi2.k_xy_eta_tau_xy_z_t, VR.lorentz_deltaRapidityPhi2.k_xy_eta_tau_xy_z_t, VS.planar_deltaphi.xy_xy_eq, c08_lorentz_rapidity_xy_eta_tau, VS.lorentz_rapidity.xy_z_t_eq, h0, VR.P.nanToNum_eq]

theorem c08_lorentz_deltaRapidityPhi2_k_xy_eta_tau_xy_z_tau (coord11 coord12 coord13 coord14 coord21 coord22 coord23 coord24 : ℝ) (h0 : 0 ≤ coord14) (h1 : 0 ≤ coord24) :
    VS.lorentz_deltaRapidityPhi2.k_xy_eta_tau_xy_z_tau coord11 coord12 coord13 coord14 coord21 coord22 coord23 coord24 = VR.lorentz_deltaRapidityPhi2.k_xy_eta_tau_xy_z_tau coord11 coord12 coord13 coord14 coord21 coord22 coord23 coord24 := by
  simp only [VS.lorentz_deltaRapidityPhi2.k_xy_eta_tau_xy_z_tau, VR.lorentz_deltaRapidityPhi2.k_xy_eta_tau_xy_z_tau, VS.planar_deltaphi.xy_xy_eq, c08_lorentz_rapidity_xy_eta_tau, c08_lorentz_rapidity_xy_z_tau, h0, h1, VR.P.nanToNum_eq]

theorem c08_lorentz_deltaRapidityPhi2_k_xy_theta_t_rhophi_eta_tau (coord11 coord12 coord13 coord14 coord21 coord22 coord23 coord24 : ℝ) (h0 : 0 ≤ coord24) :
    VS.lorentz_deltaRapidityPhi2.k_xy_theta_t_rhophi_eta_tau coord11 coord12 coord13 coord14 coord21 coord22 coord23 coord24 = VR.lorentz_deltaRapidityPhi2.k_xy_theta_t_rhophi_eta_tau coord11 coord12 coord13 coord14 coord21 coord22 coord23 coord24 := by
  simp only [VS.lorentz_deltaRapidityPhi2.k_xy_theta_t_rhophi_eta_tau, VR.lorentz_deltaRapidityPhi2.k_xy_theta_t_rhophi_eta_tau, VS.planar_deltaphi.xy_rhophi_eq, VS.lorentz_rapidity.xy_theta_t_eq, c08_lorentz_rapidity_rhophi_eta_tau, h0, VR.P.nanToNum_eq]

theorem c08_lorentz_deltaRapidityPhi2_k_xy_theta_t_rhophi_theta_tau (coord11 coord12 coord13 coord14 coord21 coord22 coord23 coord24 : ℝ) (h0 : 0 ≤ coord24) :
    VS.lorentz_deltaRapidityPhi2.k_xy_theta_t_rhophi_theta_tau coord11 coord12 coord13 coord14 coord21 coord22 coord23 coord24 = VR.lorentz_deltaRapidityPhi2.k_xy_theta_t_rhophi_theta_tau coord11 coord12 coord13 coord14 coord21 coord22 coord23 coord24 := by
  simp only [VS.lorentz_deltaRapidityPhi2.k_xy_theta_t_rhophi_theta_tau, VR.lorentz_deltaRapidityPhi2.k_xy_theta_t_rhophi_theta_tau, VS.planar_deltaphi.xy_rhophi_eq, VS.lorentz_rapidity.xy_theta_t_eq, c08_lorentz_rapidity_rhophi_theta_tau, h0, VR.P.nanToNum_eq]

theorem c08_lorentz_deltaRapidityPhi2_k_xy_theta_t_rhophi_z_tau (coord11 coord12 coord13 coord14 coord21 coord22 coord23 coord24 : ℝ) (h0 : 0 ≤ coord24) :
    VS.lorentz_deltaRapidityPhi2.k_xy_theta_t_rhophi_z_tau coord11 coord12 coord13 coord14 coord21 coord22 coord23 coord24 = VR.lorentz_deltaRapidityPhi2.k_xy_theta_t_rhophi_z_tau coord11 coord12 coord13 coord14 coord21 coord22 coord23 coord24 := by
  simp only [VS.lorentz_deltaRapidityPhi2.k_xy_theta_t_rhophi_z_tau, VR.lorentz_deltaRapidityPhi2.k_xy_theta_t_rhophi_z_tau, VS.planar_deltaphi.xy_rhophi_eq, VS.lorentz_rapidity.xy_theta_t_eq, c08_lorentz_rapidity_rhophi_z_tau, h0, VR.P.nanToNum_eq]

theorem c08_lorentz_deltaRapidityPhi2_k_xy_theta_t_xy_eta_tau (coord11 coord12 coord13 coord14 coord21 coord22 coord23 coord24 : ℝ) (h0 : 0 ≤ coord24) :
    VS.lorentz_deltaRapidityPhi2.k_xy_theta_t_xy_eta_tau coord11 coord12 coord13 coord14 coord21 coord22 coord23 coord24 = VR.lorentz_deltaRapidityPhi2.k_xy_theta_t_xy_eta_tau coord11 coord12 coord13 coord14 coord21 coord22 coord23 coord24 := by
  simp only [VS.lorentz_deltaRapidityPhi2.k_xy_theta_t_xy_eta_tau, VR.lorentz_deltaRapidityPhi2.k_xy_theta_t_xy_eta_tau, VS.planar_deltaphi.xy_xy_eq, VS.lorentz_rapidity.xy_theta_t_eq, c08_lorentz_rapidity_xy_eta_tau, h0, VR.P.nanToNum_eq]

theorem c08_lorentz_deltaRapidityPhi2_k_xy_theta_t_xy_theta_tau (coord11 coord12 coord13 coord14 coord21 coord22 coord23 coord24 : ℝ) (h0 : 0 ≤ coord24) :
    VS.lorentz_deltaRapidityPhi2.k_xy_theta_t_xy_theta_tau coord11 coord12 coord13 coord14 coord21 coord22 coord23 coord24 = VR.lorentz_deltaRapidityPhi2.k_xy_theta_t_xy_theta_tau coord11 coord12 coord13 coord14 coord21 coord22 coord23 coord24 := by
  simp only [VS.lorentz_deltaRapidityPhi2.k_xy_theta_t_xy_theta_tau, VR.lorentz_deltaRapidityPhi2.k_xy_theta_t_xy_theta_tau, VS.planar_deltaphi.xy_xy_eq, VS.lorentz_rapidity.xy_theta_t_eq, c08_lorentz_rapidity_xy_theta_tau, h0, VR.P.nanToNum_eq]

theorem c08_lorentz_deltaRapidityPhi2_k_xy_theta_t_xy_z_tau (coord11 coord12 coord13 coord14 coord21 coord22 coord23 coord24 : ℝ) (h0 : 0 ≤ coord24) :
    VS.lorentz_deltaRapidityPhi2.k_xy_theta_t_xy_z_tau coord11 coord12 coord13 coord14 coord21 coord22 coord23 coord24 = VR.lorentz_deltaRapidityPhi2.k_xy_theta_t_xy_z_tau coord11 coord12 coord13 coord14 coord21 coord22 coord23 coord24 := by
  simp only [VS.lorentz_deltaRapidityPhi2.k_xy_theta_t_xy_z_tau, VR.lorentz_deltaRapidityPhi2.k_xy_theta_t_xy_z_tau, VS.planar_deltaphi.xy_xy_eq, VS.lorentz_rapidity.xy_theta_t_eq, c08_lorentz_rapidity_xy_z_tau, h0, VR.P.nanToNum_eq]

theorem c08_lorentz_deltaRapidityPhi2_k_xy_theta_tau_rhophi_eta_t (coord11 coord12 coord13 coord14 coord21 coord22 coord23 coord24 : ℝ) (h0 : 0 ≤ coord14) :
    VS.lorentz_deltaRapidityPhi2.k_xy_theta_tau_rhophi_eta_t coord11 coord12 coord13 coord14 coord21 coord22 coord23 coord24 = VR.lorentz_deltaRapidityPhi2.k_xy_theta_tau_rhophi_eta_t coord11 coord12 coord13 coord14 coord21 coord22 coord23 coord24 := by
  simp only [VS.lorentz_deltaRapidityPhi2.k_xy_theta_tau_rhophi_eta_t, VR.lorentz_deltaRapidityPhi2.k_xy_theta_tau_rhophi_eta_t, VS.planar_deltaphi.xy_rhophi_eq, c08_lorentz_rapidity_xy_theta_tau, VS.lorentz_rapidity.rhophi_eta_t_eq, h0, VR.P.nanToNum_eq]

theorem c08_lorentz_deltaRapidityPhi2_k_xy_theta_tau_rhophi_eta_tau (coord11 coord12 coord13 coord14 coord21 coord22 coord23 coord24 : ℝ) (h0 : 0 ≤ coord14) (h1 : 0 ≤ coord24) :
    VS.lorentz_deltaRapidityPhi2.k_xy_theta_tau_rhophi_eta_tau coord11 coord12 coord13 coord14 coord21 coord22 coord23 coord24 = VR.lorentz_deltaRapidityPhi2.k_xy_theta_tau_rhophi_eta_tau coord11 coord12 coord13 coord14 coord21 coord22 coord23 coord24 := by
  simp only [VS.lorentz_deltaRapidityPhi2.k_xy_theta_tau_rhophi_eta_tau, VR.lorentz_deltaRapidityPhi2.k_xy_theta_tau_rhophi_eta_tau, VS.planar_deltaphi.xy_rhophi_eq, c08_lorentz_rapidity_xy_theta_tau, c08_lorentz_rapidity_rhophi_eta_tau, h0, h1, VR.P.nanToNum_eq]

theorem c08_lorentz_deltaRapidityPhi2_k_xy_theta_tau_rhophi_theta_t (coord11 coord12 coord13 coord14 coord21 coord22 coord23 coord24 : ℝ) (h0 : 0 ≤ coord14) :
    VS.lorentz_deltaRapidityPhi2.k_xy_theta_tau_rhophi_theta_t coord11 coord12 coord13 coord14 coord21 coord22 coord23 coord24 = VR.lorentz_deltaRapidityPhi2.k_xy_theta_tau_rhophi_theta_t coord11 coord12 coord13 coord14 coord21 coord22 coord23 coord24 := by
  simp only [VS.lorentz_deltaRapidityPhi2.k_xy_theta_tau_rhophi_theta_t, VR.lorentz_deltaRapidityPhi2.k_xy_theta_tau_rhophi_theta_t, VS.planar_deltaphi.xy_rhophi_eq, c08_lorentz_rapidity_xy_theta_tau, VS.lorentz_rapidity.rhophi_theta_t_eq, h0, VR.P.nanToNum_eq]

theorem c08_lorentz_deltaRapidityPhi2_k_xy_theta_tau_rhophi_theta_tau (coord11 coord12 coord13 coord14 coord21 coord22 coord23 coord24 : ℝ) (h0 : 0 ≤ coord24) (h1 : 0 ≤ coord14) :
    VS.lorentz_deltaRapidityPhi2.k_xy_theta_tau_rhophi_theta_tau coord11 coord12 coord13 coord14 coord21 coord22 coord23 coord24 = VR.lorentz_deltaRapidityPhi2.k_xy_theta_tau_rhophi_theta_tau coord11 coord12 coord13 coord14 coord21 coord22 coord23 coord24 := by
  simp only [VS.lorentz_deltaRapidityPhi2.k_xy_theta_tau_rhophi_theta_tau, VR.lorentz_deltaRapidityPhi2.k_xy_theta_tau_rhophi_theta_tau, VS.planar_deltaphi.xy_rhophi_eq, c08_lorentz_rapidity_xy_theta_tau, c08_lorentz_rapidity_rhophi_theta_tau, h0, h1, VR.P.nanToNum_eq]

theorem c08_lorentz_deltaRapidityPhi2_k_xy_theta_tau_rhophi_z_t (coord11 coord12 coord13 coord14 coord21 coord22 coord23 coord24 : ℝ) (h0 : 0 ≤ coord14) :
    VS.lorentz_deltaRapidityPhi2.k_xy_theta_tau_rhophi_z_t coord11 coord12 coord13 coord14 coord21 coord22 coord23 coord24 = VR.lorentz_deltaRapidityPhi2.k_xy_theta_tau_rhophi_z_t coord11 coord12 coord13 coord14 coord21 coord22 coord23 coord24 := by
  simp only [VS.lorentz_deltaRapidityPhi2.k_xy_theta_tau_rhophi_z_t, VR.lorentz_deltaRapidityPhi2.k_xy_theta_tau_rhophi_z_t, VS.planar_deltaphi.xy_rhophi_eq, c08_lorentz_rapidity_xy_theta_tau, VS.lorentz_rapidity.rhophi_z_t_eq, h0, VR.P.nanToNum_eq]

theorem c08_lorentz_deltaRapidityPhi2_k_xy_theta_tau_rhophi_z_tau (coord11 coord12 coord13 coord14 coord21 coord22 coord23 coord24 : ℝ) (h0 : 0 ≤ coord14) (h1 : 0 ≤ coord24) :
    VS.lorentz_deltaRapidityPhi2.k_xy_theta_tau_rhophi_z_tau coord11 coord12 coord13 coord14 coord21 coord22 coord23 coord24 = VR.lorentz_deltaRapidityPhi2.k_xy_theta_tau_rhophi_z_tau coord11 coord12 coord13 coord14 coord21 coord22 coord23 coord24 := by
  simp only [VS.lorentz_deltaRapidityPhi2.k_xy_theta_tau_rhophi_z_tau, VR.lorentz_deltaRapidityPhi2.k_xy_theta_tau_rhophi_z_tau, VS.planar_deltaphi.xy_rhophi_eq, c08_lorentz_rapidity_xy_theta_tau, c08_lorentz_rapidity_rhophi_z_tau, h0, h1, VR.P.nanToNum_eq]

theorem c08_lorentz_deltaRapidityPhi2_k_xy_theta_tau_xy_eta_t (coord11 coord12 coord13 coord14 coord21 coord22 coord23 coord24 : ℝ) (h0 : 0 ≤ coord14) :
    VS.lorentz_deltaRapidityPhi2.k_xy_theta_tau_xy_eta_t coord11 coord12 coord13 coord14 coord21 coord22 coord23 coord24 = VR.lorentz_deltaRapidityPhi2.k_xy_theta_tau_xy_eta_t coord11 coord12 coord13 coord14 coord21 coord22 coord23 coord24 := by
  simp only [VS.lorentz_deltaRapidityPhi2.k_xy_theta_tau_xy_eta_t, VR.lorentz_deltaRapidityPhi2.k_xy_theta_tau_xy_eta_t, VS.planar_deltaphi.xy_xy_eq, c08_lorentz_rapidity_xy_theta_tau, VS.lorentz_rapidity.xy_eta_t_eq, h0, VR.P.nanToNum_eq]

theorem c08_lorentz_deltaRapidityPhi2_k_xy_theta_tau_xy_eta_tau (coord11 coord12 coord13 coord14 coord21 coord22 coord23 coord24 : ℝ) (h0 : 0 ≤ coord14) (h1 : 0 ≤ coord24) :
    VS.lorentz_deltaRapidityPhi2.k_xy_theta_tau_xy_eta_tau coord11 coord12 coord13 coord14 coord21 coord22 coord23 coord24 = VR.lorentz_deltaRapidityPhi2.k_xy_theta_tau_xy_eta_tau coord11 coord12 coord13 coord14 coord21 coord22 coord23 coord24 := by
  simp only [VS.lorentz_deltaRapidityPhi2.k_xy_theta_tau_xy_eta_tau, VR.lorentz_deltaRapidityPhi2.k_xy_theta_tau_xy_eta_tau, VS.planar_deltaphi.xy_xy_eq, c08_lorentz_rapidity_xy_theta_tau, c08_lorentz_rapidity_xy_eta_tau, h0, h1, VR.P.nanToNum_eq]

theorem c08_lorentz_deltaRapidityPhi2_k_xy_theta_tau_xy_theta_t (coord11 coord12 coord13 coord14 coord21 coord22 coord23 coord24 : ℝ) (h0 : 0 ≤ coord14) :
    VS.lorentz_deltaRapidityPhi2.k_xy_theta_tau_xy_theta_t coord11 coord12 coord13 coord14 coord21 coord22 coord23 coord24 = VR.lorentz_deltaRapidityPhi2.k_xy_theta_tau_xy_theta_t coord11 coord12 coord13 coord14 coord21 coord22 coord23 coord24 := by
  simp only [VS.lorentz_deltaRapidityPhi2.k_xy_theta_tau_xy_theta_t, VR.lorentz_deltaRapidityPhi2.k_xy_theta_tau_xy_theta_t, VS.planar_deltaphi.xy_xy_eq, c08_lorentz_rapidity_xy_theta_tau, VS.lorentz_rapidity.xy_theta_t_eq, h0, VR.P.nanToNum_eq]

theorem c08_lorentz_deltaRapidityPhi2_k_xy_theta_tau_xy_theta_tau (coord11 coord12 coord13 coord14 coord21 coord22 coord23 coord24 : ℝ) (h0 : 0 ≤ coord14) (h1 : 0 ≤ coord24) :
    VS.lorentz_deltaRapidityPhi2.k_xy_theta_tau_xy_theta_tau coord11 coord12 coord13 coord14 coord21 coord22 coord23 coord24 = VR.lorentz_deltaRapidityPhi2.k_xy_theta_tau_xy_theta_tau coord11 coord12 coord13 coord14 coord21 coord22 coord23 coord24 := by
  simp only [VS.lorentz_deltaRapidityPhi2.k_xy_theta_tau_xy_theta_tau, VR.lorentz_deltaRapidityPhi2.k_xy_theta_tau_xy_theta_tau, VS.planar_deltaphi.xy_xy_eq, c08_lorentz_rapidity_xy_theta_tau, h0, h1, VR.P.nanToNum_eq]

theorem c08_lorentz_deltaRapidityPhi2_k_xy_theta_tau_xy_z_t (coord11 coord12 coord13 coord14 coord21 coord22 coord23 coord24 : ℝ) (h0 : 0 ≤ coord14) :
    VS.lorentz_deltaRapidityPhi2.k_xy_theta_tau_xy_z_t coord11 coord12 coord13 coord14 coord21 coord22 coord23 coord24 = VR.lorentz_deltaRapidityPhi2.k_xy_theta_tau_xy_z_t coord11 coord12 coord13 coord14 coord21 coord22 coord23 coord24 := by
  simp only [VS.lorentz_deltaRapidityPhi2.k_xy_theta_tau_xy_z_t, VR.lorentz_deltaRapidityPhi2.k_xy_theta_tau_xy_z_t, VS.planar_deltaphi.xy_xy_eq, c08_lorentz_rapidity_xy_theta_tau, VS.lorentz_rapidity.xy_z_t_eq, h0, VR.P.nanToNum_eq]

theorem c08_lorentz_deltaRapidityPhi2_k_xy_theta_tau_xy_z_tau (coord11 coord12 coord13 coord14 coord21 coord22 coord23 coord24 : ℝ) (h0 : 0 ≤ coord14) (h1 : 0 ≤ coord24) :
    VS.lorentz_deltaRapidityPhi2.k_xy_theta_tau_xy_z_tau coord11 coord12 coord13 coord14 coord21 coord22 coord23 coord24 = VR.lorentz_deltaRapidityPhi2.k_xy_theta_tau_xy_z_tau coord11 coord12 coord13 coord14 coord21 coord22 coord23 coord24 := by
  simp only [VS.lorentz_deltaRapidityPhi2.k_xy_theta_tau_xy_z_tau, VR.lorentz_deltaRapidityPhi2.k_xy_theta_tau_xy_z_tau, VS.planar_deltaphi.xy_xy_eq, c08_lorentz_rapidity_xy_theta_tau, c08_lorentz_rapidity_xy_z_tau, h0, h1, VR.P.nanToNum_eq]

theorem c08_lorentz_deltaRapidityPhi2_k_xy_z_t_rhophi_eta_tau (coord11 coord12 coord13 coord14 coord21 coord22 coord23 coord24 : ℝ) (h0 : 0 ≤ coord24) :
    VS.lorentz_deltaRapidityPhi2.k_xy_z_t_rhophi_eta_tau coord11 coord12 coord13 coord14 coord21 coord22 coord23 coord24 = VR.lorentz_deltaRapidityPhi2.k_xy_z_t_rhophi_eta_tau coord11 coord12 coord13 coord14 coord21 coord22 coord23 coord24 := by
  simp only [VS.lorentz_deltaRapidityPhi2.k_xy_z_t_rhophi_eta_tau, VR.lorentz_deltaRapidityPhi2.k_xy_z_t_rhophi_eta_tau, VS.planar_deltaphi.xy_rhophi_eq, VS.lorentz_rapidity.xy_z_t_eq, c08_lorentz_rapidity_rhophi_eta_tau, h0, VR.P.nanToNum_eq]

theorem c08_lorentz_deltaRapidityPhi2_k_xy_z_t_rhophi_theta_tau (coord11 coord12 coord13 coord14 coord21 coord22 coord23 coord24 : ℝ) (h0 : 0 ≤ coord24) :
    VS.lorentz_deltaRapidityPhi2.k_xy_z_t_rhophi_theta_tau coord11 coord12 coord13 coord14 coord21 coord22 coord23 coord24 = VR.lorentz_deltaRapidityPhi2.k_xy_z_t_rhophi_theta_tau coord11 coord12 coord13 coord14 coord21 coord22 coord23 coord24 := by
  simp only [VS.lorentz_deltaRapidityPhi2.k_xy_z_t_rhophi_theta_tau, VR.lorentz_deltaRapidityPhi2.k_xy_z_t_rhophi_theta_tau, VS.planar_deltaphi.xy_rhophi_eq, VS.lorentz_rapidity.xy_z_t_eq, c08_lorentz_rapidity_rhophi_theta_tau, h0, VR.P.nanToNum_eq]

theorem c08_lorentz_deltaRapidityPhi2_k_xy_z_t_rhophi_z_tau (coord11 coord12 coord13 coord14 coord21 coord22 coord23 coord24 : ℝ) (h0 : 0 ≤ coord24) :
    VS.lorentz_deltaRapidityPhi2.k_xy_z_t_rhophi_z_tau coord11 coord12 coord13 coord14 coord21 coord22 coord23 coord24 = VR.lorentz_deltaRapidityPhi2.k_xy_z_t_rhophi_z_tau coord11 coord12 coord13 coord14 coord21 coord22 coord23 coord24 := by
  simp only [VS.lorentz_deltaRapidityPhi2.k_xy_z_t_rhophi_z_tau, VR.lorentz_deltaRapidityPhi2.k_xy_z_t_rhophi_z_tau, VS.planar_deltaphi.xy_rhophi_eq, VS.lorentz_rapidity.xy_z_t_eq, c08_lorentz_rapidity_rhophi_z_tau, h0, VR.P.nanToNum_eq]

theorem c08_lorentz_deltaRapidityPhi2_k_xy_z_t_xy_eta_tau (coord11 coord12 coord13 coord14 coord21 coord22 coord23 coord24 : ℝ) (h0 : 0 ≤ coord24) :
    VS.lorentz_deltaRapidityPhi2.k_xy_z_t_xy_eta_tau coord11 coord12 coord13 coord14 coord21 coord22 coord23 coord24 = VR.lorentz_deltaRapidityPhi2.k_xy_z_t_xy_eta_tau coord11 coord12 coord13 coord14 coord21 coord22 coord23 coord24 := by
  simp only [VS.lorentz_deltaRapidityPhi2.k_xy_z_t_xy_eta_tau, VR.lorentz_deltaRapidityPhi2.k_xy_z_t_xy_eta_tau, VS.planar_deltaphi.xy_xy_eq, VS.lorentz_rapidity.xy_z_t_eq, c08_lorentz_rapidity_xy_eta_tau, h0, VR.P.nanToNum_eq]

theorem c08_lorentz_deltaRapidityPhi2_k_xy_z_t_xy_theta_tau (coord11 coord12 coord13 coord14 coord21 coord22 coord23 coord24 : ℝ) (h0 : 0 ≤ coord24) :
    VS.lorentz_deltaRapidityPhi2.k_xy_z_t_xy_theta_tau coord11 coord12 coord13 coord14 coord21 coord22 coord23 coord24 = VR.lorentz_deltaRapidityPhi2.k_xy_z_t_xy_theta_tau coord11 coord12 coord13 coord14 coord21 coord22 coord23 coord24 := by
  simp only [VS.lorentz_deltaRapidityPhi2.k_xy_z_t_xy_theta_tau, VR.lorentz_deltaRapidityPhi2.k_xy_z_t_xy_theta_tau, VS.planar_deltaphi.xy_xy_eq, VS.lorentz_rapidity.xy_z_t_eq, c08_lorentz_rapidity_xy_theta_tau, h0, VR.P.nanToNum_eq]

theorem c08_lorentz_deltaRapidityPhi2_k_xy_z_t_xy_z_tau (coord11 coord12 coord13 coord14 coord21 coord22 coord23 coord24 : ℝ) (h0 : 0 ≤ coord24) :
    VS.lorentz_deltaRapidityPhi2.k_xy_z_t_xy_z_tau coord11 coord12 coord13 coord14 coord21 coord22 coord23 coord24 = VR.lorentz_deltaRapidityPhi2.k_xy_z_t_xy_z_tau coord11 coord12 coord13 coord14 coord21 coord22 coord23 coord24 := by
  simp only [VS.lorentz_deltaRapidityPhi2.k_xy_z_t_xy_z_tau, VR.lorentz_deltaRapidityPhi2.k_xy_z_t_xy_z_tau, VS.planar_deltaphi.xy_xy_eq, VS.lorentz_rapidity.xy_z_t_eq, c08_lorentz_rapidity_xy_z_tau, h0, VR.P.nanToNum_eq]

theorem c08_lorentz_deltaRapidityPhi2_k_xy_z_tau_rhophi_eta_t (coord11 coord12 coord13 coord14 coord21 coord22 coord23 coord24 : ℝ) (h0 : 0 ≤ coord14) :
    VS.lorentz_deltaRapidityPhi2.k_xy_z_tau_rhophi_eta_t coord11 coord12 coord13 coord14 coord21 coord22 coord23 coord24 = VR.lorentz_deltaRapidityPhi2.k_xy_z_tau_rhophi_eta_t coord11 coord12 coord13 coord14 coord21 coord22 coord23 coord24 := by
  simp only [VS.lorentz_deltaRapidityPhi2.k_xy_z_tau_rhophi_eta_t, VR.lorentz_deltaRapidityPhi2.k_xy_z_tau_rhophi_eta_t, VS.planar_deltaphi.xy_rhophi_eq, c08_lorentz_rapidity_xy_z_tau, VS.lorentz_rapidity.rhophi_eta_t_eq, h0, VR.P.nanToNum_eq]

theorem c08_lorentz_deltaRapidityPhi2_k_xy_z_tau_rhophi_eta_tau (coord11 coord12 coord13 coord14 coord21 coord22 coord23 coord24 : ℝ) (h0 : 0 ≤ coord14) (h1 : 0 ≤ coord24) :
    VS.lorentz_deltaRapidityPhi2.k_xy_z_tau_rhophi_eta_tau coord11 coord12 coord13 coord14 coord21 coord22 coord23 coord24 = VR.lorentz_deltaRapidityPhi2.k_xy_z_tau_rhophi_eta_tau coord11 coord12 coord13 coord14 coord21 coord22 coord23 coord24 := by
  simp only [VS.lorentz_deltaRapidityPhi2.k_xy_z_tau_rhophi_eta_tau, VR.lorentz_deltaRapidityPhi2.k_xy_z_tau_rhophi_eta_tau, VS.planar_deltaphi.xy_rhophi_eq, c08_lorentz_rapidity_xy_z_tau, c08_lorentz_rapidity_rhophi_eta_tau, h0, h1, VR.P.nanToNum_eq]

theorem c08_lorentz_deltaRapidityPhi2_k_xy_z_tau_rhophi_theta_t (coord11 coord12 coord13 coord14 coord21 coord22 coord23 coord24 : ℝ) (h0 : 0 ≤ coord14) :
    VS.lorentz_deltaRapidityPhi2.k_xy_z_tau_rhophi_theta_t coord11 coord12 coord13 coord14 coord21 coord22 coord23 coord24 = VR.lorentz_deltaRapidityPhi2.k_xy_z_tau_rhophi_theta_t coord11 coord12 coord13 coord14 coord21 coord22 coord23 coord24 := by
  simp only [VS.lorentz_deltaRapidityPhi2.k_xy_z_tau_rhophi_theta_t, VR.lorentz_deltaRapidityPhi2.k_xy_z_tau_rhophi_theta_t, VS.planar_deltaphi.xy_rhophi_eq, c08_lorentz_rapidity_xy_z_tau, VS.lorentz_rapidity.rhophi_theta_t_eq, h0, VR.P.nanToNum_eq]

theorem c08_lorentz_deltaRapidityPhi2_k_xy_z_tau_rhophi_theta_tau (coord11 coord12 coord13 coord14 coord21 coord22 coord23 coord24 : ℝ) (h0 : 0 ≤ coord14) (h1 : 0 ≤ coord24) :
    VS.lorentz_deltaRapidityPhi2.k_xy_z_tau_rhophi_theta_tau coord11 coord12 coord13 coord14 coord21 coord22 coord23 coord24 = VR.lorentz_deltaRapidityPhi2.k_xy_z_tau_rhophi_theta_tau coord11 coord12 coord13 coord14 coord21 coord22 coord23 coord24 := by
  simp only [VS.lorentz_deltaRapidityPhi2.k_xy_z_tau_rhophi_theta_tau, VR.lorentz_deltaRapidityPhi2.k_xy_z_tau_rhophi_theta_tau, VS.planar_deltaphi.xy_rhophi_eq, c08_lorentz_rapidity_xy_z_tau, c08_lorentz_rapidity_rhophi_theta_tau, h0, h1, VR.P.nanToNum_eq]

theorem c08_lorentz_deltaRapidityPhi2_k_xy_z_tau_rhophi_z_t (coord11 coord12 coord13 coord14 coord21 coord22 coord23 coord24 : ℝ) (h0 : 0 ≤ coord14) :
    VS.lorentz_deltaRapidityPhi2.k_xy_z_tau_rhophi_z_t coord11 coord12 coord13 coord14 coord21 coord22 coord23 coord24 = VR.lorentz_deltaRapidityPhi2.k_xy_z_tau_rhophi_z_t coord11 coord12 coord13 coord14 coord21 coord22 coord23 coord24 := by
  simp only [VS.lorentz_deltaRapidityPhi2.k_xy_z_tau_rhophi_z_t, VR.lorentz_deltaRapidityPhi2.k_xy_z_tau_rhophi_z_t, VS.planar_deltaphi.xy_rhophi_eq, c08_lorentz_rapidity_xy_z_tau, VS.lorentz_rapidity.rhophi_z_t_eq, h0, VR.P.nanToNum_eq]

theorem c08_lorentz_deltaRapidityPhi2_k_xy_z_tau_rhophi_z_tau (coord11 coord12 coord13 coord14 coord21 coord22 coord23 coord24 : ℝ) (h0 : 0 ≤ coord24) (h1 : 0 ≤ coord14) :
    VS.lorentz_deltaRapidityPhi2.k_xy_z_tau_rhophi_z_tau coord11 coord12 coord13 coord14 coord21 coord22 coord23 coord24 = VR.lorentz_deltaRapidityPhi2.k_xy_z_tau_rhophi_z_tau coord11 coord12 coord13 coord14 coord21 coord22 coord23 coord24 := by
  simp only [VS.lorentz_deltaRapidityPhi2.k_xy_z_tau_rhophi_z_tau, VR.lorentz_deltaRapidityPhi2.k_xy_z_tau_rhophi_z_tau, VS.planar_deltaphi.xy_rhophi_eq, c08_lorentz_rapidity_xy_z_tau, c08_lorentz_rapidity_rhophi_z_tau, h0, h1, VR.P.nanToNum_eq]

theorem c08_lorentz_deltaRapidityPhi2_k_xy_z_tau_xy_eta_t (coord11 coord12 coord13 coord14 coord21 coord22 coord23 coord24 : ℝ) (h0 : 0 ≤ coord14) :
    VS.lorentz_deltaRapidityPhi2.k_xy_z_tau_xy_eta_t coord11 coord12 coord13 coord14 coord21 coord22 coord23 coord24 = VR.lorentz_deltaRapidityPhi2.k_xy_z_tau_xy_eta_t coord11 coord12 coord13 coord14 coord21 coord22 coord23 coord24 := by
  simp only [VS.lorentz_deltaRapidityPhi2.k_xy_z_tau_xy_eta_t, VR.lorentz_deltaRapidityPhi2.k_xy_z_tau_xy_eta_t, VS.planar_deltaphi.xy_xy_eq, c08_lorentz_rapidity_xy_z_tau, VS.lorentz_rapidity.xy_eta_t_eq, h0, VR.P.nanToNum_eq]

theorem c08_lorentz_deltaRapidityPhi2_k_xy_z_tau_xy_eta_tau (coord11 coord12 coord13 coord14 coord21 coord22 coord23 coord24 : ℝ) (h0 : 0 ≤ coord24) (h1 : 0 ≤ coord14) :
    VS.lorentz_deltaRapidityPhi2.k_xy_z_tau_xy_eta_tau coord11 coord12 coord13 coord14 coord21 coord22 coord23 coord24 = VR.lorentz_deltaRapidityPhi2.k_xy_z_tau_xy_eta_tau coord11 coord12 coord13 coord14 coord21 coord22 coord23 coord24 := by
  simp only [VS.lorentz_deltaRapidityPhi2.k_xy_z_tau_xy_eta_tau, VR.lorentz_deltaRapidityPhi2.k_xy_z_tau_xy_eta_tau, VS.planar_deltaphi.xy_xy_eq, c08_lorentz_rapidity_xy_z_tau, c08_lorentz_rapidity_xy_eta_tau, h0, h1, VR.P.nanToNum_eq]

theorem c08_lorentz_deltaRapidityPhi2_k_xy_z_tau_xy_theta_t (coord11 coord12 coord13 coord14 coord21 coord22 coord23 coord24 : ℝ) (h0 : 0 ≤ coord14) :
    VS.lorentz_deltaRapidityPhi2.k_xy_z_tau_xy_theta_t coord11 coord12 coord13 coord14 coord21 coord22 coord23 coord24 = VR.lorentz_deltaRapidityPhi2.k_xy_z_tau_xy_theta_t coord11 coord12 coord13 coord14 coord21 coord22 coord23 coord24 := by
  simp only [VS.lorentz_deltaRapidityPhi2.k_xy_z_tau_xy_theta_t, VR.lorentz_deltaRapidityPhi2.k_xy_z_tau_xy_theta_t, VS.planar_deltaphi.xy_xy_eq, c08_lorentz_rapidity_xy_z_tau, VS.lorentz_rapidity.xy_theta_t_eq, h0, VR.P.nanToNum_eq]

theorem c08_lorentz_deltaRapidityPhi2_k_xy_z_tau_xy_theta_tau (coord11 coord12 coord13 coord14 coord21 coord22 coord23 coord24 : ℝ) (h0 : 0 ≤ coord14) (h1 : 0 ≤ coord24) :
    VS.lorentz_deltaRapidityPhi2.k_xy_z_tau_xy_theta_tau coord11 coord12 coord13 coord14 coord21 coord22 coord23 coord24 = VR.lorentz_deltaRapidityPhi2.k_xy_z_tau_xy_theta_tau coord11 coord12 coord13 coord14 coord21 coord22 coord23 coord24 := by
  simp only [VS.lorentz_deltaRapidityPhi2.k_xy_z_tau_xy_theta_tau, VR.lorentz_deltaRapidityPhi2.k_xy_z_tau_xy_theta_tau, VS.planar_deltaphi.xy_xy_eq, c08_lorentz_rapidity_xy_z_tau, c08_lorentz_rapidity_xy_theta_tau, h0, h1, VR.P.nanToNum_eq]

theorem c08_lorentz_deltaRapidityPhi2_k_xy_z_tau_xy_z_t (coord11 coord12 coord13 coord14 coord21 coord22 coord23 coord24 : ℝ) (h0 : 0 ≤ coord14) :
    VS.lorentz_deltaRapidityPhi2.k_xy_z_tau_xy_z_t coord11 coord12 coord13 coord14 coord21 coord22 coord23 coord24 = VR.lorentz_deltaRapidityPhi2.k_xy_z_tau_xy_z_t coord11 coord12 coord13 coord14 coord21 coord22 coord23 coord24 := by
  simp only [VS.lorentz_deltaRapidityPhi2.k_xy_z_tau_xy_z_t, VR.lorentz_deltaRapidityPhi2.k_xy_z_tau_xy_z_t, VS.planar_deltaphi.xy_xy_eq, c08_lorentz_rapidity_xy_z_tau, VS.lorentz_rapidity.xy_z_t_eq, h0, VR.P.nanToNum_eq]

theorem c08_lorentz_deltaRapidityPhi2_k_xy_z_tau_xy_z_tau (coord11 coord12 coord13 coord14 coord21 coord22 coord23 coord24 : ℝ) (h0 : 0 ≤ coord14) (h1 : 0 ≤ coord24) :
    VS.lorentz_deltaRapidityPhi2.k_xy_z_tau_xy_z_tau coord11 coord12 coord13 coord14 coord21 coord22 coord23 coord24 = VR.lorentz_deltaRapidityPhi2.k_xy_z_tau_xy_z_tau coord11 coord12 coord13 coord14 coord21 coord22 coord23 coord24 := by
  simp only [VS.lorentz_deltaRapidityPhi2.k_xy_z_tau_xy_z_tau, VR.lorentz_deltaRapidityPhi2.k_xy_z_tau_xy_z_tau, VS.planar_deltaphi.xy_xy_eq, c08_lorentz_rapidity_xy_z_tau, h0, h1, VR.P.nanToNum_eq]


/-! ### `lorentz_deltaRapidityPhi` -/

theorem c08_lorentz_deltaRapidityPhi_k_rhophi_eta_t_rhophi_eta_tau (coord11 coord12 coord13 coord14 coord21 coord22 coord23 coord24 : ℝ) (h0 : 0 ≤ coord24) :
    VS.lorentz_deltaRapidityPhi.k_rhophi_eta_t_rhophi_eta_tau coord11 coord12 coord13 coord14 coord21 coord22 coord23 coord24 = VR.lorentz_deltaRapidityPhi.k_rhophi_eta_t_rhophi_eta_tau coord11 coord12 coord13 coord14 coord21 coord22 coord23 coord24 := by
  simp only [VS.lorentz_deltaRapidityPhi.k_rhophi_eta_t_rhophi_eta_tau, VR.lorentz_deltaRapidityPhi.k_rhophi_eta_t_rhophi_eta_tau, c08_lorentz_deltaRapidityPhi2_k_rhophi_eta_t_rhophi_eta_tau, h0, VR.P.nanToNum_eq]

theorem c08_lorentz_deltaRapidityPhi_k_rhophi_eta_t_rhophi_theta_tau (coord11 coord12 coord13 coord14 coord21 coord22 coord23 coord24 : ℝ) (h0 : 0 ≤ coord24) :
    VS.lorentz_deltaRapidityPhi.k_rhophi_eta_t_rhophi_theta_tau coord11 coord12 coord13 coord14 coord21 coord22 coord23 coord24 = VR.lorentz_deltaRapidityPhi.k_rhophi_eta_t_rhophi_theta_tau coord11 coord12 coord13 coord14 coord21 coord22 coord23 coord24 := by
  simp only [VS.lorentz_deltaRapidityPhi.k_rhophi_eta_t_rhophi_theta_tau, VR.lorentz_deltaRapidityPhi.k_rhophi_eta_t_rhophi_theta_tau, c08_lorentz_deltaRapidityPhi2_k_rhophi_eta_t_rhophi_theta_tau, h0, VR.P.nanToNum_eq]

theorem c08_lorentz_deltaRapidityPhi_k_rhophi_eta_t_rhophi_z_tau (coord11 coord12 coord13 coord14 coord21 coord22 coord23 coord24 : ℝ) (h0 : 0 ≤ coord24) :
    VS.lorentz_deltaRapidityPhi.k_rhophi_eta_t_rhophi_z_tau coord11 coord12 coord13 coord14 coord21 coord22 coord23 coord24 = VR.lorentz_deltaRapidityPhi.k_rhophi_eta_t_rhophi_z_tau coord11 coord12 coord13 coord14 coord21 coord22 coord23 coord24 := by
  simp only [VS.lorentz_deltaRapidityPhi.k_rhophi_eta_t_rhophi_z_tau, VR.lorentz_deltaRapidityPhi.k_rhophi_eta_t_rhophi_z_tau, c08_lorentz_deltaRapidityPhi2_k_rhophi_eta_t_rhophi_z_tau, h0, VR.P.nanToNum_eq]

theorem c08_lorentz_deltaRapidityPhi_k_rhophi_eta_t_xy_eta_tau (coord11 coord12 coord13 coord14 coord21 coord22 coord23 coord24 : ℝ) (h0 : 0 ≤ coord24) :
    VS.lorentz_deltaRapidityPhi.k_rhophi_eta_t_xy_eta_tau coord11 coord12 coord13 coord14 coord21 coord22 coord23 coord24 = VR.lorentz_deltaRapidityPhi.k_rhophi_eta_t_xy_eta_tau coord11 coord12 coord13 coord14 coord21 coord22 coord23 coord24 := by
  simp only [VS.lorentz_deltaRapidityPhi.k_rhophi_eta_t_xy_eta_tau, VR.lorentz_deltaRapidityPhi.k_rhophi_eta_t_xy_eta_tau, c08_lorentz_deltaRapidityPhi2_k_rhophi_eta_t_xy_eta_tau, h0, VR.P.nanToNum_eq]

theorem c08_lorentz_deltaRapidityPhi_k_rhophi_eta_t_xy_theta_tau (coord11 coord12 coord13 coord14 coord21 coord22 coord23 coord24 : ℝ) (h0 : 0 ≤ coord24) :
    VS.lorentz_deltaRapidityPhi.k_rhophi_eta_t_xy_theta_tau coord11 coord12 coord13 coord14 coord21 coord22 coord23 coord24 = VR.lorentz_deltaRapidityPhi.k_rhophi_eta_t_xy_theta_tau coord11 coord12 coord13 coord14 coord21 coord22 coord23 coord24 := by
  simp only [VS.lorentz_deltaRapidityPhi.k_rhophi_eta_t_xy_theta_tau, VR.lorentz_deltaRapidityPhi.k_rhophi_eta_t_xy_theta_tau, c08_lorentz_deltaRapidityPhi2_k_rhophi_eta_t_xy_theta_tau, h0, VR.P.nanToNum_eq]

theorem c08_lorentz_deltaRapidityPhi_k_rhophi_eta_t_xy_z_tau (coord11 coord12 coord13 coord14 coord21 coord22 coord23 coord24 : ℝ) (h0 : 0 ≤ coord24) :
    VS.lorentz_deltaRapidityPhi.k_rhophi_eta_t_xy_z_tau coord11 coord12 coord13 coord14 coord21 coord22 coord23 coord24 = VR.lorentz_deltaRapidityPhi.k_rhophi_eta_t_xy_z_tau coord11 coord12 coord13 coord14 coord21 coord22 coord23 coord24 := by
  simp only [VS.lorentz_deltaRapidityPhi.k_rhophi_eta_t_xy_z_tau, VR.lorentz_deltaRapidityPhi.k_rhophi_eta_t_xy_z_tau, c08_lorentz_deltaRapidityPhi2_k_rhophi_eta_t_xy_z_tau, h0, VR.P.nanToNum_eq]

theorem c08_lorentz_deltaRapidityPhi_k_rhophi_eta_tau_rhophi_eta_t (coord11 coord12 coord13 coord14 coord21 coord22 coord23 coord24 : ℝ) (h0 : 0 ≤ coord14) :
    VS.lorentz_deltaRapidityPhi.k_rhophi_eta_tau_rhophi_eta_t coord11 coord12 coord13 coord14 coord21 coord22 coord23 coord24 = VR.lorentz_deltaRapidityPhi.k_rhophi_eta_tau_rhophi_eta_t coord11 coord12 coord13 coord14 coord21 coord22 coord23 coord24 := by
  simp only [VS.lorentz_deltaRapidityPhi.k_rhophi_eta_tau_rhophi_eta_t, VR.lorentz_deltaRapidityPhi.k_rhophi_eta_tau_rhophi_eta_t, c08_lorentz_deltaRapidityPhi2_k_rhophi_eta_tau_rhophi_eta_t, h0, VR.P.nanToNum_eq]

theorem c08_lorentz_deltaRapidityPhi_k_rhophi_eta_tau_rhophi_eta_tau (coord11 coord12 coord13 coord14 coord21 coord22 coord23 coord24 : ℝ) (h0 : 0 ≤ coord14) (h1 : 0 ≤ coord24) :
    VS.lorentz_deltaRapidityPhi.k_rhophi_eta_tau_rhophi_eta_tau coord11 coord12 coord13 coord14 coord21 coord22 coord23 coord24 = VR.lorentz_deltaRapidityPhi.k_rhophi_eta_tau_rhophi_eta_tau coord11 coord12 coord13 coord14 coord21 coord22 coord23 coord24 := by
  simp only [VS.lorentz_deltaRapidityPhi.k_rhophi_eta_tau_rhophi_eta_tau, VR.lorentz_deltaRapidityPhi.k_rhophi_eta_tau_rhophi_eta_tau, c08_lorentz_deltaRapidityPhi2_k_rhophi_eta_tau_rhophi_eta_tau, h0, h1, VR.P.nanToNum_eq]

theorem c08_lorentz_deltaRapidityPhi_k_rhophi_eta_tau_rhophi_theta_t (coord11 coord12 coord13 coord14 coord21 coord22 coord23 coord24 : ℝ) (h0 : 0 ≤ coord14) :
    VS.lorentz_deltaRapidityPhi.k_rhophi_eta_tau_rhophi_theta_t coord11 coord12 coord13 coord14 coord21 coord22 coord23 coord24 = VR.lorentz_deltaRapidityPhi.k_rhophi_eta_tau_rhophi_theta_t coord11 coord12 coord13 coord14 coord21 coord22 coord23 coord24 := by
  simp only [VS.lorentz_deltaRapidityPhi.k_rhophi_eta_tau_rhophi_theta_t, VR.lorentz_deltaRapidityPhi.k_rhophi_eta_tau_rhophi_theta_t, c08_lorentz_deltaRapidityPhi2_k_rhophi_eta_tau_rhophi_theta_t, h0, VR.P.nanToNum_eq]

theorem c08_lorentz_deltaRapidityPhi_k_rhophi_eta_tau_rhophi_theta_tau (coord11 coord12 coord13 coord14 coord21 coord22 coord23 coord24 : ℝ) (h0 : 0 ≤ coord14) (h1 : 0 ≤ coord24) :
    VS.lorentz_deltaRapidityPhi.k_rhophi_eta_tau_rhophi_theta_tau coord11 coord12 coord13 coord14 coord21 coord22 coord23 coord24 = VR.lorentz_deltaRapidityPhi.k_rhophi_eta_tau_rhophi_theta_tau coord11 coord12 coord13 coord14 coord21 coord22 coord23 coord24 := by
  simp only [VS.lorentz_deltaRapidityPhi.k_rhophi_eta_tau_rhophi_theta_tau, VR.lorentz_deltaRapidityPhi.k_rhophi_eta_tau_rhophi_theta_tau, c08_lorentz_deltaRapidityPhi2_k_rhophi_eta_tau_rhophi_theta_tau, h0, h1, VR.P.nanToNum_eq]

theorem c08_lorentz_deltaRapidityPhi_k_rhophi_eta_tau_rhophi_z_t (coord11 coord12 coord13 coord14 coord21 coord22 coord23 coord24 : ℝ) (h0 : 0 ≤ coord14) :
    VS.lorentz_deltaRapidityPhi.k_rhophi_eta_tau_rhophi_z_t coord11 coord12 coord13 coord14 coord21 coord22 coord23 coord24 = VR.lorentz_deltaRapidityPhi.k_rhophi_eta_tau_rhophi_z_t coord11 coord12 coord13 coord14 coord21 coord22 coord23 coord24 := by
  simp only [VS.lorentz_deltaRapidityPhi.k_rhophi_eta_tau_rhophi_z_t, VR.lorentz_deltaRapidityPhi.k_rhophi_eta_tau_rhophi_z_t, c08_lorentz_deltaRapidityPhi2_k_rhophi_eta_tau_rhophi_z_t, h0, VR.P.nanToNum_eq]

theorem c08_lorentz_deltaRapidityPhi_k_rhophi_eta_tau_rhophi_z_tau (coord11 coord12 coord13 coord14 coord21 coord22 coord23 coord24 : ℝ) (h0 : 0 ≤ coord24) (h1 : 0 ≤ coord14) :
    VS.lorentz_deltaRapidityPhi.k_rhophi_eta_tau_rhophi_z_tau coord11 coord12 coord13 coord14 coord21 coord22 coord23 coord24 = VR.lorentz_deltaRapidityPhi.k_rhophi_eta_tau_rhophi_z_tau coord11 coord12 coord13 coord14 coord21 coord22 coord23 coord24 := by
  simp only [VS.lorentz_deltaRapidityPhi.k_rhophi_eta_tau_rhophi_z_tau, VR.lorentz_deltaRapidityPhi.k_rhophi_eta_tau_rhophi_z_tau, c08_lorentz_deltaRapidityPhi2_k_rhophi_eta_tau_rhophi_z_tau, h0, h1, VR.P.nanToNum_eq]

theorem c08_lorentz_deltaRapidityPhi_k_rhophi_eta_tau_xy_eta_t (coord11 coord12 coord13 coord14 coord21 coord22 coord23 coord24 : ℝ) (h0 : 0 ≤ coord14) :
    VS.lorentz_deltaRapidityPhi.k_rhophi_eta_tau_xy_eta_t coord11 coord12 coord13 coord14 coord21 coord22 coord23 coord24 = VR.lorentz_deltaRapidityPhi.k_rhophi_eta_tau_xy_eta_t coord11 coord12 coord13 coord14 coord21 coord22 coord23 coord24 := by
  simp only [VS.lorentz_deltaRapidityPhi.k_rhophi_eta_tau_xy_eta_t, VR.lorentz_deltaRapidityPhi.k_rhophi_eta_tau_xy_eta_t, c08_lorentz_deltaRapidityPhi2_k_rhophi_eta_tau_xy_eta_t, h0, VR.P.nanToNum_eq]

theorem c08_lorentz_deltaRapidityPhi_k_rhophi_eta_tau_xy_eta_tau (coord11 coord12 coord13 coord14 coord21 coord22 coord23 coord24 : ℝ) (h0 : 0 ≤ coord14) (h1 : 0 ≤ coord24) :
    VS.lorentz_deltaRapidityPhi.k_rhophi_eta_tau_xy_eta_tau coord11 coord12 coord13 coord14 coord21 coord22 coord23 coord24 = VR.lorentz_deltaRapidityPhi.k_rhophi_eta_tau_xy_eta_tau coord11 coord12 coord13 coord14 coord21 coord22 coord23 coord24 := by
  simp only [VS.lorentz_deltaRapidityPhi.k_rhophi_eta_tau_xy_eta_tau, VR.lorentz_deltaRapidityPhi.k_rhophi_eta_tau_xy_eta_tau, c08_lorentz_deltaRapidityPhi2_k_rhophi_eta_tau_xy_eta_tau, h0, h1, VR.P.nanToNum_eq]

theorem c08_lorentz_deltaRapidityPhi_k_rhophi_eta_tau_xy_theta_t (coord11 coord12 coord13 coord14 coord21 coord22 coord23 coord24 : ℝ) (h0 : 0 ≤ coord14) :
    VS.lorentz_deltaRapidityPhi.k_rhophi_eta_tau_xy_theta_t coord11 coord12 coord13 coord14 coord21 coord22 coord23 coord24 = VR.lorentz_deltaRapidityPhi.k_rhophi_eta_tau_xy_theta_t coord11 coord12 coord13 coord14 coord21 coord22 coord23 coord24 := by
  simp only [VS.lorentz_deltaRapidityPhi.k_rhophi_eta_tau_xy_theta_t, VR.lorentz_deltaRapidityPhi.k_rhophi_eta_tau_xy_theta_t, c08_lorentz_deltaRapidityPhi2_k_rhophi_eta_tau_xy_theta_t, h0, VR.P.nanToNum_eq]

theorem c08_lorentz_deltaRapidityPhi_k_rhophi_eta_tau_xy_theta_tau (coord11 coord12 coord13 coord14 coord21 coord22 coord23 coord24 : ℝ) (h0 : 0 ≤ coord14) (h1 : 0 ≤ coord24) :
    VS.lorentz_deltaRapidityPhi.k_rhophi_eta_tau_xy_theta_tau coord11 coord12 coord13 coord14 coord21 coord22 coord23 coord24 = VR.lorentz_deltaRapidityPhi.k_rhophi_eta_tau_xy_theta_tau coord11 coord12 coord13 coord14 coord21 coord22 coord23 coord24 := by
  simp only [VS.lorentz_deltaRapidityPhi.k_rhophi_eta_tau_xy_theta_tau, VR.lorentz_deltaRapidityPhi.k_rhophi_eta_tau_xy_theta_tau, c08_lorentz_deltaRapidityPhi2_k_rhophi_eta_tau_xy_theta_tau, h0, h1, VR.P.nanToNum_eq]

theorem c08_lorentz_deltaRapidityPhi_k_rhophi_eta_tau_xy_z_t (coord11 coord12 coord13 coord14 coord21 coord22 coord23 coord24 : ℝ) (h0 : 0 ≤ coord14) :
    VS.lorentz_deltaRapidityPhi.k_rhophi_eta_tau_xy_z_t coord11 coord12 coord13 coord14 coord21 coord22 coord23 coord24 = VR.lorentz_deltaRapidityPhi.k_rhophi_eta_tau_xy_z_t coord11 coord12 coord13 coord14 coord21 coord22 coord23 coord24 := by
  simp only [VS.lorentz_deltaRapidityPhi.k_rhophi_eta_tau_xy_z_t, VR.lorentz_deltaRapidityPhi.k_rhophi_eta_tau_xy_z_t, c08_lorentz_deltaRapidityPhi2_k_rhophi_eta_tau_xy_z_t, h0, VR.P.nanToNum_eq]

theorem c08_lorentz_deltaRapidityPhi_k_rhophi_eta_tau_xy_z_tau (coord11 coord12 coord13 coord14 coord21 coord22 coord23 coord24 : ℝ) (h0 : 0 ≤ coord14) (h1 : 0 ≤ coord24) :
    VS.lorentz_deltaRapidityPhi.k_rhophi_eta_tau_xy_z_tau coord11 coord12 coord13 coord14 coord21 coord22 coord23 coord24 = VR.lorentz_deltaRapidityPhi.k_rhophi_eta_tau_xy_z_tau coord11 coord12 coord13 coord14 coord21 coord22 coord23 coord24 := by
  simp only [VS.lorentz_deltaRapidityPhi.k_rhophi_eta_tau_xy_z_tau, VR.lorentz_deltaRapidityPhi.k_rhophi_eta_tau_xy_z_tau, c08_lorentz_deltaRapidityPhi2_k_rhophi_eta_tau_xy_z_tau, h0, h1, VR.P.nanToNum_eq]

theorem c08_lorentz_deltaRapidityPhi_k_rhophi_theta_t_rhophi_eta_tau (coord11 coord12 coord13 coord14 coord21 coord22 coord23 coord24 : ℝ) (h0 : 0 ≤ coord24) :
    VS.lorentz_deltaRapidityPhi.k_rhophi_theta_t_rhophi_eta_tau coord11 coord12 coord13 coord14 coord21 coord22 coord23 coord24 = VR.lorentz_deltaRapidityPhi.k_rhophi_theta_t_rhophi_eta_tau coord11 coord12 coord13 coord14 coord21 coord22 coord23 coord24 := by
  simp only [VS.lorentz_deltaRapidityPhi.k_rhophi_theta_t_rhophi_eta_tau, VR.lorentz_deltaRapidityPhi.k_rhophi_theta_t_rhophi_eta_tau, c08_lorentz_deltaRapidityPhi2_k_rhophi_theta_t_rhophi_eta_tau, h0, VR.P.nanToNum_eq]

theorem c08_lorentz_deltaRapidityPhi_k_rhophi_theta_t_rhophi_theta_tau (coord11 coord12 coord13 coord14 coord21 coord22 coord23 coord24 : ℝ) (h0 : 0 ≤ coord24) :
    VS.lorentz_deltaRapidityPhi.k_rhophi_theta_t_rhophi_theta_tau coord11 coord12 coord13 coord14 coord21 coord22 coord23 coord24 = VR.lorentz_deltaRapidityPhi.k_rhophi_theta_t_rhophi_theta_tau coord11 coord12 coord13 coord14 coord21 coord22 coord23 coord24 := by
  simp only [VS.lorentz_deltaRapidityPhi.k_rhophi_theta_t_rhophi_theta_tau, VR.lorentz_deltaRapidityPhi.k_rhophi_theta_t_rhophi_theta_tau, c08_lorentz_deltaRapidityPhi2_k_rhophi_theta_t_rhophi_theta_tau, h0, VR.P.nanToNum_eq]

theorem c08_lorentz_deltaRapidityPhi_k_rhophi_theta_t_rhophi_z_tau (coord11 coord12 coord13 coord14 coord21 coord22 coord23 coord24 : ℝ) (h0 : 0 ≤ coord24) :
    VS.lorentz_deltaRapidityPhi.k_rhophi_theta_t_rhophi_z_tau coord11 coord12 coord13 coord14 coord21 coord22 coord23 coord24 = VR.lorentz_deltaRapidityPhi.k_rhophi_theta_t_rhophi_z_tau coord11 coord12 coord13 coord14 coord21 coord22 coord23 coord24 := by
  simp only [VS.lorentz_deltaRapidityPhi.k_rhophi_theta_t_rhophi_z_tau, VR.lorentz_deltaRapidityPhi.k_rhophi_theta_t_rhophi_z_tau, c08_lorentz_deltaRapidityPhi2_k_rhophi_theta_t_rhophi_z_tau, h0, VR.P.nanToNum_eq]

theorem c08_lorentz_deltaRapidityPhi_k_rhophi_theta_t_xy_eta_tau (coord11 coord12 coord13 coord14 coord21 coord22 coord23 coord24 : ℝ) (h0 : 0 ≤ coord24) :
    VS.lorentz_deltaRapidityPhi.k_rhophi_theta_t_xy_eta_tau coord11 coord12 coord13 coord14 coord21 coord22 coord23 coord24 = VR.lorentz_deltaRapidityPhi.k_rhophi_theta_t_xy_eta_tau coord11 coord12 coord13 coord14 coord21 coord22 coord23 coord24 := by
  simp only [VS.lorentz_deltaRapidityPhi.k_rhophi_theta_t_xy_eta_tau, VR.lorentz_deltaRapidityPhi.k_rhophi_theta_t_xy_eta_tau, c08_lorentz_deltaRapidityPhi2_k_rhophi_theta_t_xy_eta_tau, h0, VR.P.nanToNum_eq]

theorem c08_lorentz_deltaRapidityPhi_k_rhophi_theta_t_xy_theta_tau (coord11 coord12 coord13 coord14 coord21 coord22 coord23 coord24 : ℝ) (h0 : 0 ≤ coord24) :
    VS.lorentz_deltaRapidityPhi.k_rhophi_theta_t_xy_theta_tau coord11 coord12 coord13 coord14 coord21 coord22 coord23 coord24 = VR.lorentz_deltaRapidityPhi.k_rhophi_theta_t_xy_theta_tau coord11 coord12 coord13 coord14 coord21 coord22 coord23 coord24 := by
  simp only [VS.lorentz_deltaRapidityPhi.k_rhophi_theta_t_xy_theta_tau, VR.lorentz_deltaRapidityPhi.k_rhophi_theta_t_xy_theta_tau, c08_lorentz_deltaRapidityPhi2_k_rhophi_theta_t_xy_theta_tau, h0, VR.P.nanToNum_eq]

theorem c08_lorentz_deltaRapidityPhi_k_rhophi_theta_t_xy_z_tau (coord11 coord12 coord13 coord14 coord21 coord22 coord23 coord24 : ℝ) (h0 : 0 ≤ coord24) :
    VS.lorentz_deltaRapidityPhi.k_rhophi_theta_t_xy_z_tau coord11 coord12 coord13 coord14 coord21 coord22 coord23 coord24 = VR.lorentz_deltaRapidityPhi.k_rhophi_theta_t_xy_z_tau coord11 coord12 coord13 coord14 coord21 coord22 coord23 coord24 := by
  simp only [VS.lorentz_deltaRapidityPhi.k_rhophi_theta_t_xy_z_tau, VR.lorentz_deltaRapidityPhi.k_rhophi_theta_t_xy_z_tau, c08_lorentz_deltaRapidityPhi2_k_rhophi_theta_t_xy_z_tau, h0, VR.P.nanToNum_eq]

theorem c08_lorentz_deltaRapidityPhi_k_rhophi_theta_tau_rhophi_eta_t (coord11 coord12 coord13 coord14 coord21 coord22 coord23 coord24 : ℝ) (h0 : 0 ≤ coord14) :
    VS.lorentz_deltaRapidityPhi.k_rhophi_theta_tau_rhophi_eta_t coord11 coord12 coord13 coord14 coord21 coord22 coord23 coord24 = VR.lorentz_deltaRapidityPhi.k_rhophi_theta_tau_rhophi_eta_t coord11 coord12 coord13 coord14 coord21 coord22 coord23 coord24 := by
  simp only [VS.lorentz_deltaRapidityPhi.k_rhophi_theta_tau_rhophi_eta_t, VR.lorentz_deltaRapidityPhi.k_rhophi_theta_tau_rhophi_eta_t, c08_lorentz_deltaRapidityPhi2_k_rhophi_theta_tau_rhophi_eta_t, h0, VR.P.nanToNum_eq]

theorem c08_lorentz_deltaRapidityPhi_k_rhophi_theta_tau_rhophi_eta_tau (coord11 coord12 coord13 coord14 coord21 coord22 coord23 coord24 : ℝ) (h0 : 0 ≤ coord14) (h1 : 0 ≤ coord24) :
    VS.lorentz_deltaRapidityPhi.k_rhophi_theta_tau_rhophi_eta_tau coord11 coord12 coord13 coord14 coord21 coord22 coord23 coord24 = VR.lorentz_deltaRapidityPhi.k_rhophi_theta_tau_rhophi_eta_tau coord11 coord12 coord13 coord14 coord21 coord22 coord23 coord24 := by
  simp only [VS.lorentz_deltaRapidityPhi.k_rhophi_theta_tau_rhophi_eta_tau, VR.lorentz_deltaRapidityPhi.k_rhophi_theta_tau_rhophi_eta_tau, c08_lorentz_deltaRapidityPhi2_k_rhophi_theta_tau_rhophi_eta_tau, h0, h1, VR.P.nanToNum_eq]

theorem c08_lorentz_deltaRapidityPhi_k_rhophi_theta_tau_rhophi_theta_t (coord11 coord12 coord13 coord14 coord21 coord22 coord23 coord24 : ℝ) (h0 : 0 ≤ coord14) :
    VS.lorentz_deltaRapidityPhi.k_rhophi_theta_tau_rhophi_theta_t coord11 coord12 coord13 coord14 coord21 coord22 coord23 coord24 = VR.lorentz_deltaRapidityPhi.k_rhophi_theta_tau_rhophi_theta_t coord11 coord12 coord13 coord14 coord21 coord22 coord23 coord24 := by
  simp only [VS.lorentz_deltaRapidityPhi.k_rhophi_theta_tau_rhophi_theta_t, VR.lorentz_deltaRapidityPhi.k_rhophi_theta_tau_rhophi_theta_t, c08_lorentz_deltaRapidityPhi2_k_rhophi_theta_tau_rhophi_theta_t, h0, VR.P.nanToNum_eq]

theorem c08_lorentz_deltaRapidityPhi_k_rhophi_theta_tau_rhophi_theta_tau (coord11 coord12 coord13 coord14 coord21 coord22 coord23 coord24 : ℝ) (h0 : 0 ≤ coord14) (h1 : 0 ≤ coord24) :
    VS.lorentz_deltaRapidityPhi.k_rhophi_theta_tau_rhophi_theta_tau coord11 coord12 coord13 coord14 coord21 coord22 coord23 coord24 = VR.lorentz_deltaRapidityPhi.k_rhophi_theta_tau_rhophi_theta_tau coord11 coord12 coord13 coord14 coord21 coord22 coord23 coord24 := by
  simp only [VS.lorentz_deltaRapidityPhi.k_rhophi_theta_tau_rhophi_theta_tau, VR.lorentz_deltaRapidityPhi.k_rhophi_theta_tau_rhophi_theta_tau, c08_lorentz_deltaRapidityPhi2_k_rhophi_theta_tau_rhophi_theta_tau, h0, h1, VR.P.nanToNum_eq]

theorem c08_lorentz_deltaRapidityPhi_k_rhophi_theta_tau_rhophi_z_t (coord11 coord12 coord13 coord14 coord21 coord22 coord23 coord24 : ℝ) (h0 : 0 ≤ coord14) :
    VS.lorentz_deltaRapidityPhi.k_rhophi_theta_tau_rhophi_z_t coord11 coord12 coord13 coord14 coord21 coord22 coord23 coord24 = VR.lorentz_deltaRapidityPhi.k_rhophi_theta_tau_rhophi_z_t coord11 coord12 coord13 coord14 coord21 coord22 coord23 coord24 := by
  simp only [VS.lorentz_deltaRapidityPhi.k_rhophi_theta_tau_rhophi_z_t, VR.lorentz_deltaRapidityPhi.k_rhophi_theta_tau_rhophi_z_t, c08_lorentz_deltaRapidityPhi2_k_rhophi_theta_tau_rhophi_z_t, h0, VR.P.nanToNum_eq]

theorem c08_lorentz_deltaRapidityPhi_k_rhophi_theta_tau_rhophi_z_tau (coord11 coord12 coord13 coord14 coord21 coord22 coord23 coord24 : ℝ) (h0 : 0 ≤ coord14) (h1 : 0 ≤ coord24) :
    VS.lorentz_deltaRapidityPhi.k_rhophi_theta_tau_rhophi_z_tau coord11 coord12 coord13 coord14 coord21 coord22 coord23 coord24 = VR.lorentz_deltaRapidityPhi.k_rhophi_theta_tau_rhophi_z_tau coord11 coord12 coord13 coord14 coord21 coord22 coord23 coord24 := by
  simp only [VS.lorentz_deltaRapidityPhi.k_rhophi_theta_tau_rhophi_z_tau, VR.lorentz_deltaRapidityPhi.k_rhophi_theta_tau_rhophi_z_tau, c08_lorentz_deltaRapidityPhi2_k_rhophi_theta_tau_rhophi_z_tau, h0, h1, VR.P.nanToNum_eq]

theorem c08_lorentz_deltaRapidityPhi_k_rhophi_theta_tau_xy_eta_t (coord11 coord12 coord13 coord14 coord21 coord22 coord23 coord24 : ℝ) (h0 : 0 ≤ coord14) :
    VS.lorentz_deltaRapidityPhi.k_rhophi_theta_tau_xy_eta_t coord11 coord12 coord13 coord14 coord21 coord22 coord23 coord24 = VR.lorentz_deltaRapidityPhi.k_rhophi_theta_tau_xy_eta_t coord11 coord12 coord13 coord14 coord21 coord22 coord23 coord24 := by
  simp only [VS.lorentz_deltaRapidityPhi.k_rhophi_theta_tau_xy_eta_t, VR.lorentz_deltaRapidityPhi.k_rhophi_theta_tau_xy_eta_t, c08_lorentz_deltaRapidityPhi2_k_rhophi_theta_tau_xy_eta_t, h0, VR.P.nanToNum_eq]

theorem c08_lorentz_deltaRapidityPhi_k_rhophi_theta_tau_xy_eta_tau (coord11 coord12 coord13 coord14 coord21 coord22 coord23 coord24 : ℝ) (h0 : 0 ≤ coord14) (h1 : 0 ≤ coord24) :
    VS.lorentz_deltaRapidityPhi.k_rhophi_theta_tau_xy_eta_tau coord11 coord12 coord13 coord14 coord21 coord22 coord23 coord24 = VR.lorentz_deltaRapidityPhi.k_rhophi_theta_tau_xy_eta_tau coord11 coord12 coord13 coord14 coord21 coord22 coord23 coord24 := by
  simp only [VS.lorentz_deltaRapidityPhi.k_rhophi_theta_tau_xy_eta_tau, VR.lorentz_deltaRapidityPhi.k_rhophi_theta_tau_xy_eta_tau, c08_lorentz_deltaRapidityPhi2_k_rhophi_theta_tau_xy_eta_tau, h0, h1, VR.P.nanToNum_eq]

theorem c08_lorentz_deltaRapidityPhi_k_rhophi_theta_tau_xy_theta_t (coord11 coord12 coord13 coord14 coord21 coord22 coord23 coord24 : ℝ) (h0 : 0 ≤ coord14) :
    VS.lorentz_deltaRapidityPhi.k_rhophi_theta_tau_xy_theta_t coord11 coord12 coord13 coord14 coord21 coord22 coord23 coord24 = VR.lorentz_deltaRapidityPhi.k_rhophi_theta_tau_xy_theta_t coord11 coord12 coord13 coord14 coord21 coord22 coord23 coord24 := by
  simp only [VS.lorentz_deltaRapidityPhi.k_rhophi_theta_tau_xy_theta_t, VR.lorentz_deltaRapidityPhi.k_rhophi_theta_tau_xy_theta_t, c08_lorentz_deltaRapidityPhi2_k_rhophi_theta_tau_xy_theta_t, h0, VR.P.nanToNum_eq]

theorem c08_lorentz_deltaRapidityPhi_k_rhophi_theta_tau_xy_theta_tau (coord11 coord12 coord13 coord14 coord21 coord22 coord23 coord24 : ℝ) (h0 : 0 ≤ coord14) (h1 : 0 ≤ coord24) :
    VS.lorentz_deltaRapidityPhi.k_rhophi_theta_tau_xy_theta_tau coord11 coord12 coord13 coord14 coord21 coord22 coord23 coord24 = VR.lorentz_deltaRapidityPhi.k_rhophi_theta_tau_xy_theta_tau coord11 coord12 coord13 coord14 coord21 coord22 coord23 coord24 := by
  simp only [VS.lorentz_deltaRapidityPhi.k_rhophi_theta_tau_xy_theta_tau, VR.lorentz_deltaRapidityPhi.k_rhophi_theta_tau_xy_theta_tau, c08_lorentz_deltaRapidityPhi2_k_rhophi_theta_tau_xy_theta_tau, h0, h1, VR.P.nanToNum_eq]

theorem c08_lorentz_deltaRapidityPhi_k_rhophi_theta_tau_xy_z_t (coord11 coord12 coord13 coord14 coord21 coord22 coord23 coord24 : ℝ) (h0 : 0 ≤ coord14) :
    VS.lorentz_deltaRapidityPhi.k_rhophi_theta_tau_xy_z_t coord11 coord12 coord13 coord14 coord21 coord22 coord23 coord24 = VR.lorentz_deltaRapidityPhi.k_rhophi_theta_tau_xy_z_t coord11 coord12 coord13 coord14 coord21 coord22 coord23 coord24 := by
  simp only [VS.lorentz_deltaRapidityPhi.k_rhophi_theta_tau_xy_z_t, VR.lorentz_deltaRapidityPhi.k_rhophi_theta_tau_xy_z_t, c08_lorentz_deltaRapidityPhi2_k_rhophi_theta_tau_xy_z_t, h0, VR.P.nanToNum_eq]

theorem c08_lorentz_deltaRapidityPhi_k_rhophi_theta_tau_xy_z_tau (coord11 coord12 coord13 coord14 coord21 coord22 coord23 coord24 : ℝ) (h0 : 0 ≤ coord14) (h1 : 0 ≤ coord24) :
    VS.lorentz_deltaRapidityPhi.k_rhophi_theta_tau_xy_z_tau coord11 coord12 coord13 coord14 coord21 coord22 coord23 coord24 = VR.lorentz_deltaRapidityPhi.k_rhophi_theta_tau_xy_z_tau coord11 coord12 coord13 coord14 coord21 coord22 coord23 coord24 := by
  simp only [VS.lorentz_deltaRapidityPhi.k_rhophi_theta_tau_xy_z_tau, VR.lorentz_deltaRapidityPhi.k_rhophi_theta_tau_xy_z_tau, c08_lorentz_deltaRapidityPhi2_k_rhophi_theta_tau_xy_z_tau, h0, h1, VR.P.nanToNum_eq]

theorem c08_lorentz_deltaRapidityPhi_k_rhophi_z_t_rhophi_eta_tau (coord11 coord12 coord13 coord14 coord21 coord22 coord23 coord24 : ℝ) (h0 : 0 ≤ coord24) :
    VS.lorentz_deltaRapidityPhi.k_rhophi_z_t_rhophi_eta_tau coord11 coord12 coord13 coord14 coord21 coord22 coord23 coord24 = VR.lorentz_deltaRapidityPhi.k_rhophi_z_t_rhophi_eta_tau coord11 coord12 coord13 coord14 coord21 coord22 coord23 coord24 := by
  simp only [VS.lorentz_deltaRapidityPhi.k_rhophi_z_t_rhophi_eta_tau, VR.lorentz_deltaRapidityPhi.k_rhophi_z_t_rhophi_eta_tau, c08_lorentz_deltaRapidityPhi2_k_rhophi_z_t_rhophi_eta_tau, h0, VR.P.nanToNum_eq]

theorem c08_lorentz_deltaRapidityPhi_k_rhophi_z_t_rhophi_theta_tau (coord11 coord12 coord13 coord14 coord21 coord22 coord23 coord24 : ℝ) (h0 : 0 ≤ coord24) :
    VS.lorentz_deltaRapidityPhi.k_rhophi_z_t_rhophi_theta_tau coord11 coord12 coord13 coord14 coord21 coord22 coord23 coord24 = VR.lorentz_deltaRapidityPhi.k_rhophi_z_t_rhophi_theta_tau coord11 coord12 coord13 coord14 coord21 coord22 coord23 coord24 := by
  simp only [VS.lorentz_deltaRapidityPhi.k_rhophi_z_t_rhophi_theta_tau, VR.lorentz_deltaRapidityPhi.k_rhophi_z_t_rhophi_theta_tau, c08_lorentz_deltaRapidityPhi2_k_rhophi_z_t_rhophi_theta_tau, h0, VR.P.nanToNum_eq]

theorem c08_lorentz_deltaRapidityPhi_k_rhophi_z_t_rhophi_z_tau (coord11 coord12 coord13 coord14 coord21 coord22 coord23 coord24 : ℝ) (h0 : 0 ≤ coord24) :
    VS.lorentz_deltaRapidityPhi.k_rhophi_z_t_rhophi_z_tau coord11 coord12 coord13 coord14 coord21 coord22 coord23 coord24 = VR.lorentz_deltaRapidityPhi.k_rhophi_z_t_rhophi_z_tau coord11 coord12 coord13 coord14 coord21 coord22 coord23 coord24 := by
  simp only [VS.lorentz_deltaRapidityPhi.k_rhophi_z_t_rhophi_z_tau, VR.lorentz_deltaRapidityPhi.k_rhophi_z_t_rhophi_z_tau, c08_lorentz_deltaRapidityPhi2_k_rhophi_z_t_rhophi_z_tau, h0, VR.P.nanToNum_eq]

theorem c08_lorentz_deltaRapidityPhi_k_rhophi_z_t_xy_eta_tau (coord11 coord12 coord13 coord14 coord21 coord22 coord23 coord24 : ℝ) (h0 : 0 ≤ coord24) :
    VS.lorentz_deltaRapidityPhi.k_rhophi_z_t_xy_eta_tau coord11 coord12 coord13 coord14 coord21 coord22 coord23 coord24 = VR.lorentz_deltaRapidityPhi.k_rhophi_z_t_xy_eta_tau coord11 coord12 coord13 coord14 coord21 coord22 coord23 coord24 := by
  simp only [VS.lorentz_deltaRapidityPhi.k_rhophi_z_t_xy_eta_tau, VR.lorentz_deltaRapidityPhi.k_rhophi_z_t_xy_eta_tau, c08_lorentz_deltaRapidityPhi2_k_rhophi_z_t_xy_eta_tau, h0, VR.P.nanToNum_eq]

theorem c08_lorentz_deltaRapidityPhi_k_rhophi_z_t_xy_theta_tau (coord11 coord12 coord13 coord14 coord21 coord22 coord23 coord24 : ℝ) (h0 : 0 ≤ coord24) :
    VS.lorentz_deltaRapidityPhi.k_rhophi_z_t_xy_theta_tau coord11 coord12 coord13 coord14 coord21 coord22 coord23 coord24 = VR.lorentz_deltaRapidityPhi.k_rhophi_z_t_xy_theta_tau coord11 coord12 coord13 coord14 coord21 coord22 coord23 coord24 := by
  simp only [VS.lorentz_deltaRapidityPhi.k_rhophi_z_t_xy_theta_tau, VR.lorentz_deltaRapidityPhi.k_rhophi_z_t_xy_theta_tau, c08_lorentz_deltaRapidityPhi2_k_rhophi_z_t_xy_theta_tau, h0, VR.P.nanToNum_eq]

theorem c08_lorentz_deltaRapidityPhi_k_rhophi_z_t_xy_z_tau (coord11 coord12 coord13 coord14 coord21 coord22 coord23 coord24 : ℝ) (h0 : 0 ≤ coord24) :
    VS.lorentz_deltaRapidityPhi.k_rhophi_z_t_xy_z_tau coord11 coord12 coord13 coord14 coord21 coord22 coord23 coord24 = VR.lorentz_deltaRapidityPhi.k_rhophi_z_t_xy_z_tau coord11 coord12 coord13 coord14 coord21 coord22 coord23 coord24 := by
  simp only [VS.lorentz_deltaRapidityPhi.k_rhophi_z_t_xy_z_tau, VR.lorentz_deltaRapidityPhi.k_rhophi_z_t_xy_z_tau, c08_lorentz_deltaRapidityPhi2_k_rhophi_z_t_xy_z_tau, h0, VR.P.nanToNum_eq]

theorem c08_lorentz_deltaRapidityPhi_k_rhophi_z_tau_rhophi_eta_t (coord11 coord12 coord13 coord14 coord21 coord22 coord23 coord24 : ℝ) (h0 : 0 ≤ coord14) :
    VS.lorentz_deltaRapidityPhi.k_rhophi_z_tau_rhophi_eta_t coord11 coord12 coord13 coord14 coord21 coord22 coord23 coord24 = VR.lorentz_deltaRapidityPhi.k_rhophi_z_tau_rhophi_eta_t coord11 coord12 coord13 coord14 coord21 coord22 coord23 coord24 := by
  simp only [VS.lorentz_deltaRapidityPhi.k_rhophi_z_tau_rhophi_eta_t, VR.lorentz_deltaRapidityPhi.k_rhophi_z_tau_rhophi_eta_t, c08_lorentz_deltaRapidityPhi2_k_rhophi_z_tau_rhophi_eta_t, h0, VR.P.nanToNum_eq]

theorem c08_lorentz_deltaRapidityPhi_k_rhophi_z_tau_rhophi_eta_tau (coord11 coord12 coord13 coord14 coord21 coord22 coord23 coord24 : ℝ) (h0 : 0 ≤ coord14) (h1 : 0 ≤ coord24) :
    VS.lorentz_deltaRapidityPhi.k_rhophi_z_tau_rhophi_eta_tau coord11 coord12 coord13 coord14 coord21 coord22 coord23 coord24 = VR.lorentz_deltaRapidityPhi.k_rhophi_z_tau_rhophi_eta_tau coord11 coord12 coord13 coord14 coord21 coord22 coord23 coord24 := by
  simp only [VS.lorentz_deltaRapidityPhi.k_rhophi_z_tau_rhophi_eta_tau, VR.lorentz_deltaRapidityPhi.k_rhophi_z_tau_rhophi_eta_tau, c08_lorentz_deltaRapidityPhi2_k_rhophi_z_tau_rhophi_eta_tau, h0, h1, VR.P.nanToNum_eq]

theorem c08_lorentz_deltaRapidityPhi_k_rhophi_z_tau_rhophi_theta_t (coord11 coord12 coord13 coord14 coord21 coord22 coord23 coord24 : ℝ) (h0 : 0 ≤ coord14) :
    VS.lorentz_deltaRapidityPhi.k_rhophi_z_tau_rhophi_theta_t coord11 coord12 coord13 coord14 coord21 coord22 coord23 coord24 = VR.lorentz_deltaRapidityPhi.k_rhophi_z_tau_rhophi_theta_t coord11 coord12 coord13 coord14 coord21 coord22 coord23 coord24 := by
  simp only [VS.lorentz_deltaRapidityPhi.k_rhophi_z_tau_rhophi_theta_t, VR.lorentz_deltaRapidityPhi.k_rhophi_z_tau_rhophi_theta_t, c08_lorentz_deltaRapidityPhi2_k_rhophi_z_tau_rhophi_theta_t, h0, VR.P.nanToNum_eq]

theorem c08_lorentz_deltaRapidityPhi_k_rhophi_z_tau_rhophi_theta_tau (coord11 coord12 coord13 coord14 coord21 coord22 coord23 coord24 : ℝ) (h0 : 0 ≤ coord14) (h1 : 0 ≤ coord24) :
    VS.lorentz_deltaRapidityPhi.k_rhophi_z_tau_rhophi_theta_tau coord11 coord12 coord13 coord14 coord21 coord22 coord23 coord24 = VR.lorentz_deltaRapidityPhi.k_rhophi_z_tau_rhophi_theta_tau coord11 coord12 coord13 coord14 coord21 coord22 coord23 coord24 := by
  simp only [VS.lorentz_deltaRapidityPhi.k_rhophi_z_tau_rhophi_theta_tau, VR.lorentz_deltaRapidityPhi.k_rhophi_z_tau_rhophi_theta_tau, c08_lorentz_deltaRapidityPhi2_k_rhophi_z_tau_rhophi_theta_tau, h0, h1, VR.P.nanToNum_eq]

theorem c08_lorentz_deltaRapidityPhi_k_rhophi_z_tau_rhophi_z_t (coord11 coord12 coord13 coord14 coord21 coord22 coord23 coord24 : ℝ) (h0 : 0 ≤ coord14) :
    VS.lorentz_deltaRapidityPhi.k_rhophi_z_tau_rhophi_z_t coord11 coord12 coord13 coord14 coord21 coord22 coord23 coord24 = VR.lorentz_deltaRapidityPhi.k_rhophi_z_tau_rhophi_z_t coord11 coord12 coord13 coord14 coord21 coord22 coord23 coord24 := by
  simp only [VS.lorentz_deltaRapidityPhi.k_rhophi_z_tau_rhophi_z_t, VR.lorentz_deltaRapidityPhi.k_rhophi_z_tau_rhophi_z_t, c08_lorentz_deltaRapidityPhi2_k_rhophi_z_tau_rhophi_z_t, h0, VR.P.nanToNum_eq]

theorem c08_lorentz_deltaRapidityPhi_k_rhophi_z_tau_rhophi_z_tau (coord11 coord12 coord13 coord14 coord21 coord22 coord23 coord24 : ℝ) (h0 : 0 ≤ coord14) (h1 : 0 ≤ coord24) :
    VS.lorentz_deltaRapidityPhi.k_rhophi_z_tau_rhophi_z_tau coord11 coord12 coord13 coord14 coord21 coord22 coord23 coord24 = VR.lorentz_deltaRapidityPhi.k_rhophi_z_tau_rhophi_z_tau coord11 coord12 coord13 coord14 coord21 coord22 coord23 coord24 := by
  simp only [VS.lorentz_deltaRapidityPhi.k_rhophi_z_tau_rhophi_z_tau, VR.lorentz_deltaRapidityPhi.k_rhophi_z_tau_rhophi_z_tau, c08_lorentz_deltaRapidityPhi2_k_rhophi_z_tau_rhophi_z_tau, h0, h1, VR.P.nanToNum_eq]

theorem c08_lorentz_deltaRapidityPhi_k_rhophi_z_tau_xy_eta_t (coord11 coord12 coord13 coord14 coord21 coord22 coord23 coord24 : ℝ) (h0 : 0 ≤ coord14) :
    VS.lorentz_deltaRapidityPhi.k_rhophi_z_tau_xy_eta_t coord11 coord12 coord13 coord14 coord21 coord22 coord23 coord24 = VR.lorentz_deltaRapidityPhi.k_rhophi_z_tau_xy_eta_t coord11 coord12 coord13 coord14 coord21 coord22 coord23 coord24 := by
  simp only [VS.lorentz_deltaRapidityPhi.k_rhophi_z_tau_xy_eta_t, VR.lorentz_deltaRapidityPhi.k_rhophi_z_tau_xy_eta_t, c08_lorentz_deltaRapidityPhi2_k_rhophi_z_tau_xy_eta_t, h0, VR.P.nanToNum_eq]

theorem c08_lorentz_deltaRapidityPhi_k_rhophi_z_tau_xy_eta_tau (coord11 coord12 coord13 coord14 coord21 coord22 coord23 coord24 : ℝ) (h0 : 0 ≤ coord14) (h1 : 0 ≤ coord24) :
    VS.lorentz_deltaRapidityPhi.k_rhophi_z_tau_xy_eta_tau coord11 coord12 coord13 coord14 coord21 coord22 coord23 coord24 = VR.lorentz_deltaRapidityPhi.k_rhophi_z_tau_xy_eta_tau coord11 coord12 coord13 coord14 coord21 coord22 coord23 coord24 := by
  simp only [VS.lorentz_deltaRapidityPhi.k_rhophi_z_tau_xy_eta_tau, VR.lorentz_deltaRapidityPhi.k_rhophi_z_tau_xy_eta_tau, c08_lorentz_deltaRapidityPhi2_k_rhophi_z_tau_xy_eta_tau, h0, h1, VR.P.nanToNum_eq]

theorem c08_lorentz_deltaRapidityPhi_k_rhophi_z_tau_xy_theta_t (coord11 coord12 coord13 coord14 coord21 coord22 coord23 coord24 : ℝ) (h0 : 0 ≤ coord14) :
    VS.lorentz_deltaRapidityPhi.k_rhophi_z_tau_xy_theta_t coord11 coord12 coord13 coord14 coord21 coord22 coord23 coord24 = VR.lorentz_deltaRapidityPhi.k_rhophi_z_tau_xy_theta_t coord11 coord12 coord13 coord14 coord21 coord22 coord23 coord24 := by
  simp only [VS.lorentz_deltaRapidityPhi.k_rhophi_z_tau_xy_theta_t, VR.lorentz_deltaRapidityPhi.k_rhophi_z_tau_xy_theta_t, c08_lorentz_deltaRapidityPhi2_k_rhophi_z_tau_xy_theta_t, h0, VR.P.nanToNum_eq]

theorem c08_lorentz_deltaRapidityPhi_k_rhophi_z_tau_xy_theta_tau (coord11 coord12 coord13 coord14 coord21 coord22 coord23 coord24 : ℝ) (h0 : 0 ≤ coord14) (h1 : 0 ≤ coord24) :
    VS.lorentz_deltaRapidityPhi.k_rhophi_z_tau_xy_theta_tau coord11 coord12 coord13 coord14 coord21 coord22 coord23 coord24 = VR.lorentz_deltaRapidityPhi.k_rhophi_z_tau_xy_theta_tau coord11 coord12 coord13 coord14 coord21 coord22 coord23 coord24 := by
  simp only [VS.lorentz_deltaRapidityPhi.k_rhophi_z_tau_xy_theta_tau, VR.lorentz_deltaRapidityPhi.k_rhophi_z_tau_xy_theta_tau, c08_lorentz_deltaRapidityPhi2_k_rhophi_z_tau_xy_theta_tau, h0, h1, VR.P.nanToNum_eq]

theorem c08_lorentz_deltaRapidityPhi_k_rhophi_z_tau_xy_z_t (coord11 coord12 coord13 coord14 coord21 coord22 coord23 coord24 : ℝ) (h0 : 0 ≤ coord14) :
    VS.lorentz_deltaRapidityPhi.k_rhophi_z_tau_xy_z_t coord11 coord12 coord13 coord14 coord21 coord22 coord23 coord24 = VR.lorentz_deltaRapidityPhi.k_rhophi_z_tau_xy_z_t coord11 coord12 coord13 coord14 coord21 coord22 coord23 coord24 := by
  simp only [VS.lorentz_deltaRapidityPhi.k_rhophi_z_tau_xy_z_t, VR.lorentz_deltaRapidityPhi.k_rhophi_z_tau_xy_z_t, c08_lorentz_deltaRapidityPhi2_k_rhophi_z_tau_xy_z_t, h0, VR.P.nanToNum_eq]

theorem c08_lorentz_deltaRapidityPhi_k_rhophi_z_tau_xy_z_tau (coord11 coord12 coord13 coord14 coord21 coord22 coord23 coord24 : ℝ) (h0 : 0 ≤ coord14) (h1 : 0 ≤ coord24) :
    VS.lorentz_deltaRapidityPhi.k_rhophi_z_tau_xy_z_tau coord11 coord12 coord13 coord14 coord21 coord22 coord23 coord24 = VR.lorentz_deltaRapidityPhi.k_rhophi_z_tau_xy_z_tau coord11 coord12 coord13 coord14 coord21 coord22 coord23 coord24 := by
  simp only [VS.lorentz_deltaRapidityPhi.k_rhophi_z_tau_xy_z_tau, VR.lorentz_deltaRapidityPhi.k_rhophi_z_tau_xy_z_tau, c08_lorentz_deltaRapidityPhi2_k_rhophi_z_tau_xy_z_tau, h0, h1, VR.P.nanToNum_eq]

theorem c08_lorentz_deltaRapidityPhi_k_xy_eta_t_rhophi_eta_tau (coord11 coord12 coord13 coord14 coord21 coord22 coord23 coord24 : ℝ) (h0 : 0 ≤ coord24) :
    VS.lorentz_deltaRapidityPhi.k_xy_eta_t_rhophi_eta_tau coord11 coord12 coord13 coord14 coord21 coord22 coord23 coord24 = VR.lorentz_deltaRapidityPhi.k_xy_eta_t_rhophi_eta_tau coord11 coord12 coord13 coord14 coord21 coord22 coord23 coord24 := by
  simp only [VS.lorentz_deltaRapidityPhi.k_xy_eta_t_rhophi_eta_tau, VR.lorentz_deltaRapidityPhi.k_xy_eta_t_rhophi_eta_tau, c08_lorentz_deltaRapidityPhi2_k_xy_eta_t_rhophi_eta_tau, h0, VR.P.nanToNum_eq]

theorem c08_lorentz_deltaRapidityPhi_k_xy_eta_t_rhophi_theta_tau (coord11 coord12 coord13 coord14 coord21 coord22 coord23 coord24 : ℝ) (h0 : 0 ≤ coord24) :
    VS.lorentz_deltaRapidityPhi.k_xy_eta_t_rhophi_theta_tau coord11 coord12 coord13 coord14 coord21 coord22 coord23 coord24 = VR.lorentz_deltaRapidityPhi.k_xy_eta_t_rhophi_theta_tau coord11 coord12 coord13 coord14 coord21 coord22 coord23 coord24 := by
  simp only [VS.lorentz_deltaRapidityPhi.k_xy_eta_t_rhophi_theta_tau, VR.lorentz_deltaRapidityPhi.k_xy_eta_t_rhophi_theta_tau, c08_lorentz_deltaRapidityPhi2_k_xy_eta_t_rhophi_theta_tau, h0, VR.P.nanToNum_eq]

theorem c08_lorentz_deltaRapidityPhi_k_xy_eta_t_rhophi_z_tau (coord11 coord12 coord13 coord14 coord21 coord22 coord23 coord24 : ℝ) (h0 : 0 ≤ coord24) :
    VS.lorentz_deltaRapidityPhi.k_xy_eta_t_rhophi_z_tau coord11 coord12 coord13 coord14 coord21 coord22 coord23 coord24 = VR.lorentz_deltaRapidityPhi.k_xy_eta_t_rhophi_z_tau coord11 coord12 coord13 coord14 coord21 coord22 coord23 coord24 := by
  simp only [VS.lorentz_deltaRapidityPhi.k_xy_eta_t_rhophi_z_tau, VR.lorentz_deltaRapidityPhi.k_xy_eta_t_rhophi_z_tau, c08_lorentz_deltaRapidityPhi2_k_xy_eta_t_rhophi_z_tau, h0, VR.P.nanToNum_eq]

theorem c08_lorentz_deltaRapidityPhi_k_xy_eta_t_xy_eta_tau (coord11 coord12 coord13 coord14 coord21 coord22 coord23 coord24 : ℝ) (h0 : 0 ≤ coord24) :
    VS.lorentz_deltaRapidityPhi.k_xy_eta_t_xy_eta_tau coord11 coord12 coord13 coord14 coord21 coord22 coord23 coord24 = VR.lorentz_deltaRapidityPhi.k_xy_eta_t_xy_eta_tau coord11 coord12 coord13 coord14 coord21 coord22 coord23 coord24 := by
  simp only [VS.lorentz_deltaRapidityPhi.k_xy_eta_t_xy_eta_tau, VR.lorentz_deltaRapidityPhi.k_xy_eta_t_xy_eta_tau, c08_lorentz_deltaRapidityPhi2_k_xy_eta_t_xy_eta_tau, h0, VR.P.nanToNum_eq]

theorem c08_lorentz_deltaRapidityPhi_k_xy_eta_t_xy_theta_tau (coord11 coord12 coord13 coord14 coord21 coord22 coord23 coord24 : ℝ) (h0 : 0 ≤ coord24) :
    VS.lorentz_deltaRapidityPhi.k_xy_eta_t_xy_theta_tau coord11 coord12 coord13 coord14 coord21 coord22 coord23 coord24 = VR.lorentz_deltaRapidityPhi.k_xy_eta_t_xy_theta_tau coord11 coord12 coord13 coord14 coord21 coord22 coord23 coord24 := by
  simp only [VS.lorentz_deltaRapidityPhi.k_xy_eta_t_xy_theta_tau, VR.lorentz_deltaRapidityPhi.k_xy_eta_t_xy_theta_tau, c08_lorentz_deltaRapidityPhi2_k_xy_eta_t_xy_theta_tau, h0, VR.P.nanToNum_eq]

theorem c08_lorentz_deltaRapidityPhi_k_xy_eta_t_xy_z_tau (coord11 coord12 coord13 coord14 coord21 coord22 coord23 coord24 : ℝ) (h0 : 0 ≤ coord24) :
    VS.lorentz_deltaRapidityPhi.k_xy_eta_t_xy_z_tau coord11 coord12 coord13 coord14 coord21 coord22 coord23 coord24 = VR.lorentz_deltaRapidityPhi.k_xy_eta_t_xy_z_tau coord11 coord12 coord13 coord14 coord21 coord22 coord23 coord24 := by
  simp only [VS.lorentz_deltaRapidityPhi.k_xy_eta_t_xy_z_tau, VR.lorentz_deltaRapidityPhi.k_xy_eta_t_xy_z_tau, c08_lorentz_deltaRapidityPhi2_k_xy_eta_t_xy_z_tau, h0, VR.P.nanToNum_eq]

theorem c08_lorentz_deltaRapidityPhi_k_xy_eta_tau_rhophi_eta_t (coord11 coord12 coord13 coord14 coord21 coord22 coord23 coord24 : ℝ) (h0 : 0 ≤ coord14) :
    VS.lorentz_deltaRapidityPhi.k_xy_eta_tau_rhophi_eta_t coord11 coord12 coord13 coord14 coord21 coord22 coord23 coord24 = VR.lorentz_deltaRapidityPhi.k_xy_eta_tau_rhophi_eta_t coord11 coord12 coord13 coord14 coord21 coord22 coord23 coord24 := by
  simp only [VS.lorentz_deltaRapidityPhi.k_xy_eta_tau_rhophi_eta_t, VR.lorentz_deltaRapidityPhi.k_xy_eta_tau_rhophi_eta_t, c08_lorentz_deltaRapidityPhi2_k_xy_eta_tau_rhophi_eta_t, h0, VR.P.nanToNum_eq]

theorem c08_lorentz_deltaRapidityPhi_k_xy_eta_tau_rhophi_eta_tau (coord11 coord12 coord13 coord14 coord21 coord22 coord23 coord24 : ℝ) (h0 : 0 ≤ coord14) (h1 : 0 ≤ coord24) :
    VS.lorentz_deltaRapidityPhi.k_xy_eta_tau_rhophi_eta_tau coord11 coord12 coord13 coord14 coord21 coord22 coord23 coord24 = VR.lorentz_deltaRapidityPhi.k_xy_eta_tau_rhophi_eta_tau coord11 coord12 coord13 coord14 coord21 coord22 coord23 coord24 := by
  simp only [VS.lorentz_deltaRapidityPhi.k_xy_eta_tau_rhophi_eta_tau, VR.lorentz_deltaRapidityPhi.k_xy_eta_tau_rhophi_eta_tau, c08_lorentz_deltaRapidityPhi2_k_xy_eta_tau_rhophi_eta_tau, h0, h1, VR.P.nanToNum_eq]

theorem c08_lorentz_deltaRapidityPhi_k_xy_eta_tau_rhophi_theta_t (coord11 coord12 coord13 coord14 coord21 coord22 coord23 coord24 : ℝ) (h0 : 0 ≤ coord14) :
    VS.lorentz_deltaRapidityPhi.k_xy_eta_tau_rhophi_theta_t coord11 coord12 coord13 coord14 coord21 coord22 coord23 coord24 = VR.lorentz_deltaRapidityPhi.k_xy_eta_tau_rhophi_theta_t coord11 coord12 coord13 coord14 coord21 coord22 coord23 coord24 := by
  simp only [VS.lorentz_deltaRapidityPhi.k_xy_eta_tau_rhophi_theta_t, VR.lorentz_deltaRapidityPhi.k_xy_eta_tau_rhophi_theta_t, c08_lorentz_deltaRapidityPhi2_k_xy_eta_tau_rhophi_theta_t, h0, VR.P.nanToNum_eq]

theorem c08_lorentz_deltaRapidityPhi_k_xy_eta_tau_rhophi_theta_tau (coord11 coord12 coord13 coord14 coord21 coord22 coord23 coord24 : ℝ) (h0 : 0 ≤ coord14) (h1 : 0 ≤ coord24) :
    VS.lorentz_deltaRapidityPhi.k_xy_eta_tau_rhophi_theta_tau coord11 coord12 coord13 coord14 coord21 coord22 coord23 coord24 = VR.lorentz_deltaRapidityPhi.k_xy_eta_tau_rhophi_theta_tau coord11 coord12 coord13 coord14 coord21 coord22 coord23 coord24 := by
  simp only [VS.lorentz_deltaRapidityPhi.k_xy_eta_tau_rhophi_theta_tau, VR.lorentz_deltaRapidityPhi.k_xy_eta_tau_rhophi_theta_tau, c08_lorentz_deltaRapidityPhi2_k_xy_eta_tau_rhophi_theta_tau, h0, h1, VR.P.nanToNum_eq]

theorem c08_lorentz_deltaRapidityPhi_k_xy_eta_tau_rhophi_z_t (coord11 coord12 coord13 coord14 coord21 coord22 coord23 coord24 : ℝ) (h0 : 0 ≤ coord14) :
    VS.lorentz_deltaRapidityPhi.k_xy_eta_tau_rhophi_z_t coord11 coord12 coord13 coord14 coord21 coord22 coord23 coord24 = VR.lorentz_deltaRapidityPhi.k_xy_eta_tau_rhophi_z_t coord11 coord12 coord13 coord14 coord21 coord22 coord23 coord24 := by
  simp only [VS.lorentz_deltaRapidityPhi.k_xy_eta_tau_rhophi_z_t, VR.lorentz_deltaRapidityPhi.k_xy_eta_tau_rhophi_z_t, c08_lorentz_deltaRapidityPhi2_k_xy_eta_tau_rhophi_z_t, h0, VR.P.nanToNum_eq]

theorem c08_lorentz_deltaRapidityPhi_k_xy_eta_tau_rhophi_z_tau (coord11 coord12 coord13 coord14 coord21 coord22 coord23 coord24 : ℝ) (h0 : 0 ≤ coord14) (h1 : 0 ≤ coord24) :
    VS.lorentz_deltaRapidityPhi.k_xy_eta_tau_rhophi_z_tau coord11 coord12 coord13 coord14 coord21 coord22 coord23 coord24 = VR.lorentz_deltaRapidityPhi.k_xy_eta_tau_rhophi_z_tau coord11 coord12 coord13 coord14 coord21 coord22 coord23 coord24 := by
  simp only [VS.lorentz_deltaRapidityPhi.k_xy_eta_tau_rhophi_z_tau, VR.lorentz_deltaRapidityPhi.k_xy_eta_tau_rhophi_z_tau, c08_lorentz_deltaRapidityPhi2_k_xy_eta_tau_rhophi_z_tau, h0, h1, VR.P.nanToNum_eq]

theorem c08_lorentz_deltaRapidityPhi_k_xy_eta_tau_xy_eta_t (coord11 coord12 coord13 coord14 coord21 coord22 coord23 coord24 : ℝ) (h0 : 0 ≤ coord14) :
    VS.lorentz_deltaRapidityPhi.k_xy_eta_tau_xy_eta_t coord11 coord12 coord13 coord14 coord21 coord22 coord23 coord24 = VR.lorentz_deltaRapidityPhi.k_xy_eta_tau_xy_eta_t coord11 coord12 coord13 coord14 coord21 coord22 coord23 coord24 := by
  simp only [VS.lorentz_deltaRapidityPhi.k_xy_eta_tau_xy_eta_t, VR.lorentz_deltaRapidityPhi.k_xy_eta_tau_xy_eta_t, c08_lorentz_deltaRapidityPhi2_k_xy_eta_tau_xy_eta_t, h0, VR.P.nanToNum_eq]

theorem c08_lorentz_deltaRapidityPhi_k_xy_eta_tau_xy_eta_tau (coord11 coord12 coord13 coord14 coord21 coord22 coord23 coord24 : ℝ) (h0 : 0 ≤ coord14) (h1 : 0 ≤ coord24) :
    VS.lorentz_deltaRapidityPhi.k_xy_eta_tau_xy_eta_tau coord11 coord12 coord13 coord14 coord21 coord22 coord23 coord24 = VR.lorentz_deltaRapidityPhi.k_xy_eta_tau_xy_eta_tau coord11 coord12 coord13 coord14 coord21 coord22 coord23 coord24 := by
  simp only [VS.lorentz_deltaRapidityPhi.k_xy_eta_tau_xy_eta_tau, VR.lorentz_deltaRapidityPhi.k_xy_eta_tau_xy_eta_tau, c08_lorentz_deltaRapidityPhi2_k_xy_eta_tau_xy_eta_tau, h0, h1, VR.P.nanToNum_eq]

theorem c08_lorentz_deltaRapidityPhi_k_xy_eta_tau_xy_theta_t (coord11 coord12 coord13 coord14 coord21 coord22 coord23 coord24 : ℝ) (h0 : 0 ≤ coord14) :
    VS.lorentz_deltaRapidityPhi.k_xy_eta_tau_xy_theta_t coord11 coord12 coord13 coord14 coord21 coord22 coord23 coord24 = VR.lorentz_deltaRapidityPhi.k_xy_eta_tau_xy_theta_t coord11 coord12 coord13 coord14 coord21 coord22 coord23 coord24 := by
  simp only [VS.lorentz_deltaRapidityPhi.k_xy_eta_tau_xy_theta_t, VR.lorentz_deltaRapidityPhi.k_xy_eta_tau_xy_theta_t, c08_lorentz_deltaRapidityPhi2_k_xy_eta_tau_xy_theta_t, h0, VR.P.nanToNum_eq]

theorem c08_lorentz_deltaRapidityPhi_k_xy_eta_tau_xy_theta_tau (coord11 coord12 coord13 coord14 coord21 coord22 coord23 coord24 : ℝ) (h0 : 0 ≤ coord14) (h1 : 0 ≤ coord24) :
    VS.lorentz_deltaRapidityPhi.k_xy_eta_tau_xy_theta_tau coord11 coord12 coord13 coord14 coord21 coord22 coord23 coord24 = VR.lorentz_deltaRapidityPhi.k_xy_eta_tau_xy_theta_tau coord11 coord12 coord13 coord14 coord21 coord22 coord23 coord24 := by
  simp only [VS.lorentz_deltaRapidityPhi.k_xy_eta_tau_xy_theta_tau, VR.lorentz_deltaRapidityPhi.k_xy_eta_tau_xy_theta_tau, c08_lorentz_deltaRapidityPhi2_k_xy_eta_tau_xy_theta_tau, h0, h1, VR.P.nanToNum_eq]

theorem c08_lorentz_deltaRapidityPhi_k_xy_eta_tau_xy_z_t (coord11 coord12 coord13 coord14 coord21 coord22 coord23 coord24 : ℝ) (h0 : 0 ≤ coord14) :
    VS.lorentz_deltaRapidityPhi.k_xy_eta_tau_xy_z_t coord11 coord12 coord13 coord14 coord21 coord22 coord23 coord24 = VR.lorentz_deltaRapidityPhi.k_xy_eta_tau_xy_z_t coord11 coord12 coord13 coord14 coord21 coord22 coord23 coord24 := by
  simp only [VS.lorentz_deltaRapidityPhi.k_xy_eta_tau_xy_z_t, VR.lorentz_deltaRapidityPhi.k_xy_eta_tau_xy_z_t, c08_lorentz_deltaRapidityPhi2_k_xy_eta_tau_xy_z_t, h0, VR.P.nanToNum_eq]

theorem c08_lorentz_deltaRapidityPhi_k_xy_eta_tau_xy_z_tau (coord11 coord12 coord13 coord14 coord21 coord22 coord23 coord24 : ℝ) (h0 : 0 ≤ coord14) (h1 : 0 ≤ coord24) :
    VS.lorentz_deltaRapidityPhi.k_xy_eta_tau_xy_z_tau coord11 coord12 coord13 coord14 coord21 coord22 coord23 coord24 = VR.lorentz_deltaRapidityPhi.k_xy_eta_tau_xy_z_tau coord11 coord12 coord13 coord14 coord21 coord22 coord23 coord24 := by
  simp only [VS.lorentz_deltaRapidityPhi.k_xy_eta_tau_xy_z_tau, VR.lorentz_deltaRapidityPhi.k_xy_eta_tau_xy_z_tau, c08_lorentz_deltaRapidityPhi2_k_xy_eta_tau_xy_z_tau, h0, h1, VR.P.nanToNum_eq]

theorem c08_lorentz_deltaRapidityPhi_k_xy_theta_t_rhophi_eta_tau (coord11 coord12 coord13 coord14 coord21 coord22 coord23 coord24 : ℝ) (h0 : 0 ≤ coord24) :
    VS.lorentz_deltaRapidityPhi.k_xy_theta_t_rhophi_eta_tau coord11 coord12 coord13 coord14 coord21 coord22 coord23 coord24 = VR.lorentz_deltaRapidityPhi.k_xy_theta_t_rhophi_eta_tau coord11 coord12 coord13 coord14 coord21 coord22 coord23 coord24 := by
  simp only [VS.lorentz_deltaRapidityPhi.k_xy_theta_t_rhophi_eta_tau, VR.lorentz_deltaRapidityPhi.k_xy_theta_t_rhophi_eta_tau, c08_lorentz_deltaRapidityPhi2_k_xy_theta_t_rhophi_eta_tau, h0, VR.P.nanToNum_eq]

theorem c08_lorentz_deltaRapidityPhi_k_xy_theta_t_rhophi_theta_tau (coord11 coord12 coord13 coord14 coord21 coord22 coord23 coord24 : ℝ) (h0 : 0 ≤ coord24) :
    VS.lorentz_deltaRapidityPhi.k_xy_theta_t_rhophi_theta_tau coord11 coord12 coord13 coord14 coord21 coord22 coord23 coord24 = VR.lorentz_deltaRapidityPhi.k_xy_theta_t_rhophi_theta_tau coord11 coord12 coord13 coord14 coord21 coord22 coord23 coord24 := by
  simp only [VS.lorentz_deltaRapidityPhi.k_xy_theta_t_rhophi_theta_tau, VR.lorentz_deltaRapidityPhi.k_xy_theta_t_rhophi_theta_tau, c08_lorentz_deltaRapidityPhi2_k_xy_theta_t_rhophi_theta_tau, h0, VR.P.nanToNum_eq]

theorem c08_lorentz_deltaRapidityPhi_k_xy_theta_t_rhophi_z_tau (coord11 coord12 coord13 coord14 coord21 coord22 coord23 coord24 : ℝ) (h0 : 0 ≤ coord24) :
    VS.lorentz_deltaRapidityPhi.k_xy_theta_t_rhophi_z_tau coord11 coord12 coord13 coord14 coord21 coord22 coord23 coord24 = VR.lorentz_deltaRapidityPhi.k_xy_theta_t_rhophi_z_tau coord11 coord12 coord13 coord14 coord21 coord22 coord23 coord24 := by
  simp only [VS.lorentz_deltaRapidityPhi.k_xy_theta_t_rhophi_z_tau, VR.lorentz_deltaRapidityPhi.k_xy_theta_t_rhophi_z_tau, c08_lorentz_deltaRapidityPhi2_k_xy_theta_t_rhophi_z_tau, h0, VR.P.nanToNum_eq]

theorem c08_lorentz_deltaRapidityPhi_k_xy_theta_t_xy_eta_tau (coord11 coord12 coord13 coord14 coord21 coord22 coord23 coord24 : ℝ) (h0 : 0 ≤ coord24) :
    VS.lorentz_deltaRapidityPhi.k_xy_theta_t_xy_eta_tau coord11 coord12 coord13 coord14 coord21 coord22 coord23 coord24 = VR.lorentz_deltaRapidityPhi.k_xy_theta_t_xy_eta_tau coord11 coord12 coord13 coord14 coord21 coord22 coord23 coord24 := by
  simp only [VS.lorentz_deltaRapidityPhi.k_xy_theta_t_xy_eta_tau, VR.lorentz_deltaRapidityPhi.k_xy_theta_t_xy_eta_tau, c08_lorentz_deltaRapidityPhi2_k_xy_theta_t_xy_eta_tau, h0, VR.P.nanToNum_eq]

theorem c08_lorentz_deltaRapidityPhi_k_xy_theta_t_xy_theta_tau (coord11 coord12 coord13 coord14 coord21 coord22 coord23 coord24 : ℝ) (h0 : 0 ≤ coord24) :
    VS.lorentz_deltaRapidityPhi.k_xy_theta_t_xy_theta_tau coord11 coord12 coord13 coord14 coord21 coord22 coord23 coord24 = VR.lorentz_deltaRapidityPhi.k_xy_theta_t_xy_theta_tau coord11 coord12 coord13 coord14 coord21 coord22 coord23 coord24 := by
  simp only [VS.lorentz_deltaRapidityPhi.k_xy_theta_t_xy_theta_tau, VR.lorentz_deltaRapidityPhi.k_xy_theta_t_xy_theta_tau, c08_lorentz_deltaRapidityPhi2_k_xy_theta_t_xy_theta_tau, h0, VR.P.nanToNum_eq]

theorem c08_lorentz_deltaRapidityPhi_k_xy_theta_t_xy_z_tau (coord11 coord12 coord13 coord14 coord21 coord22 coord23 coord24 : ℝ) (h0 : 0 ≤ coord24) :
    VS.lorentz_deltaRapidityPhi.k_xy_theta_t_xy_z_tau coord11 coord12 coord13 coord14 coord21 coord22 coord23 coord24 = VR.lorentz_deltaRapidityPhi.k_xy_theta_t_xy_z_tau coord11 coord12 coord13 coord14 coord21 coord22 coord23 coord24 := by
  simp only [VS.lorentz_deltaRapidityPhi.k_xy_theta_t_xy_z_tau, VR.lorentz_deltaRapidityPhi.k_xy_theta_t_xy_z_tau, c08_lorentz_deltaRapidityPhi2_k_xy_theta_t_xy_z_tau, h0, VR.P.nanToNum_eq]

theorem c08_lorentz_deltaRapidityPhi_k_xy_theta_tau_rhophi_eta_t (coord11 coord12 coord13 coord14 coord21 coord22 coord23 coord24 : ℝ) (h0 : 0 ≤ coord14) :
    VS.lorentz_deltaRapidityPhi.k_xy_theta_tau_rhophi_eta_t coord11 coord12 coord13 coord14 coord21 coord22 coord23 coord24 = VR.lorentz_deltaRapidityPhi.k_xy_theta_tau_rhophi_eta_t coord11 coord12 coord13 coord14 coord21 coord22 coord23 coord24 := by
  simp only [VS.lorentz_deltaRapidityPhi.k_xy_theta_tau_rhophi_eta_t, VR.lorentz_deltaRapidityPhi.k_xy_theta_tau_rhophi_eta_t, c08_lorentz_deltaRapidityPhi2_k_xy_theta_tau_rhophi_eta_t, h0, VR.P.nanToNum_eq]

theorem c08_lorentz_deltaRapidityPhi_k_xy_theta_tau_rhophi_eta_tau (coord11 coord12 coord13 coord14 coord21 coord22 coord23 coord24 : ℝ) (h0 : 0 ≤ coord14) (h1 : 0 ≤ coord24) :
    VS.lorentz_deltaRapidityPhi.k_xy_theta_tau_rhophi_eta_tau coord11 coord12 coord13 coord14 coord21 coord22 coord23 coord24 = VR.lorentz_deltaRapidityPhi.k_xy_theta_tau_rhophi_eta_tau coord11 coord12 coord13 coord14 coord21 coord22 coord23 coord24 := by
  simp only [VS.lorentz_deltaRapidityPhi.k_xy_theta_tau_rhophi_eta_tau, VR.lorentz_deltaRapidityPhi.k_xy_theta_tau_rhophi_eta_tau, c08_lorentz_deltaRapidityPhi2_k_xy_theta_tau_rhophi_eta_tau, h0, h1, VR.P.nanToNum_eq]

theorem c08_lorentz_deltaRapidityPhi_k_xy_theta_tau_rhophi_theta_t (coord11 coord12 coord13 coord14 coord21 coord22 coord23 coord24 : ℝ) (h0 : 0 ≤ coord14) :
    VS.lorentz_deltaRapidityPhi.k_xy_theta_tau_rhophi_theta_t coord11 coord12 coord13 coord14 coord21 coord22 coord23 coord24 = VR.lorentz_deltaRapidityPhi.k_xy_theta_tau_rhophi_theta_t coord11 coord12 coord13 coord14 coord21 coord22 coord23 coord24 := by
  simp only [VS.lorentz_deltaRapidityPhi.k_xy_theta_tau_rhophi_theta_t, VR.lorentz_deltaRapidityPhi.k_xy_theta_tau_rhophi_theta_t, c08_lorentz_deltaRapidityPhi2_k_xy_theta_tau_rhophi_theta_t, h0, VR.P.nanToNum_eq]

theorem c08_lorentz_deltaRapidityPhi_k_xy_theta_tau_rhophi_theta_tau (coord11 coord12 coord13 coord14 coord21 coord22 coord23 coord24 : ℝ) (h0 : 0 ≤ coord24) (h1 : 0 ≤ coord14) :
    VS.lorentz_deltaRapidityPhi.k_xy_theta_tau_rhophi_theta_tau coord11 coord12 coord13 coord14 coord21 coord22 coord23 coord24 = VR.lorentz_deltaRapidityPhi.k_xy_theta_tau_rhophi_theta_tau coord11 coord12 coord13 coord14 coord21 coord22 coord23 coord24 := by
  simp only [VS.lorentz_deltaRapidityPhi.k_xy_theta_tau_rhophi_theta_tau, VR.lorentz_deltaRapidityPhi.k_xy_theta_tau_rhophi_theta_tau, c08_lorentz_deltaRapidityPhi2_k_xy_theta_tau_rhophi_theta_tau, h0, h1, VR.P.nanToNum_eq]

theorem c08_lorentz_deltaRapidityPhi_k_xy_theta_tau_rhophi_z_t (coord11 coord12 coord13 coord14 coord21 coord22 coord23 coord24 : ℝ) (h0 : 0 ≤ coord14) :
    VS.lorentz_deltaRapidityPhi.k_xy_theta_tau_rhophi_z_t coord11 coord12 coord13 coord14 coord21 coord22 coord23 coord24 = VR.lorentz_deltaRapidityPhi.k_xy_theta_tau_rhophi_z_t coord11 coord12 coord13 coord14 coord21 coord22 coord23 coord24 := by
  simp only [VS.lorentz_deltaRapidityPhi.k_xy_theta_tau_rhophi_z_t, VR.lorentz_deltaRapidityPhi.k_xy_theta_tau_rhophi_z_t, c08_lorentz_deltaRapidityPhi2_k_xy_theta_tau_rhophi_z_t, h0, VR.P.nanToNum_eq]

theorem c08_lorentz_deltaRapidityPhi_k_xy_theta_tau_rhophi_z_tau (coord11 coord12 coord13 coord14 coord21 coord22 coord23 coord24 : ℝ) (h0 : 0 ≤ coord14) (h1 : 0 ≤ coord24) :
    VS.lorentz_deltaRapidityPhi.k_xy_theta_tau_rhophi_z_tau coord11 coord12 coord13 coord14 coord21 coord22 coord23 coord24 = VR.lorentz_deltaRapidityPhi.k_xy_theta_tau_rhophi_z_tau coord11 coord12 coord13 coord14 coord21 coord22 coord23 coord24 := by
  simp only [VS.lorentz_deltaRapidityPhi.k_xy_theta_tau_rhophi_z_tau, VR.lorentz_deltaRapidityPhi.k_xy_theta_tau_rhophi_z_tau, c08_lorentz_deltaRapidityPhi2_k_xy_theta_tau_rhophi_z_tau, h0, h1, VR.P.nanToNum_eq]

theorem c08_lorentz_deltaRapidityPhi_k_xy_theta_tau_xy_eta_t (coord11 coord12 coord13 coord14 coord21 coord22 coord23 coord24 : ℝ) (h0 : 0 ≤ coord14) :
    VS.lorentz_deltaRapidityPhi.k_xy_theta_tau_xy_eta_t coord11 coord12 coord13 coord14 coord21 coord22 coord23 coord24 = VR.lorentz_deltaRapidityPhi.k_xy_theta_tau_xy_eta_t coord11 coord12 coord13 coord14 coord21 coord22 coord23 coord24 := by
  simp only [VS.lorentz_deltaRapidityPhi.k_xy_theta_tau_xy_eta_t, VR.lorentz_deltaRapidityPhi.k_xy_theta_tau_xy_eta_t, c08_lorentz_deltaRapidityPhi2_k_xy_theta_tau_xy_eta_t, h0, VR.P.nanToNum_eq]

theorem c08_lorentz_deltaRapidityPhi_k_xy_theta_tau_xy_eta_tau (coord11 coord12 coord13 coord14 coord21 coord22 coord23 coord24 : ℝ) (h0 : 0 ≤ coord14) (h1 : 0 ≤ coord24) :
    VS.lorentz_deltaRapidityPhi.k_xy_theta_tau_xy_eta_tau coord11 coord12 coord13 coord14 coord21 coord22 coord23 coord24 = VR.lorentz_deltaRapidityPhi.k_xy_theta_tau_xy_eta_tau coord11 coord12 coord13 coord14 coord21 coord22 coord23 coord24 := by
  simp only [VS.lorentz_deltaRapidityPhi.k_xy_theta_tau_xy_eta_tau, VR.lorentz_deltaRapidityPhi.k_xy_theta_tau_xy_eta_tau, c08_lorentz_deltaRapidityPhi2_k_xy_theta_tau_xy_eta_tau, h0, h1, VR.P.nanToNum_eq]

theorem c08_lorentz_deltaRapidityPhi_k_xy_theta_tau_xy_theta_t (coord11 coord12 coord13 coord14 coord21 coord22 coord23 coord24 : ℝ) (h0 : 0 ≤ coord14) :
    VS.lorentz_deltaRapidityPhi.k_xy_theta_tau_xy_theta_t coord11 coord12 coord13 coord14 coord21 coord22 coord23 coord24 = VR.lorentz_deltaRapidityPhi.k_xy_theta_tau_xy_theta_t coord11 coord12 coord13 coord14 coord21 coord22 coord23 coord24 := by
  simp only [VS.lorentz_deltaRapidityPhi.k_xy_theta_tau_xy_theta_t, VR.lorentz_deltaRapidityPhi.k_xy_theta_tau_xy_theta_t, c08_lorentz_deltaRapidityPhi2_k_xy_theta_tau_xy_theta_t, h0, VR.P.nanToNum_eq]

theorem c08_lorentz_deltaRapidityPhi_k_xy_theta_tau_xy_theta_tau (coord11 coord12 coord13 coord14 coord21 coord22 coord23 coord24 : ℝ) (h0 : 0 ≤ coord14) (h1 : 0 ≤ coord24) :
    VS.lorentz_deltaRapidityPhi.k_xy_theta_tau_xy_theta_tau coord11 coord12 coord13 coord14 coord21 coord22 coord23 coord24 = VR.lorentz_deltaRapidityPhi.k_xy_theta_tau_xy_theta_tau coord11 coord12 coord13 coord14 coord21 coord22 coord23 coord24 := by
  simp only [VS.lorentz_deltaRapidityPhi.k_xy_theta_tau_xy_theta_tau, VR.lorentz_deltaRapidityPhi.k_xy_theta_tau_xy_theta_tau, c08_lorentz_deltaRapidityPhi2_k_xy_theta_tau_xy_theta_tau, h0, h1, VR.P.nanToNum_eq]

theorem c08_lorentz_deltaRapidityPhi_k_xy_theta_tau_xy_z_t (coord11 coord12 coord13 coord14 coord21 coord22 coord23 coord24 : ℝ) (h0 : 0 ≤ coord14) :
    VS.lorentz_deltaRapidityPhi.k_xy_theta_tau_xy_z_t coord11 coord12 coord13 coord14 coord21 coord22 coord23 coord24 = VR.lorentz_deltaRapidityPhi.k_xy_theta_tau_xy_z_t coord11 coord12 coord13 coord14 coord21 coord22 coord23 coord24 := by
  simp only [VS.lorentz_deltaRapidityPhi.k_xy_theta_tau_xy_z_t, VR.lorentz_deltaRapidityPhi.k_xy_theta_tau_xy_z_t, c08_lorentz_deltaRapidityPhi2_k_xy_theta_tau_xy_z_t, h0, VR.P.nanToNum_eq]

theorem c08_lorentz_deltaRapidityPhi_k_xy_theta_tau_xy_z_tau (coord11 coord12 coord13 coord14 coord21 coord22 coord23 coord24 : ℝ) (h0 : 0 ≤ coord14) (h1 : 0 ≤ coord24) :
    VS.lorentz_deltaRapidityPhi.k_xy_theta_tau_xy_z_tau coord11 coord12 coord13 coord14 coord21 coord22 coord23 coord24 = VR.lorentz_deltaRapidityPhi.k_xy_theta_tau_xy_z_tau coord11 coord12 coord13 coord14 coord21 coord22 coord23 coord24 := by
  simp only [VS.lorentz_deltaRapidityPhi.k_xy_theta_tau_xy_z_tau, VR.lorentz_deltaRapidityPhi.k_xy_theta_tau_xy_z_tau, c08_lorentz_deltaRapidityPhi2_k_xy_theta_tau_xy_z_tau, h0, h1, VR.P.nanToNum_eq]

theorem c08_lorentz_deltaRapidityPhi_k_xy_z_t_rhophi_eta_tau (coord11 coord12 coord13 coord14 coord21 coord22 coord23 coord24 : ℝ) (h0 : 0 ≤ coord24) :
    VS.lorentz_deltaRapidityPhi.k_xy_z_t_rhophi_eta_tau coord11 coord12 coord13 coord14 coord21 coord22 coord23 coord24 = VR.lorentz_deltaRapidityPhi.k_xy_z_t_rhophi_eta_tau coord11 coord12 coord13 coord14 coord21 coord22 coord23 coord24 := by
  simp only [VS.lorentz_deltaRapidityPhi.k_xy_z_t_rhophi_eta_tau, VR.lorentz_deltaRapidityPhi.k_xy_z_t_rhophi_eta_tau, c08_lorentz_deltaRapidityPhi2_k_xy_z_t_rhophi_eta_tau, h0, VR.P.nanToNum_eq]

theorem c08_lorentz_deltaRapidityPhi_k_xy_z_t_rhophi_theta_tau (coord11 coord12 coord13 coord14 coord21 coord22 coord23 coord24 : ℝ) (h0 : 0 ≤ coord24) :
    VS.lorentz_deltaRapidityPhi.k_xy_z_t_rhophi_theta_tau coord11 coord12 coord13 coord14 coord21 coord22 coord23 coord24 = VR.lorentz_deltaRapidityPhi.k_xy_z_t_rhophi_theta_tau coord11 coord12 coord13 coord14 coord21 coord22 coord23 coord24 := by
  simp only [VS.lorentz_deltaRapidityPhi.k_xy_z_t_rhophi_theta_tau, VR.lorentz_deltaRapidityPhi.k_xy_z_t_rhophi_theta_tau, c08_lorentz_deltaRapidityPhi2_k_xy_z_t_rhophi_theta_tau, h0, VR.P.nanToNum_eq]

theorem c08_lorentz_deltaRapidityPhi_k_xy_z_t_rhophi_z_tau (coord11 coord12 coord13 coord14 coord21 coord22 coord23 coord24 : ℝ) (h0 : 0 ≤ coord24) :
    VS.lorentz_deltaRapidityPhi.k_xy_z_t_rhophi_z_tau coord11 coord12 coord13 coord14 coord21 coord22 coord23 coord24 = VR.lorentz_deltaRapidityPhi.k_xy_z_t_rhophi_z_tau coord11 coord12 coord13 coord14 coord21 coord22 coord23 coord24 := by
  simp only [VS.lorentz_deltaRapidityPhi.k_xy_z_t_rhophi_z_tau, VR.lorentz_deltaRapidityPhi.k_xy_z_t_rhophi_z_tau, c08_lorentz_deltaRapidityPhi2_k_xy_z_t_rhophi_z_tau, h0, VR.P.nanToNum_eq]

theorem c08_lorentz_deltaRapidityPhi_k_xy_z_t_xy_eta_tau (coord11 coord12 coord13 coord14 coord21 coord22 coord23 coord24 : ℝ) (h0 : 0 ≤ coord24) :
    VS.lorentz_deltaRapidityPhi.k_xy_z_t_xy_eta_tau coord11 coord12 coord13 coord14 coord21 coord22 coord23 coord24 = VR.lorentz_deltaRapidityPhi.k_xy_z_t_xy_eta_tau coord11 coord12 coord13 coord14 coord21 coord22 coord23 coord24 := by
  simp only [VS.lorentz_deltaRapidityPhi.k_xy_z_t_xy_eta_tau, VR.lorentz_deltaRapidityPhi.k_xy_z_t_xy_eta_tau, c08_lorentz_deltaRapidityPhi2_k_xy_z_t_xy_eta_tau, h0, VR.P.nanToNum_eq]

theorem c08_lorentz_deltaRapidityPhi_k_xy_z_t_xy_theta_tau (coord11 coord12 coord13 coord14 coord21 coord22 coord23 coord24 : ℝ) (h0 : 0 ≤ coord24) :
    VS.lorentz_deltaRapidityPhi.k_xy_z_t_xy_theta_tau coord11 coord12 coord13 coord14 coord21 coord22 coord23 coord24 = VR.lorentz_deltaRapidityPhi.k_xy_z_t_xy_theta_tau coord11 coord12 coord13 coord14 coord21 coord22 coord23 coord24 := by
  simp only [VS.lorentz_deltaRapidityPhi.k_xy_z_t_xy_theta_tau, VR.lorentz_deltaRapidityPhi.k_xy_z_t_xy_theta_tau, c08_lorentz_deltaRapidityPhi2_k_xy_z_t_xy_theta_tau, h0, VR.P.nanToNum_eq]

theorem c08_lorentz_deltaRapidityPhi_k_xy_z_t_xy_z_tau (coord11 coord12 coord13 coord14 coord21 coord22 coord23 coord24 : ℝ) (h0 : 0 ≤ coord24) :
    VS.lorentz_deltaRapidityPhi.k_xy_z_t_xy_z_tau coord11 coord12 coord13 coord14 coord21 coord22 coord23 coord24 = VR.lorentz_deltaRapidityPhi.k_xy_z_t_xy_z_tau coord11 coord12 coord13 coord14 coord21 coord22 coord23 coord24 := by
  simp only [VS.lorentz_deltaRapidityPhi.k_xy_z_t_xy_z_tau, VR.lorentz_deltaRapidityPhi.k_xy_z_t_xy_z_tau, c08_lorentz_deltaRapidityPhi2_k_xy_z_t_xy_z_tau, h0, VR.P.nanToNum_eq]

theorem c08_lorentz_deltaRapidityPhi_k_xy_z_tau_rhophi_eta_t (coord11 coord12 coord13 coord14 coord21 coord22 coord23 coord24 : ℝ) (h0 : 0 ≤ coord14) :
    VS.lorentz_deltaRapidityPhi.k_xy_z_tau_rhophi_eta_t coord11 coord12 coord13 coord14 coord21 coord22 coord23 coord24 = VR.lorentz_deltaRapidityPhi.k_xy_z_tau_rhophi_eta_t coord11 coord12 coord13 coord14 coord21 coord22 coord23 coord24 := by
  simp only [VS.lorentz_deltaRapidityPhi.k_xy_z_tau_rhophi_eta_t, VR.lorentz_deltaRapidityPhi.k_xy_z_tau_rhophi_eta_t, c08_lorentz_deltaRapidityPhi2_k_xy_z_tau_rhophi_eta_t, h0, VR.P.nanToNum_eq]

theorem c08_lorentz_deltaRapidityPhi_k_xy_z_tau_rhophi_eta_tau (coord11 coord12 coord13 coord14 coord21 coord22 coord23 coord24 : ℝ) (h0 : 0 ≤ coord14) (h1 : 0 ≤ coord24) :
    VS.lorentz_deltaRapidityPhi.k_xy_z_tau_rhophi_eta_tau coord11 coord12 coord13 coord14 coord21 coord22 coord23 coord24 = VR.lorentz_deltaRapidityPhi.k_xy_z_tau_rhophi_eta_tau coord11 coord12 coord13 coord14 coord21 coord22 coord23 coord24 := by
  simp only [VS.lorentz_deltaRapidityPhi.k_xy_z_tau_rhophi_eta_tau, VR.lorentz_deltaRapidityPhi.k_xy_z_tau_rhophi_eta_tau, c08_lorentz_deltaRapidityPhi2_k_xy_z_tau_rhophi_eta_tau, h0, h1, VR.P.nanToNum_eq]

theorem c08_lorentz_deltaRapidityPhi_k_xy_z_tau_rhophi_theta_t (coord11 coord12 coord13 coord14 coord21 coord22 coord23 coord24 : ℝ) (h0 : 0 ≤ coord14) :
    VS.lorentz_deltaRapidityPhi.k_xy_z_tau_rhophi_theta_t coord11 coord12 coord13 coord14 coord21 coord22 coord23 coord24 = VR.lorentz_deltaRapidityPhi.k_xy_z_tau_rhophi_theta_t coord11 coord12 coord13 coord14 coord21 coord22 coord23 coord24 := by
  simp only [VS.lorentz_deltaRapidityPhi.k_xy_z_tau_rhophi_theta_t, VR.lorentz_deltaRapidityPhi.k_xy_z_tau_rhophi_theta_t, c08_lorentz_deltaRapidityPhi2_k_xy_z_tau_rhophi_theta_t, h0, VR.P.nanToNum_eq]

theorem c08_lorentz_deltaRapidityPhi_k_xy_z_tau_rhophi_theta_tau (coord11 coord12 coord13 coord14 coord21 coord22 coord23 coord24 : ℝ) (h0 : 0 ≤ coord14) (h1 : 0 ≤ coord24) :
    VS.lorentz_deltaRapidityPhi.k_xy_z_tau_rhophi_theta_tau coord11 coord12 coord13 coord14 coord21 coord22 coord23 coord24 = VR.lorentz_deltaRapidityPhi.k_xy_z_tau_rhophi_theta_tau coord11 coord12 coord13 coord14 coord21 coord22 coord23 coord24 := by
  simp only [VS.lorentz_deltaRapidityPhi.k_xy_z_tau_rhophi_theta_tau, VR.lorentz_deltaRapidityPhi.k_xy_z_tau_rhophi_theta_tau, c08_lorentz_deltaRapidityPhi2_k_xy_z_tau_rhophi_theta_tau, h0, h1, VR.P.nanToNum_eq]

theorem c08_lorentz_deltaRapidityPhi_k_xy_z_tau_rhophi_z_t (coord11 coord12 coord13 coord14 coord21 coord22 coord23 coord24 : ℝ) (h0 : 0 ≤ coord14) :
    VS.lorentz_deltaRapidityPhi.k_xy_z_tau_rhophi_z_t coord11 coord12 coord13 coord14 coord21 coord22 coord23 coord24 = VR.lorentz_deltaRapidityPhi.k_xy_z_tau_rhophi_z_t coord11 coord12 coord13 coord14 coord21 coord22 coord23 coord24 := by
  simp only [VS.lorentz_deltaRapidityPhi.k_xy_z_tau_rhophi_z_t, VR.lorentz_deltaRapidityPhi.k_xy_z_tau_rhophi_z_t, c08_lorentz_deltaRapidityPhi2_k_xy_z_tau_rhophi_z_t, h0, VR.P.nanToNum_eq]

theorem c08_lorentz_deltaRapidityPhi_k_xy_z_tau_rhophi_z_tau (coord11 coord12 coord13 coord14 coord21 coord22 coord23 coord24 : ℝ) (h0 : 0 ≤ coord24) (h1 : 0 ≤ coord14) :
    VS.lorentz_deltaRapidityPhi.k_xy_z_tau_rhophi_z_tau coord11 coord12 coord13 coord14 coord21 coord22 coord23 coord24 = VR.lorentz_deltaRapidityPhi.k_xy_z_tau_rhophi_z_tau coord11 coord12 coord13 coord14 coord21 coord22 coord23 coord24 := by
  simp only [VS.lorentz_deltaRapidityPhi.k_xy_z_tau_rhophi_z_tau, VR.lorentz_deltaRapidityPhi.k_xy_z_tau_rhophi_z_tau, c08_lorentz_deltaRapidityPhi2_k_xy_z_tau_rhophi_z_tau, h0, h1, VR.P.nanToNum_eq]

theorem c08_lorentz_deltaRapidityPhi_k_xy_z_tau_xy_eta_t (coord11 coord12 coord13 coord14 coord21 coord22 coord23 coord24 : ℝ) (h0 : 0 ≤ coord14) :
    VS.lorentz_deltaRapidityPhi.k_xy_z_tau_xy_eta_t coord11 coord12 coord13 coord14 coord21 coord22 coord23 coord24 = VR.lorentz_deltaRapidityPhi.k_xy_z_tau_xy_eta_t coord11 coord12 coord13 coord14 coord21 coord22 coord23 coord24 := by
  simp only [VS.lorentz_deltaRapidityPhi.k_xy_z_tau_xy_eta_t, VR.lorentz_deltaRapidityPhi.k_xy_z_tau_xy_eta_t, c08_lorentz_deltaRapidityPhi2_k_xy_z_tau_xy_eta_t, h0, VR.P.nanToNum_eq]

theorem c08_lorentz_deltaRapidityPhi_k_xy_z_tau_xy_eta_tau (coord11 coord12 coord13 coord14 coord21 coord22 coord23 coord24 : ℝ) (h0 : 0 ≤ coord24) (h1 : 0 ≤ coord14) :
    VS.lorentz_deltaRapidityPhi.k_xy_z_tau_xy_eta_tau coord11 coord12 coord13 coord14 coord21 coord22 coord23 coord24 = VR.lorentz_deltaRapidityPhi.k_xy_z_tau_xy_eta_tau coord11 coord12 coord13 coord14 coord21 coord22 coord23 coord24 := by
  simp only [VS.lorentz_deltaRapidityPhi.k_xy_z_tau_xy_eta_tau, VR.lorentz_deltaRapidityPhi.k_xy_z_tau_xy_eta_tau, c08_lorentz_deltaRapidityPhi2_k_xy_z_tau_xy_eta_tau, h0, h1, VR.P.nanToNum_eq]

theorem c08_lorentz_deltaRapidityPhi_k_xy_z_tau_xy_theta_t (coord11 coord12 coord13 coord14 coord21 coord22 coord23 coord24 : ℝ) (h0 : 0 ≤ coord14) :
    VS.lorentz_deltaRapidityPhi.k_xy_z_tau_xy_theta_t coord11 coord12 coord13 coord14 coord21 coord22 coord23 coord24 = VR.lorentz_deltaRapidityPhi.k_xy_z_tau_xy_theta_t coord11 coord12 coord13 coord14 coord21 coord22 coord23 coord24 := by
  simp only [VS.lorentz_deltaRapidityPhi.k_xy_z_tau_xy_theta_t, VR.lorentz_deltaRapidityPhi.k_xy_z_tau_xy_theta_t, c08_lorentz_deltaRapidityPhi2_k_xy_z_tau_xy_theta_t, h0, VR.P.nanToNum_eq]

theorem c08_lorentz_deltaRapidityPhi_k_xy_z_tau_xy_theta_tau (coord11 coord12 coord13 coord14 coord21 coord22 coord23 coord24 : ℝ) (h0 : 0 ≤ coord14) (h1 : 0 ≤ coord24) :
    VS.lorentz_deltaRapidityPhi.k_xy_z_tau_xy_theta_tau coord11 coord12 coord13 coord14 coord21 coord22 coord23 coord24 = VR.lorentz_deltaRapidityPhi.k_xy_z_tau_xy_theta_tau coord11 coord12 coord13 coord14 coord21 coord22 coord23 coord24 := by
  simp only [VS.lorentz_deltaRapidityPhi.k_xy_z_tau_xy_theta_tau, VR.lorentz_deltaRapidityPhi.k_xy_z_tau_xy_theta_tau, c08_lorentz_deltaRapidityPhi2_k_xy_z_tau_xy_theta_tau, h0, h1, VR.P.nanToNum_eq]

theorem c08_lorentz_deltaRapidityPhi_k_xy_z_tau_xy_z_t (coord11 coord12 coord13 coord14 coord21 coord22 coord23 coord24 : ℝ) (h0 : 0 ≤ coord14) :
    VS.lorentz_deltaRapidityPhi.k_xy_z_tau_xy_z_t coord11 coord12 coord13 coord14 coord21 coord22 coord23 coord24 = VR.lorentz_deltaRapidityPhi.k_xy_z_tau_xy_z_t coord11 coord12 coord13 coord14 coord21 coord22 coord23 coord24 := by
  simp only [VS.lorentz_deltaRapidityPhi.k_xy_z_tau_xy_z_t, VR.lorentz_deltaRapidityPhi.k_xy_z_tau_xy_z_t, c08_lorentz_deltaRapidityPhi2_k_xy_z_tau_xy_z_t, h0, VR.P.nanToNum_eq]

theorem c08_lorentz_deltaRapidityPhi_k_xy_z_tau_xy_z_tau (coord11 coord12 coord13 coord14 coord21 coord22 coord23 coord24 : ℝ) (h0 : 0 ≤ coord14) (h1 : 0 ≤ coord24) :
    VS.lorentz_deltaRapidityPhi.k_xy_z_tau_xy_z_tau coord11 coord12 coord13 coord14 coord21 coord22 coord23 coord24 = VR.lorentz_deltaRapidityPhi.k_xy_z_tau_xy_z_tau coord11 coord12 coord13 coord14 coord21 coord22 coord23 coord24 := by
  simp only [VS.lorentz_deltaRapidityPhi.k_xy_z_tau_xy_z_tau, VR.lorentz_deltaRapidityPhi.k_xy_z_tau_xy_z_tau, c08_lorentz_deltaRapidityPhi2_k_xy_z_tau_xy_z_tau, h0, h1, VR.P.nanToNum_eq]

end C08
